package rules

import (
	"fmt"
	"go/constant"
	"go/token"
	"go/types"
	"sort"
	"strings"

	"golang.org/x/tools/go/ssa"

	"verif/checker/core"
)

// R-SRT-5: the row-indexed sort-value caches of a View (sortValuesInEachCell,
// sortValuesInEachRecord — recognised by type) stay aligned with RecordSet
// between the stage that fills them and the stage that reads them.
//
// A forward typestate analysis follows one *View object through the SELECT
// pipeline (lib/query.selectEntity, then lib/query.Select, and every function
// or closure the object is handed to). Per cache the state is
//   NIL      provably nil
//   ALIGNED  nil, or entry i belongs to RecordSet[i]
//   AHEAD(x) the cache was re-sliced from x, RecordSet not yet
//   BEHIND(x) RecordSet was shifted by x, the cache not yet
//   STALE    rows were replaced / reordered without the cache
// and every read of a cache (anything but a nil test) must happen in NIL or
// ALIGNED.

func init() {
	Register(&Rule{ID: "R-SRT-5", Props: []string{"C07", "C17", "C04"}, Floor: 3,
		Doc:      "the per-row sort-value caches of a View stay aligned with its rows: along the SELECT pipeline (selectEntity → View.Select → OrderBy → Offset → Limit, followed through every function and closure that receives the view) a typestate analysis tracks, per cache field, nil / aligned / shifted / stale; whenever RecordSet is replaced or its rows are shifted the cache must be dropped or shifted by the same amount before anything reads it (ORDER BY reads the per-cell cache left by analytic functions and DISTINCT, LIMIT … WITH TIES reads the per-record keys after OFFSET)",
		Controls: []string{"CtlCacheShiftOnlyRows", "CtlCacheKeptAfterReplace"},
		Run:      ruleSrt5})
}

const (
	csNil = iota
	csAligned
	csAhead
	csBehind
	csStale
)

type cacheSt struct {
	k   int
	sh  string // shift amount (AHEAD / BEHIND)
	why string // what made it not aligned
}

func (s cacheSt) String() string {
	switch s.k {
	case csNil:
		return "nil"
	case csAligned:
		return "aligned"
	case csAhead:
		return "re-sliced from " + s.sh + " ahead of the rows"
	case csBehind:
		return "rows shifted by " + s.sh + ", cache not"
	}
	return "stale"
}

type cacheVec []cacheSt

func (v cacheVec) clone() cacheVec { return append(cacheVec(nil), v...) }
func (v cacheVec) key() string {
	var p []string
	for _, s := range v {
		p = append(p, fmt.Sprintf("%d:%s", s.k, s.sh))
	}
	return strings.Join(p, "|")
}

func joinSt(a, b cacheSt) cacheSt {
	if a.k == b.k && a.sh == b.sh {
		return a
	}
	if (a.k == csNil && b.k == csAligned) || (a.k == csAligned && b.k == csNil) {
		return cacheSt{k: csAligned}
	}
	if a.k == csNil && (b.k == csBehind || b.k == csAhead || b.k == csStale) {
		return b
	}
	if b.k == csNil && (a.k == csBehind || a.k == csAhead || a.k == csStale) {
		return a
	}
	w := a.why
	if w == "" {
		w = b.why
	}
	if a.k == csStale {
		return a
	}
	if b.k == csStale {
		return b
	}
	return cacheSt{k: csStale, why: w}
}

func joinVec(a, b cacheVec) cacheVec {
	if a == nil {
		return b.clone()
	}
	if b == nil {
		return a.clone()
	}
	out := make(cacheVec, len(a))
	for i := range a {
		out[i] = joinSt(a[i], b[i])
	}
	return out
}

type cacheRead struct {
	in    ssa.Instruction
	fn    *ssa.Function
	field string
	st    cacheSt
}

type cacheAn struct {
	c      *Ctx
	fields []string // cache field names of View
	reads  map[ssa.Instruction]*cacheRead
	stack  map[*ssa.Function]bool
	memo   map[string]cacheVec
	fns    map[*ssa.Function]bool
}

// tracked computes the values of fn that denote the followed view object.
func cacheTracked(fn *ssa.Function, roots map[ssa.Value]bool) (map[ssa.Value]bool, map[ssa.Value]bool) {
	t := map[ssa.Value]bool{}
	for r := range roots {
		t[r] = true
	}
	cells := map[ssa.Value]bool{} // Alloc cells holding the view
	for changed := true; changed; {
		changed = false
		add := func(v ssa.Value) {
			if !t[v] {
				t[v] = true
				changed = true
			}
		}
		for _, b := range fn.Blocks {
			for _, in := range b.Instrs {
				switch x := in.(type) {
				case *ssa.Phi:
					for _, e := range x.Edges {
						if t[e] {
							add(x)
						}
					}
				case *ssa.ChangeType:
					if t[x.X] {
						add(x)
					}
				case *ssa.Store:
					if t[x.Val] {
						if _, ok := x.Addr.(*ssa.Alloc); ok && !cells[x.Addr] {
							cells[x.Addr] = true
							changed = true
						}
					}
				case *ssa.UnOp:
					if x.Op == token.MUL && cells[x.X] {
						add(x)
					}
				}
			}
		}
	}
	return t, cells
}

type cacheFrame struct {
	a       *cacheAn
	fn      *ssa.Function
	t       map[ssa.Value]bool
	cells   map[ssa.Value]bool
	rebuilt map[int]bool // caches this function rebuilds itself (assigned a new value / overwritten by copy)
}

// findRebuilt: the caches the function rebuilds on its own. A function that replaces or permutes the rows and
// also rebuilds a cache is taken to rebuild it for the new rows (the pairing of the two is not followed
// through correlated conditions).
func (f *cacheFrame) findRebuilt() {
	f.rebuilt = map[int]bool{}
	for _, b := range f.fn.Blocks {
		for _, in := range b.Instrs {
			if st, ok := in.(*ssa.Store); ok {
				if name, ok := f.fieldAddr(st.Addr); ok {
					if ci := f.cacheIdx(name); ci >= 0 && !core.IsNilConst(st.Val) && !f.prefixOf(st.Val, name) {
						if _, isShift := f.shiftOf(st.Val, name); !isShift {
							f.rebuilt[ci] = true
						}
					}
				}
			}
			if com, ok := isBuiltinCall(in, "copy"); ok {
				for ci, name := range f.a.fields {
					if f.prefixOf(com.Args[0], name) {
						f.rebuilt[ci] = true
					}
				}
			}
		}
	}
}

// perCell: the cache is indexed [row][column] (its element is an unnamed slice), so it depends on the column layout
func (f *cacheFrame) perCell(field string) bool {
	for v := range f.t {
		t := v.Type()
		if p, ok := t.Underlying().(*types.Pointer); ok {
			t = p.Elem()
		}
		st, ok := t.Underlying().(*types.Struct)
		if !ok {
			continue
		}
		for i := 0; i < st.NumFields(); i++ {
			if st.Field(i).Name() == field {
				if sl, ok := st.Field(i).Type().(*types.Slice); ok {
					_, inner := sl.Elem().(*types.Slice)
					return inner
				}
				return false
			}
		}
	}
	return false
}

// headerExtended: the new header is the old one with fields appended — append(view.Header, …) directly, or the
// result of a helper that is given view.Header and returns append(<that parameter>, …) on every path: the columns
// that existed keep their positions
func (f *cacheFrame) headerExtended(v ssa.Value) bool {
	appendOf := func(v ssa.Value, base func(ssa.Value) bool) bool {
		ok := false
		for _, o := range core.Origins(v, false) {
			call, isCall := o.(*ssa.Call)
			if !isCall {
				return false
			}
			b, isB := call.Call.Value.(*ssa.Builtin)
			if !isB || b.Name() != "append" || !base(call.Call.Args[0]) {
				return false
			}
			ok = true
		}
		return ok
	}
	ownHeader := func(x ssa.Value) bool { return f.prefixOf(x, "Header") }
	if appendOf(v, ownHeader) {
		return true
	}
	call, idx, ok := core.ExtractOf(v)
	if !ok {
		return false
	}
	g := call.Common().StaticCallee()
	if g == nil || g.Blocks == nil {
		return false
	}
	for i, a := range call.Common().Args {
		if !ownHeader(a) || i >= len(g.Params) {
			continue
		}
		param := g.Params[i]
		rets := core.Returns(g)
		all := len(rets) > 0
		for _, r := range rets {
			if idx >= len(r.Results) || !appendOf(r.Results[idx], func(x ssa.Value) bool { return x == ssa.Value(param) }) {
				all = false
			}
		}
		if all {
			return true
		}
	}
	return false
}

// replacesHeader: the function stores a new Header into the tracked view
func (f *cacheFrame) replacesHeader() bool {
	for _, b := range f.fn.Blocks {
		for _, in := range b.Instrs {
			if st, ok := in.(*ssa.Store); ok {
				if name, ok := f.fieldAddr(st.Addr); ok && name == "Header" && !f.prefixOf(st.Val, "Header") && !f.headerExtended(st.Val) {
					return true
				}
			}
		}
	}
	return false
}

// carriesOldEntries: v is assembled (append / phi / slicing) from element loads of view.<field>
func (f *cacheFrame) carriesOldEntries(v ssa.Value, field string, seen map[ssa.Value]bool) bool {
	if v == nil || seen[v] {
		return false
	}
	seen[v] = true
	switch x := v.(type) {
	case *ssa.Phi:
		for _, e := range x.Edges {
			if f.carriesOldEntries(e, field, seen) {
				return true
			}
		}
	case *ssa.Slice:
		return f.carriesOldEntries(x.X, field, seen)
	case *ssa.UnOp:
		if x.Op == token.MUL {
			if ia, ok := x.X.(*ssa.IndexAddr); ok && f.prefixOf(ia.X, field) {
				return true
			}
			if al, ok := x.X.(*ssa.Alloc); ok {
				vals, _ := core.StoresTo(al)
				for _, s := range vals {
					if f.carriesOldEntries(s, field, seen) {
						return true
					}
				}
			}
			if fv, ok := x.X.(*ssa.FreeVar); ok {
				vals, _ := core.StoresTo(fv)
				for _, s := range vals {
					if f.carriesOldEntries(s, field, seen) {
						return true
					}
				}
			}
		}
	case *ssa.Call:
		if b, ok := x.Call.Value.(*ssa.Builtin); ok && b.Name() == "append" {
			for _, a := range x.Call.Args {
				if f.carriesOldEntries(a, field, seen) {
					return true
				}
			}
		}
	case *ssa.Alloc:
		// the backing array of a variadic append: its element stores
		for _, r := range *x.Referrers() {
			if ia, ok := r.(*ssa.IndexAddr); ok {
				for _, rr := range *ia.Referrers() {
					if st, ok := rr.(*ssa.Store); ok && st.Addr == ia && f.carriesOldEntries(st.Val, field, seen) {
						return true
					}
				}
			}
		}
	}
	return false
}

func (f *cacheFrame) fieldAddr(v ssa.Value) (string, bool) {
	fa, ok := v.(*ssa.FieldAddr)
	if !ok || !f.t[fa.X] {
		return "", false
	}
	return core.FieldName(fa), true
}

// loadOf: v is a load of view.<field>
func (f *cacheFrame) loadOf(v ssa.Value, field string) bool {
	u, ok := v.(*ssa.UnOp)
	if !ok || u.Op != token.MUL {
		return false
	}
	n, ok := f.fieldAddr(u.X)
	return ok && n == field
}

func isZeroOrNil(v ssa.Value) bool {
	if v == nil {
		return true
	}
	if k, ok := v.(*ssa.Const); ok && k.Value != nil && k.Value.Kind() == constant.Int {
		i, _ := constant.Int64Val(k.Value)
		return i == 0
	}
	return false
}

// prefixOf: v is view.<field> or view.<field>[:n]
func (f *cacheFrame) prefixOf(v ssa.Value, field string) bool {
	for i := 0; i < 4; i++ {
		if f.loadOf(v, field) {
			return true
		}
		s, ok := v.(*ssa.Slice)
		if !ok || !isZeroOrNil(s.Low) {
			return false
		}
		v = s.X
	}
	return false
}

func (f *cacheFrame) shiftKey(l ssa.Value) string {
	if u, ok := l.(*ssa.UnOp); ok && u.Op == token.MUL {
		if n, ok := f.fieldAddr(u.X); ok {
			return "view." + n
		}
	}
	if k, ok := l.(*ssa.Const); ok && k.Value != nil {
		return k.Value.ExactString()
	}
	return f.fn.Name() + ":" + l.Name()
}

// shiftOf: v is view.<field>[x:] with x not 0 → key of x
func (f *cacheFrame) shiftOf(v ssa.Value, field string) (string, bool) {
	s, ok := v.(*ssa.Slice)
	if !ok || isZeroOrNil(s.Low) {
		return "", false
	}
	if !f.prefixOf(s.X, field) {
		return "", false
	}
	return f.shiftKey(s.Low), true
}

func isEmptySliceValue(v ssa.Value) bool {
	switch x := v.(type) {
	case *ssa.Slice:
		if al, ok := x.X.(*ssa.Alloc); ok {
			if p, ok := al.Type().Underlying().(*types.Pointer); ok {
				if arr, ok := p.Elem().Underlying().(*types.Array); ok && arr.Len() == 0 {
					return true
				}
			}
		}
	case *ssa.MakeSlice:
		if n, ok := core.ConstInt(x.Len); ok && n == 0 {
			return true
		}
	case *ssa.Const:
		return x.Value == nil
	}
	return false
}

func isBuiltinCall(in ssa.Instruction, name string) (*ssa.CallCommon, bool) {
	ci, ok := in.(ssa.CallInstruction)
	if !ok {
		return nil, false
	}
	b, ok := ci.Common().Value.(*ssa.Builtin)
	if !ok || b.Name() != name {
		return nil, false
	}
	return ci.Common(), true
}

// rowsShifted / rowsReplaced apply an effect on RecordSet to every cache.
func rowsShifted(v cacheVec, key, why string) {
	for i := range v {
		switch v[i].k {
		case csNil:
		case csAligned:
			v[i] = cacheSt{k: csBehind, sh: key, why: why}
		case csAhead:
			if v[i].sh == key {
				v[i] = cacheSt{k: csAligned}
			} else {
				v[i] = cacheSt{k: csStale, why: why}
			}
		case csBehind:
			// the same copy-down loop seen again: one shift, not two
			if v[i].sh != key {
				v[i] = cacheSt{k: csStale, why: why}
			}
		default:
			v[i] = cacheSt{k: csStale, why: why}
		}
	}
}

func rowsReplaced(v cacheVec, why string, skip map[int]bool) {
	for i := range v {
		if v[i].k != csNil && !skip[i] {
			v[i] = cacheSt{k: csStale, why: why}
		}
	}
}

func (f *cacheFrame) cacheIdx(name string) int {
	for i, n := range f.a.fields {
		if n == name {
			return i
		}
	}
	return -1
}

// transfer applies one instruction. record: note cache reads with their state.
func (f *cacheFrame) transfer(in ssa.Instruction, st cacheVec, depth int, record bool) cacheVec {
	a := f.a
	pos := a.c.Pos(in)
	switch x := in.(type) {
	case *ssa.Store:
		if name, ok := f.fieldAddr(x.Addr); ok {
			if ci := f.cacheIdx(name); ci >= 0 {
				switch {
				case core.IsNilConst(x.Val):
					st[ci] = cacheSt{k: csNil}
				case f.prefixOf(x.Val, name):
					// cut at the end: alignment of the prefix is unchanged
				default:
					if key, ok := f.shiftOf(x.Val, name); ok {
						switch st[ci].k {
						case csNil:
						case csAligned:
							st[ci] = cacheSt{k: csAhead, sh: key, why: "cache re-sliced at " + pos}
						case csBehind:
							if st[ci].sh == key {
								st[ci] = cacheSt{k: csAligned}
							} else {
								st[ci] = cacheSt{k: csStale, why: st[ci].why}
							}
						default:
							st[ci] = cacheSt{k: csStale, why: st[ci].why}
						}
					} else if _, ok := x.Val.(*ssa.MakeSlice); ok {
						st[ci] = cacheSt{k: csAligned}
					} else if f.perCell(name) && f.replacesHeader() && f.carriesOldEntries(x.Val, name, map[ssa.Value]bool{}) {
						// entries of the old per-cell cache are kept although the function re-lays the columns: entry [i][c]
						// belongs to the cell that was at column c before
						st[ci] = cacheSt{k: csStale, why: "entries of the old " + name + " carried over at " + pos + " although the function replaces the Header (columns re-laid)"}
					} else {
						// a cache built some other way (merged, copied): taken to be built for the rows it is stored with
						st[ci] = cacheSt{k: csAligned}
					}
				}
				return st
			}
			if name == "Header" && !f.prefixOf(x.Val, "Header") && !f.headerExtended(x.Val) {
				// the columns are re-laid: a per-cell cache (indexed [row][column]) no longer describes the cells
				for ci, cn := range a.fields {
					if f.perCell(cn) && st[ci].k != csNil {
						st[ci] = cacheSt{k: csStale, why: "Header replaced at " + pos + " (columns re-laid) while " + cn + " was kept"}
					}
				}
				return st
			}
			if name == "RecordSet" {
				switch {
				case f.prefixOf(x.Val, "RecordSet"), isEmptySliceValue(x.Val):
				case f.isAppendSelf(x.Val):
				default:
					if key, ok := f.shiftOf(x.Val, "RecordSet"); ok {
						rowsShifted(st, key, "RecordSet re-sliced from "+key+" at "+pos)
					} else {
						rowsReplaced(st, "RecordSet replaced at "+pos, f.rebuilt)
					}
				}
				return st
			}
			return st
		}
		// element store view.RecordSet[i] = …
		if ia, ok := x.Addr.(*ssa.IndexAddr); ok && f.prefixOf(ia.X, "RecordSet") {
			switch kind, key := f.classifyRowStore(ia, x.Val); kind {
			case "shift":
				rowsShifted(st, key, "rows copied down from RecordSet["+key+":] at "+pos)
			case "replace":
				rowsReplaced(st, "row replaced at "+pos, f.rebuilt)
			}
		}
		return st
	case *ssa.UnOp:
		if x.Op == token.MUL && record {
			if name, ok := f.fieldAddr(x.X); ok {
				if ci := f.cacheIdx(name); ci >= 0 && f.realUse(x) {
					r := a.reads[x]
					if r == nil || st[ci].k > r.st.k {
						a.reads[x] = &cacheRead{in: x, fn: f.fn, field: name, st: st[ci]}
					}
				}
			}
		}
		return st
	case *ssa.MakeClosure:
		cf, _ := x.Fn.(*ssa.Function)
		if cf == nil {
			return st
		}
		clean := map[ssa.Value]bool{}
		for i, b := range x.Bindings {
			if i >= len(cf.FreeVars) {
				break
			}
			if f.t[b] {
				clean[cf.FreeVars[i]] = true
			} else if f.cells[b] {
				// captured variable holding the view: its loads inside the closure are the view
				clean[cellRoot{cf.FreeVars[i]}] = true
			}
		}
		if len(clean) == 0 {
			return st
		}
		out := a.run(cf, clean, st, depth+1)
		return joinVec(st, out)
	}
	if ci, ok := in.(ssa.CallInstruction); ok {
		if com, ok := isBuiltinCall(in, "copy"); ok {
			for ci, name := range a.fields {
				// the cache overwritten element by element (merged / permuted together with the rows):
				// taken to be rebuilt for the rows it is stored with
				if f.prefixOf(com.Args[0], name) && st[ci].k != csNil {
					st[ci] = cacheSt{k: csAligned}
				}
			}
			if f.prefixOf(com.Args[0], "RecordSet") {
				if key, ok := f.shiftOf(com.Args[1], "RecordSet"); ok {
					rowsShifted(st, key, "rows copied down from RecordSet["+key+":] at "+pos)
				} else if !f.prefixOf(com.Args[1], "RecordSet") {
					rowsReplaced(st, "rows overwritten by copy at "+pos, f.rebuilt)
				}
			}
			return st
		}
		callee := ci.Common().StaticCallee()
		if callee == nil || callee.Blocks == nil {
			return st
		}
		roots := map[ssa.Value]bool{}
		for i, arg := range ci.Common().Args {
			if f.t[arg] && i < len(callee.Params) {
				roots[callee.Params[i]] = true
			}
		}
		if len(roots) == 0 {
			return st
		}
		return a.run(callee, roots, st, depth+1)
	}
	return st
}

// cellRoot marks a free variable that is a cell (pointer to the variable) holding the view.
type cellRoot struct{ *ssa.FreeVar }

func (f *cacheFrame) isAppendSelf(v ssa.Value) bool {
	call, ok := v.(*ssa.Call)
	if !ok {
		return false
	}
	b, ok := call.Call.Value.(*ssa.Builtin)
	return ok && b.Name() == "append" && len(call.Call.Args) > 0 && f.prefixOf(call.Call.Args[0], "RecordSet")
}

// classifyRowStore: what a store into view.RecordSet[i] does to the pairing of rows and cache entries.
func (f *cacheFrame) classifyRowStore(dst *ssa.IndexAddr, val ssa.Value) (string, string) {
	sameIdx := func(j ssa.Value) bool { return j == dst.Index }
	seen := map[ssa.Value]bool{}
	res := "replace"
	key := ""
	var walk func(v ssa.Value, d int)
	walk = func(v ssa.Value, d int) {
		if v == nil || seen[v] || d > 8 {
			return
		}
		seen[v] = true
		switch x := v.(type) {
		case *ssa.UnOp:
			if x.Op == token.MUL {
				if ia, ok := x.X.(*ssa.IndexAddr); ok {
					if f.prefixOf(ia.X, "RecordSet") && sameIdx(ia.Index) {
						if res != "shift" {
							res = "same"
						}
						return
					}
					if k, ok := f.shiftOf(ia.X, "RecordSet"); ok && sameIdx(ia.Index) {
						res, key = "shift", k
						return
					}
				}
			}
		case *ssa.Phi:
			for _, e := range x.Edges {
				walk(e, d+1)
			}
		case *ssa.Slice:
			walk(x.X, d+1)
		case *ssa.ChangeType:
			walk(x.X, d+1)
		case *ssa.Call:
			if b, ok := x.Call.Value.(*ssa.Builtin); ok && b.Name() == "append" {
				walk(x.Call.Args[0], d+1)
			}
		case *ssa.MakeSlice:
			// record := make(Record, …); copy(record, view.RecordSet[i]); view.RecordSet[i] = record
			for _, r := range *x.Referrers() {
				if com, ok := isBuiltinCall(r, "copy"); ok && com.Args[0] == ssa.Value(x) {
					walk(com.Args[1], d+1)
				}
			}
		}
	}
	walk(val, 0)
	return res, key
}

// realUse: the loaded cache is used for more than a nil test.
func (f *cacheFrame) realUse(u *ssa.UnOp) bool {
	if u.Referrers() == nil {
		return false
	}
	for _, r := range *u.Referrers() {
		switch x := r.(type) {
		case *ssa.DebugRef:
		case *ssa.BinOp:
			if _, _, ok := core.NilCmp(x); ok {
				continue
			}
			return true
		case *ssa.Slice:
			// view.K = view.K[x:] re-slices, it does not consult an entry
			onlyStored := true
			for _, rr := range *x.Referrers() {
				if s, ok := rr.(*ssa.Store); ok {
					if n, ok := f.fieldAddr(s.Addr); ok && f.cacheIdx(n) >= 0 {
						continue
					}
				}
				if _, ok := rr.(*ssa.DebugRef); ok {
					continue
				}
				onlyStored = false
			}
			if !onlyStored {
				return true
			}
		default:
			return true
		}
	}
	return false
}

// refine: the state on the edge from→to, using a nil test of a cache that ends `from`.
func (f *cacheFrame) refine(from, to *ssa.BasicBlock, st cacheVec) cacheVec {
	if len(from.Instrs) == 0 {
		return st
	}
	iff, ok := from.Instrs[len(from.Instrs)-1].(*ssa.If)
	if !ok || len(from.Succs) != 2 || from.Succs[0] == from.Succs[1] {
		return st
	}
	x, isNeq, ok := core.NilCmp(iff.Cond)
	if !ok {
		return st
	}
	u, ok := x.(*ssa.UnOp)
	if !ok || u.Op != token.MUL || u.Block() != from {
		return st
	}
	name, ok := f.fieldAddr(u.X)
	if !ok {
		return st
	}
	ci := f.cacheIdx(name)
	if ci < 0 {
		return st
	}
	// no store to the cache between the load and the branch
	for i := core.InstrIndex(u) + 1; i < len(from.Instrs); i++ {
		if s, ok := from.Instrs[i].(*ssa.Store); ok {
			if n, ok := f.fieldAddr(s.Addr); ok && n == name {
				return st
			}
		}
	}
	nilEdge := (to == from.Succs[0] && !isNeq) || (to == from.Succs[1] && isNeq)
	if nilEdge {
		st = st.clone()
		st[ci] = cacheSt{k: csNil}
	}
	return st
}

func isLoopHeader(b *ssa.BasicBlock) bool {
	for _, p := range b.Preds {
		if b.Dominates(p) {
			return true
		}
	}
	return false
}

func (a *cacheAn) run(fn *ssa.Function, roots map[ssa.Value]bool, in cacheVec, depth int) cacheVec {
	if fn.Blocks == nil || depth > 8 || a.stack[fn] {
		return in
	}
	var rk []string
	for r := range roots {
		rk = append(rk, fmt.Sprint(r.Name()))
	}
	sort.Strings(rk)
	mk := fmt.Sprintf("%p/%s/%s", fn, strings.Join(rk, ","), in.key())
	if out, ok := a.memo[mk]; ok {
		return out.clone()
	}
	a.stack[fn] = true
	defer delete(a.stack, fn)
	a.fns[fn] = true

	// free-variable cells holding the view: loads of the cell are the view
	plain := map[ssa.Value]bool{}
	for r := range roots {
		if cr, ok := r.(cellRoot); ok {
			for _, ref := range *cr.FreeVar.Referrers() {
				if u, ok := ref.(*ssa.UnOp); ok && u.Op == token.MUL {
					plain[u] = true
				}
			}
			continue
		}
		plain[r] = true
	}
	tr, cells := cacheTracked(fn, plain)
	for r := range roots {
		if cr, ok := r.(cellRoot); ok {
			cells[cr.FreeVar] = true
		}
	}
	f := &cacheFrame{a: a, fn: fn, t: tr, cells: cells}
	f.findRebuilt()

	outs := map[*ssa.BasicBlock]cacheVec{}
	// the state on entry of b: the join over the predecessors computed so far (recomputed, not accumulated)
	inOf := func(b *ssa.BasicBlock) cacheVec {
		var acc cacheVec
		if b == fn.Blocks[0] {
			acc = in.clone()
		}
		header := isLoopHeader(b)
		for _, p := range b.Preds {
			o, ok := outs[p]
			if !ok {
				continue
			}
			e := f.refine(p, b, o)
			if acc == nil {
				acc = e.clone()
				continue
			}
			n := joinVec(acc, e)
			if header {
				// a copy-down loop: "aligned" before the loop, "rows shifted" after an iteration; the loop as a
				// whole shifts once (zero iterations only when there is nothing to shift)
				for i := range n {
					x, y := acc[i], e[i]
					if x.k == csAligned && (y.k == csBehind || y.k == csAhead) {
						n[i] = y
					} else if y.k == csAligned && (x.k == csBehind || x.k == csAhead) {
						n[i] = x
					}
				}
			}
			acc = n
		}
		return acc
	}
	work := []*ssa.BasicBlock{fn.Blocks[0]}
	inWork := map[*ssa.BasicBlock]bool{fn.Blocks[0]: true}
	steps := 0
	for len(work) > 0 && steps < 20000 {
		steps++
		b := work[0]
		work = work[1:]
		inWork[b] = false
		st := inOf(b)
		if st == nil {
			continue
		}
		for _, instr := range b.Instrs {
			st = f.transfer(instr, st, depth, false)
		}
		if prev, ok := outs[b]; ok && prev.key() == st.key() {
			continue
		}
		outs[b] = st
		for _, s := range b.Succs {
			if !inWork[s] {
				inWork[s] = true
				work = append(work, s)
			}
		}
	}
	ins := map[*ssa.BasicBlock]cacheVec{}
	for _, b := range fn.Blocks {
		if v := inOf(b); v != nil {
			ins[b] = v
		}
	}
	// final pass: record reads, collect the exit state
	var exit cacheVec
	for _, b := range fn.Blocks {
		st, ok := ins[b]
		if !ok {
			continue
		}
		st = st.clone()
		for _, instr := range b.Instrs {
			st = f.transfer(instr, st, depth, true)
			if ret, ok := instr.(*ssa.Return); ok {
				// a return that certainly reports an error ends the statement: the view is not used further
				failing := false
				if ei := core.ErrorResultIndex(fn); ei >= 0 && ei < len(ret.Results) {
					failing = core.ClassifyNil(ret.Results[ei], ret) == core.NonNil
				}
				if !failing {
					exit = joinVec(exit, st)
				}
			}
		}
	}
	if exit == nil {
		exit = in.clone()
	}
	a.memo[mk] = exit.clone()
	return exit
}

// cacheFieldsOf: the slice-of-sort-values fields of a struct (pointer) type that also has a RecordSet field.
func cacheFieldsOf(t types.Type) []string {
	if p, ok := t.Underlying().(*types.Pointer); ok {
		t = p.Elem()
	}
	stt, _ := t.Underlying().(*types.Struct)
	var fields []string
	hasRS := false
	for i := 0; stt != nil && i < stt.NumFields(); i++ {
		fl := stt.Field(i)
		if fl.Name() == "RecordSet" {
			hasRS = true
		}
		if _, ok := fl.Type().Underlying().(*types.Slice); ok && strings.Contains(fl.Type().String(), "SortValue") {
			fields = append(fields, fl.Name())
		}
	}
	if !hasRS {
		return nil
	}
	sort.Strings(fields)
	return fields
}

func ruleSrt5(c *Ctx) {
	viewT := c.P.Type("lib/query", "View")
	if viewT == nil {
		c.Unknown("View", "-", "type lib/query.View not found")
		return
	}
	fields := cacheFieldsOf(viewT)
	if len(fields) == 0 {
		c.Unknown("View caches", "-", "cannot-analyse: View has no RecordSet field or no slice field of sort values")
		return
	}
	newAn := func(fields []string) *cacheAn {
		return &cacheAn{c: c, fields: fields, reads: map[ssa.Instruction]*cacheRead{}, stack: map[*ssa.Function]bool{}, memo: map[string]cacheVec{}, fns: map[*ssa.Function]bool{}}
	}
	nilVec := func() cacheVec {
		v := make(cacheVec, len(fields))
		for i := range v {
			v[i] = cacheSt{k: csNil}
		}
		return v
	}
	report := func(a *cacheAn, onlyControl bool) int {
		type agg struct {
			worst *cacheRead
			n     int
		}
		byKey := map[string]*agg{}
		for _, r := range a.reads {
			key := c.KeyAt(r.fn, "reads "+r.field+" aligned with the rows")
			g := byKey[key]
			if g == nil {
				g = &agg{}
				byKey[key] = g
			}
			g.n++
			if g.worst == nil || r.st.k > g.worst.st.k || (r.st.k == g.worst.st.k && c.Pos(r.in) < c.Pos(g.worst.in)) {
				g.worst = r
			}
		}
		var keys []string
		for k := range byKey {
			keys = append(keys, k)
		}
		sort.Strings(keys)
		for _, k := range keys {
			g := byKey[k]
			c.Touch(g.worst.fn)
			if g.worst.st.k <= csAligned {
				c.Ok(k, c.Pos(g.worst.in), fmt.Sprintf("%d read(s), each reached only in state nil/aligned", g.n))
			} else {
				c.Bad(k, c.Pos(g.worst.in), fmt.Sprintf("the cache is read while it no longer corresponds to the rows (%s; %s): sort keys of other rows are used for these rows", g.worst.st, g.worst.st.why))
			}
		}
		return len(keys)
	}

	// the pipeline: selectEntity on the view returned by LoadView, then query.Select on the view returned by selectEntity
	ent := c.Fn("lib/query.selectEntity")
	top := c.Fn("lib/query.Select")
	if ent == nil || top == nil {
		return
	}
	a := newAn(fields)
	resultsOf := func(fn *ssa.Function, names ...string) map[ssa.Value]bool {
		roots := map[ssa.Value]bool{}
		for _, call := range c.P.CallsNamed(fn, names...) {
			v, ok := call.(ssa.Value)
			if !ok {
				continue
			}
			if _, isTuple := v.Type().(*types.Tuple); isTuple {
				for _, r := range *v.Referrers() {
					if ex, ok := r.(*ssa.Extract); ok && ex.Index == 0 {
						roots[ex] = true
					}
				}
			} else {
				roots[v] = true
			}
		}
		return roots
	}
	// the call may have been moved into a private helper of the pipeline function: analyse from there
	// … or the pipeline function may be a thin wrapper that hands all its work to another function (which may have
	// a second entry point and so is not "private"): the pipeline then is that function's
	hostOf := func(fn *ssa.Function, names ...string) *ssa.Function {
		seenHost := map[*ssa.Function]bool{}
		for cur := fn; cur != nil && !seenHost[cur]; cur = thinDelegate(cur) {
			seenHost[cur] = true
			if len(resultsOf(cur, names...)) > 0 {
				return cur
			}
			var hs []*ssa.Function
			for h := range privateHelpersOf(c.P, cur, 2) {
				hs = append(hs, h)
			}
			sort.Slice(hs, func(i, j int) bool { return c.P.Name(hs[i]) < c.P.Name(hs[j]) })
			for _, h := range hs {
				if len(resultsOf(h, names...)) > 0 {
					return h
				}
			}
		}
		return fn
	}
	ent = hostOf(ent, "lib/query.LoadView")
	top = hostOf(top, "lib/query.selectEntity", "lib/query.selectSet")
	r1 := resultsOf(ent, "lib/query.LoadView")
	if len(r1) == 0 {
		c.Unknown(c.KeyAt(ent, "view from LoadView"), c.FnPos(ent), "cannot-analyse: selectEntity does not take its view from LoadView")
		return
	}
	s1 := a.run(ent, r1, nilVec(), 0)
	r2 := resultsOf(top, "lib/query.selectEntity", "lib/query.selectSet")
	if len(r2) == 0 {
		c.Unknown(c.KeyAt(top, "view from selectEntity"), c.FnPos(top), "cannot-analyse: query.Select does not take its view from selectEntity / selectSet")
		return
	}
	a.run(top, r2, joinVec(s1, nilVec()), 0)
	n := report(a, false)
	if n == 0 {
		c.Unknown("cache reads", "-", "cannot-analyse: no read of a sort-value cache found along the SELECT pipeline")
	}

	// controls: exported functions of the control package taking a *View, analysed from state aligned
	for _, fn := range c.P.FuncsIn(true, core.ControlPkg) {
		if !c.P.IsControl(fn) || len(fn.Params) == 0 || fn.Parent() != nil {
			continue
		}
		if !strings.Contains(fn.Name(), "Cache") {
			continue
		}
		cf := cacheFieldsOf(fn.Params[0].Type())
		if len(cf) == 0 {
			continue
		}
		ca := newAn(cf)
		al := make(cacheVec, len(cf))
		for i := range al {
			al[i] = cacheSt{k: csAligned}
		}
		ca.run(fn, map[ssa.Value]bool{fn.Params[0]: true}, al, 0)
		report(ca, true)
	}
}

// R-LIM-4 ---------------------------------------------------------------------

func init() {
	Register(&Rule{ID: "R-LIM-4", Props: []string{"C07"}, Floor: 2,
		Doc: "a row bound is a row count: every value that can reach the bound of a RecordSet cut in View.Limit / View.Offset (through φ, conversions and the stored offset) is 0 or is computed from the evaluated clause value or the record count — never another literal (a percentage such as 100 taken as a number of rows is a unit error: LIMIT 150 PERCENT must keep every row, not 100 rows)",
		Run: ruleLim4})
}

func ruleLim4(c *Ctx) {
	n := 0
	for _, name := range []string{"lib/query.(*View).Limit", "lib/query.(*View).Offset"} {
		fn := c.Fn(name)
		if fn == nil {
			continue
		}
		if len(fn.Params) == 0 {
			continue
		}
		recv := fn.Params[0]
		private := privateHelpersOf(c.P, fn, 2)
		isRS := func(v ssa.Value) bool {
			for i := 0; i < 4; i++ {
				if u, ok := v.(*ssa.UnOp); ok && u.Op == token.MUL {
					if fa, ok := u.X.(*ssa.FieldAddr); ok && fa.X == ssa.Value(recv) && core.FieldName(fa) == "RecordSet" {
						return true
					}
					return false
				}
				s, ok := v.(*ssa.Slice)
				if !ok {
					return false
				}
				v = s.X
			}
			return false
		}
		var leaves func(v ssa.Value, seen map[ssa.Value]bool, out *[]ssa.Value)
		leaves = func(v ssa.Value, seen map[ssa.Value]bool, out *[]ssa.Value) {
			if v == nil || seen[v] {
				return
			}
			seen[v] = true
			switch x := v.(type) {
			case *ssa.Phi:
				for _, e := range x.Edges {
					leaves(e, seen, out)
				}
			case *ssa.Convert:
				leaves(x.X, seen, out)
			case *ssa.ChangeType:
				leaves(x.X, seen, out)
			case *ssa.Extract:
				// a bound computed by a private helper: what the helper returns
				if call, ok := x.Tuple.(*ssa.Call); ok {
					if h := core.StaticCallee(call); h != nil && private[h] {
						for _, rv := range core.ReturnedValues(h, x.Index) {
							leaves(rv, seen, out)
						}
						return
					}
				}
				*out = append(*out, v)
			case *ssa.Call:
				if h := core.StaticCallee(x); h != nil && private[h] && h.Signature.Results().Len() == 1 {
					for _, rv := range core.ReturnedValues(h, 0) {
						leaves(rv, seen, out)
					}
					return
				}
				*out = append(*out, v)
			case *ssa.UnOp:
				if x.Op == token.MUL {
					if fa, ok := x.X.(*ssa.FieldAddr); ok && fa.X == ssa.Value(recv) {
						// a field of the receiver: what this function stores into it
						found := false
						for _, b := range fn.Blocks {
							for _, in := range b.Instrs {
								if st, ok := in.(*ssa.Store); ok {
									if fb, ok := st.Addr.(*ssa.FieldAddr); ok && fb.X == ssa.Value(recv) && fb.Field == fa.Field {
										found = true
										leaves(st.Val, seen, out)
									}
								}
							}
						}
						if found {
							return
						}
					}
				}
				*out = append(*out, v)
			default:
				*out = append(*out, v)
			}
		}
		k := 0
		for _, b := range fn.Blocks {
			for _, in := range b.Instrs {
				sl, ok := in.(*ssa.Slice)
				if !ok || !isRS(sl.X) {
					continue
				}
				for _, bound := range []ssa.Value{sl.Low, sl.High} {
					if bound == nil {
						continue
					}
					if _, isConst := bound.(*ssa.Const); isConst {
						continue // RecordSet[:0] and the like cut to a fixed prefix on purpose
					}
					k++
					n++
					c.Touch(fn)
					key := c.KeyAt(fn, fmt.Sprintf("row bound #%d of a RecordSet cut", k))
					var ls []ssa.Value
					leaves(bound, map[ssa.Value]bool{}, &ls)
					bad := ""
					for _, l := range ls {
						if kc, ok := l.(*ssa.Const); ok && kc.Value != nil && kc.Value.Kind() == constant.Int {
							if i, _ := constant.Int64Val(kc.Value); i != 0 {
								bad = fmt.Sprintf("the literal %d (%s) can reach the bound", i, c.P.Pos(kc.Pos()))
							}
						}
					}
					c.Check(bad == "", key, c.Pos(sl), fmt.Sprintf("%d origin(s): 0, the clause value or the record count", len(ls)),
						bad+": a fixed number of rows is kept or dropped whatever the clause says (a percentage used as a row count?)")
				}
			}
		}
	}
	if n == 0 {
		c.Unknown("row bounds", "-", "cannot-analyse: no RecordSet cut with a computed bound in View.Limit / View.Offset")
	}
}

// R-FIX-1 ---------------------------------------------------------------------

func init() {
	Register(&Rule{ID: "R-FIX-1", Props: []string{"C07", "C03"}, Floor: 5,
		Doc: "View.Fix ends the pipeline with a clean view: every unexported field of View that some other function stores into (the transient state of the SELECT pipeline: select fields and labels, grouping flag, comparison keys, sort keys and directions, the OFFSET count that LIMIT … PERCENT adds back) is stored with its zero value on every success path of Fix, directly or in a helper called on the same view — the view is handed to the enclosing query (sub-query in FROM, operand of a set operation), so a value left behind is read by that query's own stages",
		Run: ruleFix1})
}

func isZeroConst(v ssa.Value) bool {
	k, ok := v.(*ssa.Const)
	if !ok {
		return false
	}
	if k.Value == nil {
		return true
	}
	switch k.Value.Kind() {
	case constant.Int:
		i, _ := constant.Int64Val(k.Value)
		return i == 0
	case constant.Bool:
		return !constant.BoolVal(k.Value)
	case constant.String:
		return constant.StringVal(k.Value) == ""
	case constant.Float:
		f, _ := constant.Float64Val(k.Value)
		return f == 0
	}
	return false
}

// zeroStoresOnAllPaths: every path of fn from the entry to a success return stores the zero value into field
// `field` of the object `obj` (a parameter of fn), directly or through a callee that receives obj and does so.
func zeroStoresOnAllPaths(c *Ctx, fn *ssa.Function, obj ssa.Value, field string, depth int) (bool, ssa.Instruction) {
	if fn == nil || len(fn.Blocks) == 0 || depth > 3 {
		return false, nil
	}
	isTarget := func(in ssa.Instruction) bool {
		switch x := in.(type) {
		case *ssa.Store:
			if fa, ok := x.Addr.(*ssa.FieldAddr); ok && isSameObject(fa.X, obj) && core.FieldName(fa) == field && isZeroConst(x.Val) {
				return true
			}
		case ssa.CallInstruction:
			g := x.Common().StaticCallee()
			if g == nil || g.Blocks == nil {
				return false
			}
			for i, a := range x.Common().Args {
				if isSameObject(a, obj) && i < len(g.Params) {
					if ok, _ := zeroStoresOnAllPaths(c, g, g.Params[i], field, depth+1); ok {
						return true
					}
				}
			}
		}
		return false
	}
	var bad ssa.Instruction
	seen := map[*ssa.BasicBlock]bool{}
	var walk func(b *ssa.BasicBlock)
	walk = func(b *ssa.BasicBlock) {
		if bad != nil || seen[b] {
			return
		}
		seen[b] = true
		for _, in := range b.Instrs {
			if isTarget(in) {
				return
			}
			if r, ok := in.(*ssa.Return); ok {
				if ei := core.ErrorResultIndex(fn); ei >= 0 && ei < len(r.Results) && core.ClassifyNil(r.Results[ei], r) == core.NonNil {
					return
				}
				bad = r
				return
			}
		}
		for _, s := range b.Succs {
			walk(s)
		}
	}
	walk(fn.Blocks[0])
	return bad == nil, bad
}

func ruleFix1(c *Ctx) {
	fix := c.Fn("lib/query.(*View).Fix")
	viewT := c.P.Type("lib/query", "View")
	if fix == nil || viewT == nil {
		return
	}
	st, _ := viewT.Underlying().(*types.Struct)
	if st == nil || len(fix.Params) == 0 {
		return
	}
	// fields that functions other than Fix (and its private helpers) store into
	helpers := privateHelpersOf(c.P, fix, 2)
	storedElsewhere := map[string]string{}
	for _, fn := range c.P.FuncsIn(false, "lib/query") {
		if fn == fix || helpers[fn] || (fn.Parent() != nil && (fn.Parent() == fix || helpers[fn.Parent()])) {
			continue
		}
		for _, b := range fn.Blocks {
			for _, in := range b.Instrs {
				s, ok := in.(*ssa.Store)
				if !ok {
					continue
				}
				fa, ok := s.Addr.(*ssa.FieldAddr)
				if !ok || core.NamedOf(fa.X.Type()) != "lib/query.View" {
					continue
				}
				if isZeroConst(s.Val) {
					continue
				}
				if _, seen := storedElsewhere[core.FieldName(fa)]; !seen {
					storedElsewhere[core.FieldName(fa)] = c.Pos(s)
				}
			}
		}
	}
	n := 0
	for i := 0; i < st.NumFields(); i++ {
		f := st.Field(i)
		if f.Exported() {
			continue
		}
		where, ok := storedElsewhere[f.Name()]
		if !ok {
			continue
		}
		n++
		key := c.KeyAt(fix, "resets "+f.Name())
		ok2, bad := zeroStoresOnAllPaths(c, fix, fix.Params[0], f.Name(), 0)
		if ok2 {
			c.Ok(key, c.FnPos(fix), "zero value stored on every success path (the field is set e.g. at "+where+")")
		} else {
			pos := c.FnPos(fix)
			if bad != nil {
				pos = c.Pos(bad)
			}
			c.Bad(key, pos, fmt.Sprintf("Fix can return successfully without resetting View.%s (set e.g. at %s): the enclosing query receives this view object and its own stages read the stale value (e.g. LIMIT … PERCENT adds a sub-query's OFFSET to its row count)", f.Name(), where))
		}
	}
	if n == 0 {
		c.Unknown(c.KeyAt(fix, "transient fields"), c.FnPos(fix), "cannot-analyse: no unexported field of View is stored outside Fix")
	}
}

// isSameObject: v is obj, or a load of a cell that only ever holds obj (a parameter captured by a closure is spilled).
func isSameObject(v, obj ssa.Value) bool {
	if v == obj {
		return true
	}
	os := core.Origins(v, false)
	if len(os) == 0 {
		return false
	}
	for _, o := range os {
		if o != obj {
			return false
		}
	}
	return true
}
