package rules

import (
	"fmt"
	"go/token"
	"go/types"
	"sort"
	"strings"

	"golang.org/x/tools/go/ssa"

	"verif/checker/core"
)

// R-CTX-1: the cancellation of a run reaches every step of it.
//
// An interrupt (SIGINT/SIGTERM/SIGQUIT) is delivered to csvq as the
// cancellation of one context created in lib/cli; "ends by an interrupt ⇒
// nothing of the transaction reaches the files" (C01) and "a signal at any
// moment leaves no control files" (C11) both rest on every loader, evaluator,
// encoder and the commit seeing that cancellation. The structural necessary
// condition decided here: a context handed to any call in csvq is the one the
// function was given — possibly decorated by the standard derivations that
// keep the parent's Done channel — and never a context that has lost it.

func init() {
	Register(&Rule{ID: "R-CTX-1", Props: []string{"C01", "C11"}, Floor: 190,
		Doc:      "cancellation is never detached: (a) no type declared in csvq implements context.Context (a wrapper could override Done/Err); (b) every argument of type context.Context passed at a call site of csvq originates — through phis, local cells, closures' captured variables and csvq functions that return a context — only from a context parameter of the enclosing function (or of the function a closure was made in), or from context.WithCancel / WithTimeout / WithDeadline / WithValue / their …Cause variants applied to such a context; context.Background() / TODO() are roots and allowed only in the functions listed with their reason (the CLI entry point and the context-free convenience methods of the stdin locker); context.WithoutCancel, a context loaded from a struct field or a global, and any other origin are reported. Decides that the cancellation signal is propagated, not that every loop polls it (R-CAN rules) nor what is done on cancellation",
		Controls: []string{"CtlDetachedContext", "CtlContextWrapper"},
		Run:      ruleCtx1})
}

// context roots: functions that may start from context.Background()
var ctxRootAllowed = map[string]string{
	"lib/cli.commandAction":                 "the one context of a run; cancelled by the signal watcher",
	"lib/query.(*StdinLocker).Lock":         "context-free convenience form of LockContext (library API; csvq itself calls the …Context forms)",
	"lib/query.(*StdinLocker).RLock":        "context-free convenience form of RLockContext",
	"lib/query.(*Session).SetStdin":         "context-free convenience form of SetStdinContext",
	"lib/zzverifpositive.okContextRootUser": "negative control",
}

var ctxKeepingDerivations = map[string]bool{
	"context.WithCancel": true, "context.WithCancelCause": true,
	"context.WithTimeout": true, "context.WithTimeoutCause": true,
	"context.WithDeadline": true, "context.WithDeadlineCause": true,
	"context.WithValue": true,
}

func isContextType(t types.Type) bool {
	n, ok := t.(*types.Named)
	if !ok {
		return false
	}
	o := n.Obj()
	return o != nil && o.Pkg() != nil && o.Pkg().Path() == "context" && o.Name() == "Context"
}

func ruleCtx1(c *Ctx) {
	// (a) implementations of context.Context declared in csvq
	var ctxIface *types.Interface
	for _, pk := range c.P.Pkgs {
		for _, imp := range pk.Types.Imports() {
			if imp.Path() == "context" {
				if o := imp.Scope().Lookup("Context"); o != nil {
					ctxIface, _ = o.Type().Underlying().(*types.Interface)
				}
			}
		}
	}
	if ctxIface == nil {
		c.Unknown("anchor: context.Context", "-", "cannot-analyse: no csvq package imports context")
		return
	}
	nTypes := 0
	var pkgs []string
	for path := range c.P.ByPath {
		pkgs = append(pkgs, path)
	}
	sort.Strings(pkgs)
	for _, path := range pkgs {
		pk := c.P.ByPath[path]
		if pk.Types == nil {
			continue
		}
		sc := pk.Types.Scope()
		for _, name := range sc.Names() {
			tn, ok := sc.Lookup(name).(*types.TypeName)
			if !ok || tn.IsAlias() {
				continue
			}
			if _, isIface := tn.Type().Underlying().(*types.Interface); isIface {
				continue
			}
			nTypes++
			if types.Implements(tn.Type(), ctxIface) || types.Implements(types.NewPointer(tn.Type()), ctxIface) {
				c.Bad("type "+core.Short(path)+"."+name+" implements context.Context", c.P.Pos(tn.Pos()),
					"a csvq type implements context.Context: it can answer Done()/Err() differently from the context of the run, so a step given this context does not see the interrupt — the transaction would be committed (or files left) although the run reports the signal")
			}
		}
	}
	c.Ok("no csvq type implements context.Context", "-", fmt.Sprintf("%d named types checked", nTypes))

	// (b) origins of every context argument
	retMemo := map[*ssa.Function]string{} // csvq functions returning a context: "" ok, else the reason
	var originBad func(fn *ssa.Function, v ssa.Value, seen map[ssa.Value]bool) string
	var returnsBad func(f *ssa.Function) string
	returnsBad = func(f *ssa.Function) string {
		if r, ok := retMemo[f]; ok {
			return r
		}
		retMemo[f] = "" // recursion: assume fine
		res := f.Signature.Results()
		for i := 0; i < res.Len(); i++ {
			if !isContextType(res.At(i).Type()) {
				continue
			}
			for _, r := range core.Returns(f) {
				if i < len(r.Results) {
					if why := originBad(f, r.Results[i], map[ssa.Value]bool{}); why != "" {
						retMemo[f] = "returned by " + c.P.FnRef(f) + ": " + why
						return retMemo[f]
					}
				}
			}
		}
		return ""
	}
	originBad = func(fn *ssa.Function, v ssa.Value, seen map[ssa.Value]bool) string {
		for _, o := range core.Origins(v, false) {
			if seen[o] {
				continue
			}
			seen[o] = true
			switch x := o.(type) {
			case *ssa.Parameter:
				if isContextType(x.Type()) {
					continue
				}
				return "parameter " + x.Name() + " of type " + x.Type().String() + " converted to a context"
			case *ssa.FreeVar:
				// a variable captured from the enclosing function: its stores were not all visible
				if isContextType(x.Type()) || isPtrToContext(x.Type()) {
					continue
				}
				return "captured variable " + x.Name() + " of type " + x.Type().String()
			case *ssa.Const:
				// a nil context is no context at all (signature filler for a callee that takes none into account; using
				// it fails at once, which is C19's concern) — it cannot detach a step silently
			case *ssa.Extract:
				call, ok := x.Tuple.(*ssa.Call)
				if !ok {
					return "tuple element of unknown origin"
				}
				if why := ctxCallOrigin(c, fn, call, seen, originBad, returnsBad); why != "" {
					return why
				}
			case *ssa.Call:
				if why := ctxCallOrigin(c, fn, x, seen, originBad, returnsBad); why != "" {
					return why
				}
			case *ssa.UnOp:
				if !isContextType(x.Type()) {
					return "a value of type " + x.Type().String() + " used as the context (a wrapper can answer Done / Err itself)"
				}
				if x.Op == token.MUL {
					if fv, ok := x.X.(*ssa.FreeVar); ok && isPtrToContext(fv.Type()) {
						continue // captured context variable whose stores are followed where it is declared
					}
					if al, ok := x.X.(*ssa.Alloc); ok {
						// a local cell with a store that could not be followed (address taken)
						return "local context variable " + al.Comment + " whose assignments cannot all be followed"
					}
					return "a context loaded from " + valuePathLabel(x.X) + " (stored state, not the context of this call)"
				}
				return fmt.Sprintf("%T", o)
			default:
				if !isContextType(o.Type()) {
					return "a value of type " + o.Type().String() + " used as the context"
				}
				return fmt.Sprintf("an origin that is not the function's own context (%T %s)", o, o.Name())
			}
		}
		return ""
	}

	sites := 0
	for _, fn := range c.P.SrcFuncs() {
		perFn := 0
		var firstPos string
		var bad []string
		var badPos string
		check := func(in ssa.Instruction, v ssa.Value, what string) {
			sites++
			perFn++
			if firstPos == "" {
				firstPos = c.Pos(in)
			}
			if why := originBad(fn, v, map[ssa.Value]bool{}); why != "" {
				bad = append(bad, what+": "+why)
				if badPos == "" {
					badPos = c.Pos(in)
				}
			}
		}
		for _, call := range core.Calls(fn) {
			com := call.Common()
			callee := c.P.CalleeName(call)
			if ctxKeepingDerivations[callee] {
				// the parent is judged when the derived context is used; an unused derivation is harmless
				continue
			}
			for i, a := range com.Args {
				if isContextType(a.Type()) {
					check(call, a, fmt.Sprintf("argument #%d of %s", i, ctxCalleeLabel(c, call)))
				}
			}
		}
		// contexts stored for later use (struct fields, globals) would escape this rule: report the store itself
		for _, b := range fn.Blocks {
			for _, in := range b.Instrs {
				if st, ok := in.(*ssa.Store); ok && isContextType(st.Val.Type()) {
					if _, local := st.Addr.(*ssa.Alloc); local {
						continue
					}
					if _, fv := st.Addr.(*ssa.FreeVar); fv {
						continue
					}
					check(in, st.Val, "context stored into "+valuePathLabel(st.Addr))
				}
			}
		}
		if perFn == 0 {
			continue
		}
		c.Touch(fn)
		key := c.KeyAt(fn, "contexts passed on are the function's own")
		if len(bad) > 0 {
			sort.Strings(bad)
			c.Bad(key, badPos, strings.Join(dedup(bad), "; ")+" — the callee (and everything below it) no longer sees the interrupt of the run: work continues, files are written or left behind after csvq has reported the signal")
		} else {
			c.Ok(key, firstPos, fmt.Sprintf("%d context argument(s) / store(s) derive from the function's context", perFn))
		}
	}
	c.Sites += sites
}

func isPtrToContext(t types.Type) bool {
	p, ok := t.(*types.Pointer)
	return ok && isContextType(p.Elem())
}

func ctxCalleeLabel(c *Ctx, call ssa.CallInstruction) string {
	if n := c.P.CalleeName(call); n != "" {
		return n
	}
	if call.Common().IsInvoke() {
		return "interface method " + call.Common().Method.Name()
	}
	return "a function value"
}

func ctxCallOrigin(c *Ctx, fn *ssa.Function, call *ssa.Call, seen map[ssa.Value]bool,
	originBad func(*ssa.Function, ssa.Value, map[ssa.Value]bool) string, returnsBad func(*ssa.Function) string) string {
	name := c.P.CalleeName(call)
	switch {
	case ctxKeepingDerivations[name]:
		return originBad(fn, call.Common().Args[0], seen)
	case name == "context.Background" || name == "context.TODO":
		host := fn
		for host.Parent() != nil {
			host = host.Parent()
		}
		if _, ok := ctxRootAllowed[c.P.Name(host)]; ok {
			return ""
		}
		return name + "() in " + c.P.Name(host) + ", which is not a listed root of a run (a fresh context is never cancelled)"
	case name == "context.WithoutCancel":
		return "context.WithoutCancel drops the cancellation of its parent"
	}
	if f := core.StaticCallee(call); f != nil && f.Blocks != nil && inModule(f) {
		// a csvq function returning a context: its returns must be fine w.r.t. its own parameters, and the
		// context parameters it is given here must be fine too
		if why := returnsBad(f); why != "" {
			return why
		}
		for _, a := range call.Common().Args {
			if isContextType(a.Type()) {
				if why := originBad(fn, a, seen); why != "" {
					return why
				}
			}
		}
		return ""
	}
	return "result of " + ctxCalleeLabel(c, call) + " (not a cancellation-keeping derivation)"
}
