package rules

import (
	"fmt"
	"go/types"
	"strings"

	"golang.org/x/tools/go/ssa"

	"verif/checker/core"
)

// R-FMT-16 — a result is refused as a whole.
//
// The encoders write while they convert: a cell the format cannot spell (a tab in an
// LTSV value, a value longer than its fixed-length field) is met after the rows before
// it were flushed. C02: "a cell the format cannot spell is refused with an error and
// nothing is written". Commit encodes into the handler's file (the temp file of an
// updated table, the file of a created table that the rollback removes): an error
// discards it. Every other destination (stdout, --out) keeps what it was given, so
// EncodeView may only be handed such a stream indirectly: it encodes into a buffer the
// calling function owns, and the function writes the buffer out once encoding succeeded.

func init() {
	Register(&Rule{ID: "R-FMT-16", Props: []string{"C02"}, Floor: 3,
		Doc:      "every call of EncodeView (lib/query, lib/action, lib/cli) encodes either into a table file obtained from (*file.Handler).FileForUpdate (discarded when the commit fails) or into a bytes.Buffer / strings.Builder allocated by the calling function (a writer parameter is followed to the argument of each static call site — one obligation per calling context —, and further through the arguments of the static callers, two levels) — never directly into a session stream (stdout, the --out file), which would keep the rows that were flushed before an encoder error",
		Controls: []string{"CtlEncodeStraightIntoOutFile"},
		Run:      ruleFmt16})
}

func fx16IsBuffer(t types.Type) bool {
	n := core.NamedOf(t)
	return n == "bytes.Buffer" || n == "strings.Builder"
}

func ruleFmt16(c *Ctx) {
	if c.Fn(fxEncodeView) == nil {
		return
	}
	// classify returns "" when every origin of the writer is a discardable destination.
	var classify func(fn *ssa.Function, w ssa.Value, depth int) (bad string, undecided string)
	classify = func(fn *ssa.Function, w ssa.Value, depth int) (string, string) {
		for _, o := range core.Origins(w, true) {
			switch x := o.(type) {
			case *ssa.Alloc:
				if fx16IsBuffer(x.Type()) {
					continue
				}
				return "the writer is " + valueLabel(o) + ", not a buffer", ""
			case *ssa.Parameter:
				if depth <= 0 {
					return "", "the writer is a parameter handed down more than two levels"
				}
				idx := -1
				for i, p := range fn.Params {
					if p == x {
						idx = i
					}
				}
				callers := c.P.RealCallers(fn)
				if idx < 0 || len(callers) == 0 {
					return "", "the writer is a parameter of " + c.P.Name(fn) + ", which has no caller in the program"
				}
				for _, e := range callers {
					if e.Site == nil || core.StaticCallee(e.Site) != fn || idx >= len(e.Site.Common().Args) {
						return "", "the writer is a parameter of " + c.P.Name(fn) + ", which is called dynamically"
					}
					if bad, und := classify(e.Caller.Func, e.Site.Common().Args[idx], depth-1); bad != "" || und != "" {
						return bad, und
					}
				}
				continue
			}
			if oc, _ := fxCallOf(o); oc != nil {
				name := c.P.CalleeName(oc)
				if name == "lib/file.(*Handler).FileForUpdate" || name == "bytes.NewBuffer" || name == "bytes.NewBufferString" {
					continue
				}
				return "the writer is the result of " + name, ""
			}
			return "the writer is " + valueLabel(o), ""
		}
		return "", ""
	}
	perFn := map[*ssa.Function]int{}
	for _, fn := range c.P.FuncsIn(true, "lib/query", "lib/action", "lib/cli") {
		if c.P.IsControl(fn) && !strings.HasPrefix(fn.Name(), "CtlEncodeStraight") && !strings.HasPrefix(fn.Name(), "okEncode") {
			continue // controls of other rules
		}
		for _, call := range c.P.CallsNamed(fn, fxEncodeView) {
			c.Sites++
			args := call.Common().Args
			if len(args) < 4 {
				continue
			}
			c.Touch(fn)
			// a writer that is a parameter of a private helper is decided by the callers: one
			// obligation per calling context, in the function that hands the destination over
			for _, ctx := range fxLift(c, args[1], fn, 2) {
				host := ctx.Fn
				c.Touch(host)
				perFn[host]++
				key := c.KeyAt(host, fmt.Sprintf("EncodeView #%d writes into a table file or a buffer of its own", perFn[host]))
				pos := c.Pos(ctx.At(call.(ssa.Instruction)))
				bad, und := classify(host, ctx.V, 2)
				switch {
				case bad != "":
					c.Bad(key, pos, bad+": the encoders flush while they convert, so when a later cell cannot be spelled in the format (or the run is cancelled) the stream keeps the rows written so far — a partial result in the --out file / on stdout, although the statement failed")
				case und != "":
					c.Unknown(key, pos, "cannot-analyse: "+und)
				default:
					c.Ok(key, pos, "the destination is discarded or never written when encoding fails (table file of the commit, or a local buffer written out afterwards)")
				}
			}
		}
	}
}

// fxBufferedWriters sees through the encode-then-write idiom (R-FMT-16): when the
// writer handed to EncodeView is a bytes.Buffer the function allocated, the streams the
// result reaches are the receivers of the writes, in the function and its closures,
// whose data is the Bytes() / String() of that buffer. It returns those receivers (the
// writer itself when it is not a local buffer, or when the buffer is written nowhere)
// and the flushing write calls.
func fxBufferedWriters(c *Ctx, fn *ssa.Function, w ssa.Value) (streams []ssa.Value, flushes map[ssa.CallInstruction]bool) {
	flushes = map[ssa.CallInstruction]bool{}
	bufs := map[ssa.Value]bool{}
	for _, o := range core.Origins(w, true) {
		a, ok := o.(*ssa.Alloc)
		if !ok || !fx16IsBuffer(a.Type()) {
			return []ssa.Value{w}, flushes
		}
		bufs[a] = true
	}
	root := fn
	for root.Parent() != nil {
		root = root.Parent()
	}
	for _, g := range fxWithClosures(root) {
		for _, call := range core.Calls(g) {
			recv, data, ok := fxFileWrite(c, call)
			if !ok {
				continue
			}
			for _, d := range core.Origins(fxStripConv(data), true) {
				dc, _ := fxCallOf(d)
				if dc == nil || len(dc.Common().Args) == 0 {
					continue
				}
				switch c.P.CalleeName(dc) {
				case "(*bytes.Buffer).Bytes", "(*bytes.Buffer).String", "(*strings.Builder).String":
				default:
					continue
				}
				for _, b := range core.Origins(dc.Common().Args[0], true) {
					if bufs[b] {
						streams = append(streams, recv)
						flushes[call] = true
					}
				}
			}
		}
	}
	if len(streams) == 0 {
		return []ssa.Value{w}, flushes
	}
	return streams, flushes
}
