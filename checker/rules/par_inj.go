package rules

import (
	"go/constant"
	"go/token"
	"go/types"

	"golang.org/x/tools/go/ssa"

	"verif/checker/core"
)

// Engine E5, index injectivity. A slot write `xs[e]` of a concurrent region is
// separated from the same write of another task only if e cannot take the same
// value in two tasks. Data dependence on the task index (parScope.depends) is
// not enough: `bits[rIdx>>6]`, `buf[thIdx%2]`, `out[i/8]`, `m[i&mask]` depend on
// the index and still send neighbouring tasks to one slot. injective decides
// the part of the question that is in the shape of e:
//
//	many-to-one  the dependence on the task index passes through >>, /, %, &, |,
//	             ^, &^, a multiplication by the constant 0, a narrowing or
//	             non-integer conversion, min / max, the difference of two
//	             task-dependent values (i - start: the offset inside the task's
//	             own share), or idx*k + j where 0 ≤ j < k is not shown;
//	one-to-one   the task / record index itself, ±it plus or minus a
//	             task-independent offset (idx+c, start+i, base-idx), a loop
//	             counter that starts at such a value, idx*k and idx<<c alone,
//	             idx*k + j with a constant 0 ≤ j < k, with an offset that is the
//	             same in every task (no loop-carried part), or with a counter j
//	             that starts at a non-negative constant, counts up and is tested
//	             `j < k` against the very factor (the same value, or the same
//	             call of a side-effect free getter on the same operands) on
//	             every path to the access.
//
// Still assumed (as before): a value that a function hands out per task
// (RecordRange — R-PAR-5 decides that those ranges tile the input), an element
// or key of a per-task collection (the record numbers of a partition) and a φ of
// task-dependent and common values are taken to differ between tasks.
type injKind int

const (
	injIndep  injKind = iota // no dependence on the task index
	injOne                   // one-to-one image
	injScaled                // idx*factor, not yet offset
	injSelf                  // the loop-carried value under classification
	injMany                  // many-to-one (or not shown to be one-to-one)
)

type injForm struct {
	kind   injKind
	factor ssa.Value // injScaled: the factor (nil: unknown but ≥ 1 in absolute value)
}

func (s *parScope) injective(v ssa.Value) bool {
	f := s.form(v, 0)
	switch f.kind {
	case injOne:
		return true
	case injScaled:
		return s.factorPositive(f.factor)
	}
	return false
}

// factorPositive: a scaled index without offset is one-to-one when the factor is a non-zero constant.
// factorPositive: a scaled index without offset is one-to-one unless the factor is the constant 0.
func (s *parScope) factorPositive(f ssa.Value) bool {
	if f == nil {
		return true
	}
	if k, ok := core.ConstInt(f); ok {
		return k != 0
	}
	return true
}

// dependsRoot: task dependence of v decided with a memo of its own (the shared
// memo caches "no" for members of a cycle that were visited while the cycle's
// head was still in progress: i+1 of `for i := start; …; i++`).
func (s *parScope) dependsRoot(v ssa.Value) bool {
	saved := s.dep
	s.dep = map[ssa.Value]int{}
	r := s.depends(v)
	s.dep = saved
	return r
}

func (s *parScope) form(v ssa.Value, d int) injForm {
	if s.many[v] {
		return injForm{kind: injMany}
	}
	if s.task[v] {
		return injForm{kind: injOne}
	}
	if _, ok := v.(*ssa.Const); ok {
		return injForm{kind: injIndep}
	}
	if !s.dependsRoot(v) {
		return injForm{kind: injIndep}
	}
	if s.inj == nil {
		s.inj = map[ssa.Value]injForm{}
		s.injBusy = map[ssa.Value]bool{}
	}
	if f, ok := s.inj[v]; ok {
		return f
	}
	if s.injBusy[v] {
		return injForm{kind: injSelf}
	}
	if d > 40 {
		return injForm{kind: injMany}
	}
	s.injBusy[v] = true
	f := s.form1(v, d+1)
	delete(s.injBusy, v)
	if f.kind != injSelf {
		// a value classified while one of its inputs was still in progress is
		// only cached when that did not matter
		s.inj[v] = f
	}
	return f
}

// merge of alternative values (φ edges, the stores into a local cell).
func (s *parScope) mergeForms(vals []ssa.Value, d int) injForm {
	one, indep := 0, 0
	var scaled *injForm
	for _, e := range vals {
		f := s.form(e, d)
		switch f.kind {
		case injSelf:
		case injMany:
			return f
		case injIndep:
			indep++
		case injOne:
			one++
		case injScaled:
			ff := f
			scaled = &ff
			one++
		}
	}
	switch {
	case one == 0 && indep == 0:
		return injForm{kind: injSelf}
	case one == 0:
		return injForm{kind: injIndep}
	case scaled != nil && one == 1:
		// a counter that starts at idx*k: the offset it gathers is not bounded here
		if len(vals) == 1 {
			return *scaled
		}
		return injForm{kind: injOne}
	}
	return injForm{kind: injOne}
}

func (s *parScope) form1(v ssa.Value, d int) injForm {
	many := injForm{kind: injMany}
	assumed := injForm{kind: injOne} // dependent, and nothing in the shape of v folds two tasks together
	switch x := v.(type) {
	case *ssa.Phi:
		return s.mergeForms(x.Edges, d)
	case *ssa.ChangeType:
		return s.form(x.X, d)
	case *ssa.Convert:
		f := s.form(x.X, d)
		if f.kind == injIndep {
			return f
		}
		if !isIntType(x.Type()) || !isIntType(x.X.Type()) || intBits(x.Type()) < intBits(x.X.Type()) {
			return many
		}
		return f
	case *ssa.UnOp:
		switch x.Op {
		case token.SUB, token.XOR:
			f := s.form(x.X, d)
			if f.kind == injSelf {
				return many
			}
			return f
		case token.MUL:
			if fv, ok := x.X.(*ssa.FreeVar); ok && s.many[fv] {
				return many
			}
			if al, ok := x.X.(*ssa.Alloc); ok && al.Parent() == s.fn {
				if vals, complete := core.StoresTo(al); complete && len(vals) > 0 {
					return s.mergeForms(vals, d)
				}
			}
		}
		return assumed
	case *ssa.Extract:
		if _, isCall := x.Tuple.(*ssa.Call); isCall {
			return s.form(x.Tuple, d)
		}
		return assumed
	case *ssa.Call:
		if bi, ok := x.Common().Value.(*ssa.Builtin); ok && (bi.Name() == "min" || bi.Name() == "max") {
			return many
		}
		// a value handed out per task (RecordRange: R-PAR-5 decides that the ranges tile)
		for _, a := range x.Common().Args {
			if isIntType(a.Type()) && s.form(a, d).kind == injMany {
				return many
			}
		}
		return assumed
	case *ssa.BinOp:
		fx, fy := s.form(x.X, d), s.form(x.Y, d)
		if fx.kind == injMany || fy.kind == injMany {
			return many
		}
		dep := func(f injForm) bool { return f.kind == injOne || f.kind == injScaled }
		switch x.Op {
		case token.ADD:
			if fx.kind == injIndep {
				return s.addForm(x, fy, x.X, false)
			}
			if fy.kind == injIndep {
				return s.addForm(x, fx, x.Y, false)
			}
			if dep(fx) && dep(fy) {
				return assumed
			}
		case token.SUB:
			if fy.kind == injIndep {
				return s.addForm(x, fx, x.Y, true)
			}
			if fx.kind == injIndep {
				// base - idx
				switch fy.kind {
				case injOne:
					return fy
				case injScaled:
					if s.sameInEveryTask(x.X, 0) {
						return injForm{kind: injOne}
					}
				}
			}
			// i - start: the offset inside the task's own share
		case token.MUL:
			if fx.kind == injIndep {
				return s.mulForm(fy, x.X)
			}
			if fy.kind == injIndep {
				return s.mulForm(fx, x.Y)
			}
			if dep(fx) && dep(fy) {
				return assumed
			}
		case token.SHL:
			if fy.kind == injIndep && fx.kind == injOne {
				if c, ok := x.Y.(*ssa.Const); ok && c.Value != nil {
					if k, ok := constant.Uint64Val(constant.ToInt(c.Value)); ok && k < 62 {
						return injForm{kind: injScaled, factor: ssa.NewConst(constant.MakeInt64(1<<k), types.Typ[types.Int])}
					}
				}
			}
		}
		return many
	}
	return assumed
}

// addForm: base ± off, off task-independent.
func (s *parScope) addForm(at *ssa.BinOp, base injForm, off ssa.Value, minus bool) injForm {
	switch base.kind {
	case injSelf, injOne:
		return base
	case injScaled:
		// idx*k ± off: one-to-one if off is the same in every task, or 0 ≤ off < k
		if s.sameInEveryTask(off, 0) {
			return injForm{kind: injOne}
		}
		if !minus && base.factor != nil && s.boundedBy(at, off, base.factor) {
			return injForm{kind: injOne}
		}
	}
	return injForm{kind: injMany}
}

func (s *parScope) mulForm(base injForm, factor ssa.Value) injForm {
	if base.kind != injOne {
		return injForm{kind: injMany}
	}
	if k, ok := core.ConstInt(factor); ok && k == 0 {
		return injForm{kind: injMany}
	}
	return injForm{kind: injScaled, factor: factor}
}

// sameInEveryTask: a task-independent value without a loop-carried or computed
// part — a constant, a parameter or captured variable of the region, sums and
// products of those.
func (s *parScope) sameInEveryTask(v ssa.Value, d int) bool {
	if d > 6 {
		return false
	}
	switch x := v.(type) {
	case *ssa.Const, *ssa.Parameter:
		return true
	case *ssa.BinOp:
		return s.sameInEveryTask(x.X, d+1) && s.sameInEveryTask(x.Y, d+1)
	case *ssa.Convert:
		return s.sameInEveryTask(x.X, d+1)
	case *ssa.UnOp:
		if x.Op == token.MUL {
			_, isFV := x.X.(*ssa.FreeVar)
			return isFV
		}
		return s.sameInEveryTask(x.X, d+1)
	}
	return false
}

// sameValue: two SSA values that are equal whenever both are computed: the same
// value, equal constants, loads of the same address, or calls of the same
// side-effect free getter on the same operands (joinView.RecordLen() twice).
func sameValue(a, b ssa.Value, d int) bool {
	if a == b {
		return true
	}
	if d > 4 {
		return false
	}
	if ca, ok := core.ConstInt(a); ok {
		cb, ok2 := core.ConstInt(b)
		return ok2 && ca == cb
	}
	switch x := a.(type) {
	case *ssa.UnOp:
		y, ok := b.(*ssa.UnOp)
		return ok && x.Op == y.Op && sameValue(x.X, y.X, d+1)
	case *ssa.FieldAddr:
		y, ok := b.(*ssa.FieldAddr)
		return ok && x.Field == y.Field && sameValue(x.X, y.X, d+1)
	case *ssa.Field:
		y, ok := b.(*ssa.Field)
		return ok && x.Field == y.Field && sameValue(x.X, y.X, d+1)
	case *ssa.Convert:
		y, ok := b.(*ssa.Convert)
		return ok && types.Identical(x.Type(), y.Type()) && sameValue(x.X, y.X, d+1)
	case *ssa.Call:
		y, ok := b.(*ssa.Call)
		if !ok || len(x.Call.Args) != len(y.Call.Args) {
			return false
		}
		if bx, ok := x.Call.Value.(*ssa.Builtin); ok {
			by, ok2 := y.Call.Value.(*ssa.Builtin)
			if !ok2 || bx.Name() != by.Name() || (bx.Name() != "len" && bx.Name() != "cap") {
				return false
			}
		} else {
			fx, fy := x.Call.StaticCallee(), y.Call.StaticCallee()
			if fx == nil || fx != fy || !sideEffectFreeGetter(fx) {
				return false
			}
		}
		for i := range x.Call.Args {
			if !sameValue(x.Call.Args[i], y.Call.Args[i], d+1) {
				return false
			}
		}
		return true
	}
	return false
}

// sideEffectFreeGetter: the body only reads: no store, map update, send, go,
// defer, and no call other than len / cap and other such getters.
func sideEffectFreeGetter(f *ssa.Function) bool { return getterD(f, 0) }

func getterD(f *ssa.Function, d int) bool {
	if f == nil || f.Blocks == nil || d > 3 {
		return false
	}
	for _, b := range f.Blocks {
		for _, in := range b.Instrs {
			switch x := in.(type) {
			case *ssa.Store, *ssa.MapUpdate, *ssa.Send, *ssa.Go, *ssa.Defer, *ssa.Select, *ssa.Panic:
				return false
			case *ssa.Call:
				if bi, ok := x.Call.Value.(*ssa.Builtin); ok {
					if bi.Name() != "len" && bi.Name() != "cap" {
						return false
					}
				} else if !getterD(x.Call.StaticCallee(), d+1) {
					return false
				}
			}
		}
	}
	return true
}

// boundedBy: 0 ≤ j < k holds where `at` is computed — j and k constants, or
// a dominating test `j < k` / `k > j` against the factor (sameValue), j being a
// counter that starts at a non-negative constant and only counts up.
func (s *parScope) boundedBy(at *ssa.BinOp, j, k ssa.Value) bool {
	if !nonNegativeCounter(j, 0, map[ssa.Value]bool{}) {
		return false
	}
	if cj, ok := core.ConstInt(j); ok {
		ck, ok2 := core.ConstInt(k)
		return ok2 && (cj < ck || cj < -ck)
	}
	sameVal := func(a, b ssa.Value) bool { return sameValue(a, b, 0) }
	for _, f := range core.FactsAt(at.Block()) {
		b, ok := f.Cond.(*ssa.BinOp)
		if !ok {
			continue
		}
		op := b.Op
		if f.Neg {
			switch op {
			case token.GEQ:
				op = token.LSS
			case token.LEQ:
				op = token.GTR
			default:
				continue
			}
		}
		if op == token.LSS && sameVal(b.X, j) && sameVal(b.Y, k) {
			return true
		}
		if op == token.GTR && sameVal(b.Y, j) && sameVal(b.X, k) {
			return true
		}
	}
	return false
}

func nonNegativeCounter(v ssa.Value, d int, seen map[ssa.Value]bool) bool {
	if d > 8 {
		return false
	}
	if seen[v] {
		return true
	}
	seen[v] = true
	switch x := v.(type) {
	case *ssa.Const:
		k, ok := core.ConstInt(x)
		return ok && k >= 0
	case *ssa.Phi:
		for _, e := range x.Edges {
			if !nonNegativeCounter(e, d+1, seen) {
				return false
			}
		}
		return true
	case *ssa.BinOp:
		if x.Op == token.ADD {
			return nonNegativeCounter(x.X, d+1, seen) && nonNegativeCounter(x.Y, d+1, seen)
		}
	case *ssa.Extract:
		// the key of a range over a slice / string / integer
		if nx, ok := x.Tuple.(*ssa.Next); ok && x.Index == 1 {
			_ = nx
			return true
		}
	}
	return false
}

func intBits(t types.Type) int {
	b, ok := t.Underlying().(*types.Basic)
	if !ok {
		return 0
	}
	switch b.Kind() {
	case types.Int8, types.Uint8:
		return 8
	case types.Int16, types.Uint16:
		return 16
	case types.Int32, types.Uint32:
		return 32
	}
	return 64
}
