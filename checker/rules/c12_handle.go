package rules

import (
	"fmt"
	"go/token"
	"go/types"
	"sort"
	"strings"

	"golang.org/x/tools/go/ssa"

	"verif/checker/core"
)

// R-PAR-17 — a file handle of the transaction is used inside the critical section
// that took it.
//
// Transaction.viewLoadingMutex does not only protect the shared maps (R-PAR-6). It
// also serialises the USE of the files: Transaction.FileContainer is a plain map with
// one handler per path (a second goroutine that registers the same path gets "file …
// already opened"), and when the transaction holds a file for update every reference
// shares that handler's single *os.File (concurrent Seek(0)/Read interleave). The
// loaders that can run on worker goroutines (Evaluate → sub-query / inline table →
// loadView) therefore take the handler, position the file, parse it and close the
// handler in ONE critical section; loaders that parse private data (a string taken from
// the URL cache) may leave it earlier. Added after seeded change C12-14 (DESIGN §8):
// loadInlineObjectFromFile held the mutex only while the handler was registered and
// again while it was closed, and parsed in between.

func init() {
	Register(&Rule{ID: "R-PAR-17", Props: []string{"C12", "C13"}, Floor: 20,
		Doc:      "a file handle of the transaction is used inside the critical section that took it. In every function that a concurrent region reaches by static calls and closures without passing the statement interpreter: (a) each call of a method of lib/file.Container (the transaction's handler table: a plain map) happens with Transaction.viewLoadingMutex held; (b) each use of a handler or of a handler's *os.File — a call that receives, as receiver or argument, a value that comes from Container.CreateHandler*, from (*file.Handler).File / FileForUpdate, from a csvq function that returns such a value (fixpoint over results, struct fields and captured variables), e.g. Seek, the reader constructor, the parser — happens with the mutex held; (c) the critical section does not end while the handle is live: no explicit Unlock is reachable from the registration of a read handler before its Close, and a function that takes the mutex itself does not return a handle, a file or a closure that captured one. 'Held' = a Lock of the mutex dominates the place and no Unlock lies between (a deferred call is under the lock only if the Unlock was deferred before it and there is no explicit Unlock), or every static call site — and, for a returned closure, every place that calls the returned value — in a region-reachable caller holds it, recursively. Functions that no region reaches (COMMIT / ROLLBACK, CREATE TABLE, SOURCE) are listed as statement-level",
		Controls: []string{"CtlPar17ParsesOutsideLock", "CtlPar17HelperReturnsHandle", "CtlPar17RegistersUnlocked", "CtlPar17UnlockBeforeClose", "CtlPar17CloseAfterDeferredUnlock"},
		Run:      rulePar17})
}

const par17MutexField = "viewLoadingMutex"

// par17IsMutex: v is (a load of) the field viewLoadingMutex of Transaction, or of a
// mimic type of the control package (the real field is unexported).
func par17IsMutex(v ssa.Value) bool {
	for i := 0; i < 6; i++ {
		switch x := v.(type) {
		case *ssa.UnOp:
			v = x.X
		case *ssa.FieldAddr:
			return par17MutexOwner(x)
		case *ssa.Field:
			return par17MutexOwner(x)
		default:
			return false
		}
	}
	return false
}

func par17MutexOwner(f ssa.Value) bool {
	if core.FieldName(f) != par17MutexField {
		return false
	}
	owner := core.FieldOwner(f)
	return owner == "lib/query.Transaction."+par17MutexField || strings.HasPrefix(owner, core.ControlPkg+".")
}

type par17Event struct {
	in       ssa.Instruction
	unlock   bool
	deferred bool
}

type par17Site struct {
	caller *ssa.Function
	in     ssa.Instruction
}

type par17 struct {
	c        *Ctx
	p        *core.Prog
	scope    []*ssa.Function        // functions looked at
	inRegion map[*ssa.Function]bool // reached by a concurrent region (or a control)
	acquire  map[*ssa.Function]bool // wrappers whose whole effect is to lock the mutex
	release  map[*ssa.Function]bool // … to unlock it
	events   map[*ssa.Function][]par17Event
	sites    map[*ssa.Function][]par17Site
	retTaint map[*ssa.Function]map[int]bool // result index → may be a handle / file / closure over one
	memo     map[*ssa.Function]int
}

func (a *par17) mutexOp(call ssa.CallInstruction) (isOp, unlock bool) {
	n := a.p.CalleeName(call)
	lock := n == "(*sync.Mutex).Lock" || n == "(*sync.RWMutex).Lock" || n == "(*sync.RWMutex).RLock"
	unl := n == "(*sync.Mutex).Unlock" || n == "(*sync.RWMutex).Unlock" || n == "(*sync.RWMutex).RUnlock"
	if (lock || unl) && len(call.Common().Args) > 0 && par17IsMutex(call.Common().Args[0]) {
		return true, unl
	}
	if g := call.Common().StaticCallee(); g != nil {
		if a.acquire[g] {
			return true, false
		}
		if a.release[g] {
			return true, true
		}
	}
	return false, false
}

// findWrappers: functions whose only operation on the mutex is one Lock (one Unlock).
func (a *par17) findWrappers() {
	for _, fn := range a.scope {
		if fn.Parent() != nil {
			continue
		}
		locks, unlocks := 0, 0
		for _, call := range core.Calls(fn) {
			if is, unl := a.mutexOp(call); is {
				if unl {
					unlocks++
				} else {
					locks++
				}
			}
		}
		for _, af := range fn.AnonFuncs {
			for _, call := range core.Calls(af) {
				if is, _ := a.mutexOp(call); is {
					locks, unlocks = 2, 2
				}
			}
		}
		if locks == 1 && unlocks == 0 {
			a.acquire[fn] = true
		}
		if unlocks == 1 && locks == 0 {
			a.release[fn] = true
		}
	}
}

func (a *par17) eventsOf(fn *ssa.Function) []par17Event {
	if ev, ok := a.events[fn]; ok {
		return ev
	}
	var ev []par17Event
	for _, call := range core.Calls(fn) {
		_, isDefer := call.(*ssa.Defer)
		if is, unl := a.mutexOp(call); is {
			ev = append(ev, par17Event{call.(ssa.Instruction), unl, isDefer})
			continue
		}
		if isDefer {
			// a deferred closure that unlocks
			if g := call.Common().StaticCallee(); g != nil && g.Parent() != nil {
				for _, cc := range core.Calls(g) {
					if is, unl := a.mutexOp(cc); is && unl {
						ev = append(ev, par17Event{call.(ssa.Instruction), true, true})
						break
					}
				}
			}
		}
	}
	a.events[fn] = ev
	return ev
}

// ownLock: fn itself takes the mutex.
func (a *par17) ownLock(fn *ssa.Function) bool {
	for _, e := range a.eventsOf(fn) {
		if !e.unlock && !e.deferred {
			return true
		}
	}
	return false
}

// heldHere: the mutex is held at `at` by a Lock of the same function.
func (a *par17) heldHere(fn *ssa.Function, at ssa.Instruction) bool {
	evs := a.eventsOf(fn)
	_, atIsDefer := at.(*ssa.Defer)
	for _, l := range evs {
		if l.unlock || l.deferred || !core.Dominates(l.in, at) {
			continue
		}
		ok := true
		for _, u := range evs {
			if !u.unlock {
				continue
			}
			if atIsDefer {
				// the deferred call runs at the exits: under the lock only if no explicit Unlock can
				// follow the Lock and no Unlock is deferred after it (deferred calls run last-in first-out)
				if !u.deferred && core.Reachable(l.in, u.in, nil) {
					ok = false
				}
				if u.deferred && u.in != at && core.Reachable(at, u.in, nil) {
					ok = false
				}
				continue
			}
			if u.deferred {
				continue
			}
			if core.Reachable(l.in, u.in, nil) && (u.in == at || core.Reachable(u.in, at, func(in ssa.Instruction) bool { return in == l.in })) {
				ok = false
			}
		}
		if ok {
			return true
		}
	}
	return false
}

// held: at `at` the mutex is held by fn, or by every region-reachable caller chain.
func (a *par17) held(fn *ssa.Function, at ssa.Instruction) (bool, string) {
	if a.heldHere(fn, at) {
		return true, "viewLoadingMutex is held here"
	}
	ok, why := a.heldByCallers(fn, 0)
	if ok {
		return true, "every call site of " + a.p.Name(fn) + " in code that concurrent regions reach holds viewLoadingMutex"
	}
	return false, why
}

func (a *par17) heldByCallers(fn *ssa.Function, depth int) (bool, string) {
	switch a.memo[fn] {
	case 1:
		return true, ""
	case 2:
		return false, a.p.Name(fn) + " is not always called under the lock"
	case 3:
		return true, "" // recursion: decided by the other call sites
	}
	if depth > 6 {
		return false, "call chain too deep"
	}
	a.memo[fn] = 3
	n := 0
	for _, s := range a.sites[fn] {
		if !a.inRegion[s.caller] {
			continue // statement-level caller
		}
		n++
		if _, isGo := s.in.(*ssa.Go); isGo {
			a.memo[fn] = 2
			return false, "started as a goroutine at " + a.c.Pos(s.in)
		}
		if a.heldHere(s.caller, s.in) {
			continue
		}
		if ok, _ := a.heldByCallers(s.caller, depth+1); !ok {
			a.memo[fn] = 2
			return false, "called from " + a.p.Name(s.caller) + " at " + a.c.Pos(s.in) + " without the lock"
		}
	}
	if n == 0 {
		a.memo[fn] = 2
		return false, "no call site holds the lock"
	}
	a.memo[fn] = 1
	return true, ""
}

// ---------------------------------------------------------------------------
// handle values

func par17IsHandleType(t types.Type) bool {
	switch core.NamedOf(t) {
	case "os.File", "lib/file.Handler":
		_, isPtr := t.(*types.Pointer)
		return isPtr
	}
	return false
}

func (a *par17) isAcquisition(call ssa.CallInstruction) (kind string) {
	n := a.p.CalleeName(call)
	switch {
	case strings.HasPrefix(n, "lib/file.(*Container).CreateHandler"):
		return "handler"
	case n == "lib/file.(*Handler).File" || n == "lib/file.(*Handler).FileForUpdate":
		return "file"
	}
	return ""
}

// tainted: v may be a handler taken from the container, a handler's file, an aggregate
// holding one, or a closure that captured one.
func (a *par17) tainted(v ssa.Value, seen map[ssa.Value]bool) bool {
	if v == nil || seen[v] {
		return false
	}
	seen[v] = true
	for _, o := range core.Origins(v, false) {
		switch x := o.(type) {
		case *ssa.Call:
			if a.isAcquisition(x) != "" {
				return true
			}
			if g := core.StaticCallee(x); g != nil && a.retTaint[g][0] && x.Type() != nil {
				if _, isTuple := x.Type().(*types.Tuple); !isTuple {
					return true
				}
			}
		case *ssa.Extract:
			if call, ok := x.Tuple.(*ssa.Call); ok {
				if a.isAcquisition(call) != "" && x.Index == 0 {
					return true
				}
				if g := core.StaticCallee(call); g != nil && a.retTaint[g][x.Index] {
					return true
				}
			}
		case *ssa.MakeClosure:
			for _, b := range x.Bindings {
				if a.taintedCell(b, seen) {
					return true
				}
			}
		case *ssa.Alloc:
			// an aggregate under construction: a handle was stored into one of its fields
			if a.taintedAggregate(x, seen) {
				return true
			}
		case *ssa.Field:
			if a.tainted(x.X, seen) {
				return true
			}
		case *ssa.UnOp:
			if x.Op != token.MUL {
				continue
			}
			switch y := x.X.(type) {
			case *ssa.FieldAddr:
				// a field of a tainted aggregate (a result struct of a helper)
				if a.tainted(y.X, seen) {
					return true
				}
			case *ssa.Alloc:
				if a.taintedCell(y, seen) || a.taintedAggregate(y, seen) {
					return true
				}
			case *ssa.FreeVar:
				if a.taintedCell(y, seen) {
					return true
				}
			}
		}
	}
	return false
}

// taintedCell: a tainted value is stored into the local variable cell (also from closures).
func (a *par17) taintedCell(cell ssa.Value, seen map[ssa.Value]bool) bool {
	switch cell.(type) {
	case *ssa.Alloc, *ssa.FreeVar:
	default:
		return a.tainted(cell, seen)
	}
	vals, _ := core.StoresTo(cell)
	for _, s := range vals {
		if a.tainted(s, seen) {
			return true
		}
	}
	return false
}

func (a *par17) taintedAggregate(al *ssa.Alloc, seen map[ssa.Value]bool) bool {
	refs := al.Referrers()
	if refs == nil {
		return false
	}
	for _, r := range *refs {
		fa, ok := r.(*ssa.FieldAddr)
		if !ok || fa.Referrers() == nil {
			continue
		}
		for _, rr := range *fa.Referrers() {
			if st, ok := rr.(*ssa.Store); ok && st.Addr == ssa.Value(fa) && a.tainted(st.Val, seen) {
				return true
			}
		}
	}
	return false
}

// closuresOf: the anonymous functions a value may be (a MakeClosure, or a result of a
// helper that returns one).
func (a *par17) closuresOf(v ssa.Value, depth int) []*ssa.Function {
	var out []*ssa.Function
	if depth > 3 {
		return nil
	}
	for _, o := range core.Origins(v, false) {
		switch x := o.(type) {
		case *ssa.MakeClosure:
			if f, ok := x.Fn.(*ssa.Function); ok {
				out = append(out, f)
			}
		case *ssa.Function:
			out = append(out, x)
		case *ssa.Call:
			if g := core.StaticCallee(x); g != nil && g.Blocks != nil {
				for _, rv := range core.ReturnedValues(g, 0) {
					out = append(out, a.closuresOf(rv, depth+1)...)
				}
			}
		case *ssa.Extract:
			if call, ok := x.Tuple.(*ssa.Call); ok {
				if g := core.StaticCallee(call); g != nil && g.Blocks != nil {
					for _, rv := range core.ReturnedValues(g, x.Index) {
						out = append(out, a.closuresOf(rv, depth+1)...)
					}
				}
			}
		}
	}
	return out
}

func par17Short(n string) string {
	n = strings.TrimPrefix(n, "lib/file.")
	n = strings.TrimPrefix(n, "lib/query.")
	return n
}

func rulePar17(c *Ctx) {
	p := c.P
	start := len(c.Obs)
	a := &par17{c: c, p: p, inRegion: map[*ssa.Function]bool{}, acquire: map[*ssa.Function]bool{}, release: map[*ssa.Function]bool{},
		events: map[*ssa.Function][]par17Event{}, sites: map[*ssa.Function][]par17Site{}, retTaint: map[*ssa.Function]map[int]bool{}, memo: map[*ssa.Function]int{}}
	stmt := c.Fn(txnExecStmt)
	if stmt == nil {
		return
	}
	if pk := p.ByPath["lib/query"]; pk == nil || func() bool {
		tx, _ := p.Type("lib/query", "Transaction").(*types.Named)
		if tx == nil {
			return true
		}
		st, _ := tx.Underlying().(*types.Struct)
		for i := 0; st != nil && i < st.NumFields(); i++ {
			if st.Field(i).Name() == par17MutexField {
				return false
			}
		}
		return true
	}() {
		c.Unknown("anchor:lib/query.Transaction."+par17MutexField, "-", "cannot-analyse: the view-loading mutex is no longer a field of Transaction")
		return
	}
	for _, fn := range p.FuncsIn(false, "lib/query", "lib/action", "lib/cli") {
		a.scope = append(a.scope, fn)
	}
	for _, fn := range txnCtl(c, "Par17") {
		a.scope = append(a.scope, fn)
		a.inRegion[fn] = true
	}
	a.findWrappers()

	// what the concurrent regions reach without passing the statement interpreter
	e := parAnalysis(p)
	nRegions := 0
	var queue []*ssa.Function
	for _, fam := range e.families {
		for _, r := range fam.regions {
			nRegions++
			if !a.inRegion[r.fn] {
				a.inRegion[r.fn] = true
				queue = append(queue, r.fn)
			}
		}
	}
	if nRegions == 0 {
		c.Unknown("concurrent regions", "-", "cannot-analyse: no concurrent region found")
		return
	}
	for len(queue) > 0 {
		f := queue[0]
		queue = queue[1:]
		if f == stmt || f.Blocks == nil {
			continue
		}
		add := func(g *ssa.Function) {
			if g != nil && !a.inRegion[g] {
				a.inRegion[g] = true
				queue = append(queue, g)
			}
		}
		for _, call := range core.Calls(f) {
			add(call.Common().StaticCallee())
		}
		for _, af := range f.AnonFuncs {
			add(af)
		}
	}
	delete(a.inRegion, stmt)

	// results that carry a handle (fixpoint)
	for round := 0; round < 6; round++ {
		changed := false
		for _, fn := range a.scope {
			for _, r := range core.Returns(fn) {
				for i, res := range r.Results {
					if a.retTaint[fn][i] {
						continue
					}
					if a.tainted(res, map[ssa.Value]bool{}) {
						if a.retTaint[fn] == nil {
							a.retTaint[fn] = map[int]bool{}
						}
						a.retTaint[fn][i] = true
						changed = true
					}
				}
			}
		}
		if !changed {
			break
		}
	}

	// call sites: static ones, and the places that call a closure a helper returned
	for _, fn := range a.scope {
		for _, call := range core.Calls(fn) {
			in := call.(ssa.Instruction)
			if g := call.Common().StaticCallee(); g != nil {
				a.sites[g] = append(a.sites[g], par17Site{fn, in})
				continue
			}
			if call.Common().IsInvoke() {
				continue
			}
			for _, g := range a.closuresOf(call.Common().Value, 0) {
				a.sites[g] = append(a.sites[g], par17Site{fn, in})
			}
		}
	}

	// … and the places that call a function-typed parameter, for the closures handed in at the
	// static call sites of that function (`withLock(tx, func() { … })`)
	for _, fn := range a.scope {
		for _, call := range core.Calls(fn) {
			if call.Common().StaticCallee() != nil || call.Common().IsInvoke() {
				continue
			}
			for _, o := range core.Origins(call.Common().Value, false) {
				pa, ok := o.(*ssa.Parameter)
				if !ok {
					continue
				}
				owner := pa.Parent()
				idx := -1
				for i, x := range owner.Params {
					if x == pa {
						idx = i
					}
				}
				if idx < 0 {
					continue
				}
				for _, s := range a.sites[owner] {
					cs, ok := s.in.(ssa.CallInstruction)
					if !ok || cs.Common().StaticCallee() != owner || idx >= len(cs.Common().Args) {
						continue
					}
					for _, g := range a.closuresOf(cs.Common().Args[idx], 0) {
						a.sites[g] = append(a.sites[g], par17Site{fn, call.(ssa.Instruction)})
					}
				}
			}
		}
	}

	nContainer := 0
	for _, fn := range a.scope {
		ord := map[string]int{}
		acquires := false
		for _, call := range core.Calls(fn) {
			in := call.(ssa.Instruction)
			name := p.CalleeName(call)
			isContainer := strings.HasPrefix(name, "lib/file.(*Container).")
			kind := a.isAcquisition(call)
			// (a) container calls
			if isContainer {
				nContainer++
				c.Sites++
				c.Touch(fn)
				key := txnOrd(ord, c.KeyAt(fn, "handler table: "+par17Short(name)+" under viewLoadingMutex"))
				if !a.inRegion[fn] {
					c.Ok(key, c.Pos(in), "statement-level: no concurrent region reaches this function except through the statement interpreter")
				} else if ok, why := a.held(fn, in); ok {
					c.Ok(key, c.Pos(in), why)
				} else {
					c.Bad(key, c.Pos(in), fmt.Sprintf("%s is called on the transaction's handler table without Transaction.viewLoadingMutex (%s), in code that worker goroutines reach (Evaluate → sub-query / inline table → loadView): the table is a plain map with one handler per path — two workers registering, looking up or closing handlers at the same time race on the map, and the result (rows, or 'file … already opened') depends on --cpu and on the schedule", par17Short(name), why))
				}
			}
			if !a.inRegion[fn] {
				continue
			}
			if kind != "" {
				acquires = true
			}
			// (b) uses of a handle
			if !isContainer {
				used := ""
				var ops []ssa.Value
				ops = append(ops, call.Common().Args...)
				if call.Common().IsInvoke() {
					ops = append(ops, call.Common().Value)
				}
				for _, op := range ops {
					if par17IsHandleType(core.Strip(op).Type()) && a.tainted(op, map[ssa.Value]bool{}) {
						used = "*" + core.NamedOf(core.Strip(op).Type())
					}
				}
				if used == "" && kind == "file" {
					used = "*lib/file.Handler" // taking the *os.File of any handler (a cached update handler is shared by every reference)
				}
				if used != "" {
					c.Sites++
					c.Touch(fn)
					label := name
					if label == "" {
						label = "a dynamic call"
					}
					key := txnOrd(ord, c.KeyAt(fn, "handle in use: "+par17Short(label)+" under viewLoadingMutex"))
					if ok, why := a.held(fn, in); ok {
						c.Ok(key, c.Pos(in), why)
					} else {
						c.Bad(key, c.Pos(in), fmt.Sprintf("the %s of a handler of the transaction's FileContainer is used by %s without Transaction.viewLoadingMutex (%s). The mutex also serialises the use of the file: while this goroutine reads, another worker that loads the same path gets 'file … already opened' from the container, and when the transaction holds the file for update all references share the handler's one *os.File, so concurrent Seek(0)/Read interleave and the parsers see torn data — the result depends on --cpu and on the schedule", used, par17Short(label), why))
					}
				}
			}
			// (c1) no explicit Unlock between the registration of a read handler and its Close
			if strings.HasPrefix(name, "lib/file.(*Container).CreateHandlerForRead") || strings.HasPrefix(name, "lib/file.(*Container).CreateHandlerWithoutLock") {
				key := txnOrd(ord, c.KeyAt(fn, "read handler is closed before the mutex is released"))
				isClose := func(x ssa.Instruction) bool {
					cc, ok := x.(ssa.CallInstruction)
					if !ok {
						return false
					}
					if _, isDefer := x.(*ssa.Defer); isDefer {
						return false
					}
					return strings.HasPrefix(p.CalleeName(cc), "lib/file.(*Container).Close")
				}
				// where the registration failed there is no handler: blocks that lie behind `err != nil`
				// of this call's error result (also when the result went through a variable cell) are cut
				failed := func(b *ssa.BasicBlock) bool {
					for _, f := range core.FactsAt(b) {
						x, isNeq, ok := core.NilCmp(f.Cond)
						if !ok || isNeq == f.Neg {
							continue
						}
						for _, o := range core.Origins(x, false) {
							if ex, isEx := o.(*ssa.Extract); isEx && ex.Tuple == ssa.Value(call.Value()) && core.IsErrorType(ex.Type()) {
								return true
							}
						}
					}
					return false
				}
				stop := func(x ssa.Instruction) bool { return isClose(x) || failed(x.Block()) }
				var bad ssa.Instruction
				for _, ev := range a.eventsOf(fn) {
					if ev.unlock && !ev.deferred && !failed(ev.in.Block()) && core.Reachable(in, ev.in, stop) {
						bad = ev.in
						break
					}
				}
				if bad == nil {
					c.Ok(key, c.Pos(in), "no explicit Unlock of viewLoadingMutex is reachable from the registration without passing Container.Close")
				} else {
					c.Bad(key, c.Pos(in), fmt.Sprintf("the Unlock at %s is reachable from this registration of a read handler before the handler is closed: until it is closed every other goroutine that loads the same path fails with 'file … already opened' — whether a query succeeds depends on --cpu and on the schedule", c.Pos(bad)))
				}
			}
		}
		// (c2) a function that takes the mutex itself does not hand a handle out
		if a.inRegion[fn] && a.ownLock(fn) {
			var idx []int
			for i := range a.retTaint[fn] {
				idx = append(idx, i)
			}
			sort.Ints(idx)
			if len(idx) > 0 || acquires {
				key := c.KeyAt(fn, "no handle leaves the critical section")
				if len(idx) == 0 {
					c.Ok(key, c.FnPos(fn), "takes the mutex and a handle; returns neither the handle, nor its file, nor a closure that captured one")
				} else {
					c.Bad(key, c.FnPos(fn), fmt.Sprintf("this function locks Transaction.viewLoadingMutex itself, takes a file handle inside, and returns it (result #%d is a handler, a handler's *os.File, or a closure that captured one): the caller uses the handle after the critical section that registered it has ended — a second worker loading the same file meanwhile gets 'file … already opened', or reads through the same *os.File at the same time", idx[0]))
				}
			}
		}
	}
	if nContainer == 0 {
		c.Unknown("handler table", "-", "cannot-analyse: no call of a lib/file.Container method found in lib/query")
	}
	c.negControls(start, "okPar17WholeFunction", "okPar17HelperUnderCallersLock", "okPar17ExplicitUnlockAfterClose", "okPar17PrivateDataOutsideLock", "okPar17BodyUnderHelpersLock")
}
