package rules

// R-LIM-6 — the clamping arithmetic of LIMIT and OFFSET (engine E12, DESIGN §3 C07).
//
// C07: "OFFSET n drops exactly the first n rows, LIMIT n keeps exactly the first n …
// for all limit/offset values incl. 0, negatives and values beyond the row count".
//
// (*View).Limit and (*View).Offset are evaluated path by path (core/x_sympath.go):
// integer values are polynomials over the atoms
//
//	n  the evaluated clause value, (value.Integer).Raw()
//	L  len(view.RecordSet) at entry
//
// view.RecordSet is a symbolic slice (root, offset, length) and view.offset an integer
// cell, both followed through the stores and loads of the path (and of the callees that
// receive the view or are private helpers of the function); branch conditions are the
// facts of the path. On every path that returns a nil error, outside LIMIT … PERCENT
// and outside the WITH TIES extension (a bound that went through the tie loop):
//
//	LIMIT   view.RecordSet is finally RS₀[0 : K] with K = min(max(n,0), L)
//	OFFSET  view.RecordSet finally holds L − D rows with D = min(max(n,0), L); they are
//	        RS₀[D:] itself, or the head of RS₀ after a RS₀[D:] was taken on the path (the
//	        source of the copy-down), or there are none;
//	        view.offset finally holds D (LIMIT … PERCENT adds it back: R-LIM-2).
//
// "X = min(max(n,0), L)" is decided from the facts F of the path, without a solver:
// X ≡ n with F ⇒ 0 ≤ n and F ⇒ n ≤ L, or X ≡ 0 with F ⇒ n ≤ 0 (or L ≤ 0), or X ≡ L with
// F ⇒ L ≤ n (or L ≤ 0); an implication holds when the goal minus one or two facts is a
// non-negative constant.
//
// Not decided here: the PERCENT arithmetic (floats: R-ERR-10, R-LIM-2, R-LIM-4), how far
// WITH TIES extends the cut, that the copy-down loop moves every row (R-SRT-5 follows
// the shift), integer overflow of the conversion int64 → int.

import (
	"fmt"
	"go/types"
	"sort"
	"strings"

	"golang.org/x/tools/go/ssa"

	"verif/checker/core"
)

func init() {
	Register(&Rule{ID: "R-LIM-6", Props: []string{"C07"}, Floor: 3,
		Doc:      "the clamping arithmetic of LIMIT / OFFSET, by symbolic evaluation of every acyclic path of (*View).Limit and (*View).Offset (with the callees that receive the view and their private helpers inlined) over the atoms n = the evaluated clause value and L = the row count at entry, view.RecordSet as a symbolic slice and view.offset as a memory cell followed along the path: on every path that returns nil, outside PERCENT and the WITH TIES extension, LIMIT leaves RecordSet = RS₀[0:K] with K = min(max(n,0), L); OFFSET leaves L − D rows with D = min(max(n,0), L), which are RS₀[D:] (re-sliced, or copied down from a RS₀[D:] taken on the path) and stores D into view.offset. X = min(max(n,0), L) is decided from the branch facts of the path (X ≡ n ∧ 0 ≤ n ≤ L, X ≡ 0 ∧ n ≤ 0, X ≡ L ∧ L ≤ n; implication = goal minus one or two facts is a non-negative constant). Not decided: PERCENT floats, the extent of WITH TIES, the contents moved by the copy-down loop",
		Controls: []string{"CtlClampLimitNegativeKept", "CtlClampLimitOffByOne", "CtlClampLimitFlippedGuard", "CtlClampOffsetRawRecorded", "CtlClampOffsetKeepsOffsetRows", "CtlClampOffsetRawCut"},
		Run:      ruleLim6})
}

func ruleLim6(c *Ctx) {
	start := len(c.Obs)
	defer func() {
		c.negControls(start, "okClampLimitSwitch", "okClampLimitViaHelpers", "okClampOffsetReslice", "okClampOffsetCopyDown")
	}()
	if fn := c.Fn("lib/query.(*View).Limit"); fn != nil {
		clampCheck(c, fn, "limit")
	}
	if fn := c.Fn("lib/query.(*View).Offset"); fn != nil {
		clampCheck(c, fn, "offset")
	}
	for _, f := range c.P.FuncsIn(true, core.ControlPkg) {
		if !c.P.IsControl(f) || f.Parent() != nil {
			continue
		}
		switch {
		case strings.Contains(f.Name(), "ClampLimit"):
			clampCheck(c, f, "limit")
		case strings.Contains(f.Name(), "ClampOffset"):
			clampCheck(c, f, "offset")
		}
	}
}

const (
	clampRows   = "RecordSet"
	clampOffset = "offset"
)

type clampVerdict struct {
	status string // Discharged / Violated / Undecided
	why    string
	at     ssa.Instruction
}

// worse keeps the first violation, else the first undecided.
func (v *clampVerdict) merge(status, why string, at ssa.Instruction) {
	rank := map[string]int{"": 0, Discharged: 1, Undecided: 2, Violated: 3}
	if rank[status] > rank[v.status] {
		v.status, v.why, v.at = status, why, at
	}
}

func clampForeign(p core.Poly) []string {
	var out []string
	for _, a := range p.Atoms() {
		if a != "n" && a != "L" {
			out = append(out, a)
		}
	}
	return out
}

// clampIs decides X = min(max(n,0), L) under the facts.
func clampIs(f *core.LinFacts, x core.Poly) (bool, string) {
	n, l := core.PolyAtom("n"), core.PolyAtom("L")
	if f.ImpliesEq0(x.Sub(n)) && f.ImpliesGeq0(n) && f.ImpliesGeq0(l.Sub(n)) {
		return true, "n behind 0 ≤ n ≤ L"
	}
	if f.ImpliesEq0(x) && (f.ImpliesGeq0(n.Neg()) || f.ImpliesGeq0(l.Neg())) {
		return true, "0 behind n ≤ 0"
	}
	if f.ImpliesEq0(x.Sub(l)) && (f.ImpliesGeq0(n.Sub(l)) || f.ImpliesGeq0(l.Neg())) {
		return true, "L behind L ≤ n"
	}
	return false, ""
}

// clampWhyNot words the failure for the reader of the report.
func clampWhyNot(f *core.LinFacts, x core.Poly, what string) string {
	n, l := core.PolyAtom("n"), core.PolyAtom("L")
	var miss string
	switch {
	case f.ImpliesEq0(x.Sub(n)):
		var ms []string
		if !f.ImpliesGeq0(n) {
			ms = append(ms, "0 ≤ n (a negative clause value is used as it is)")
		}
		if !f.ImpliesGeq0(l.Sub(n)) {
			ms = append(ms, "n ≤ L (a value beyond the row count is used as it is)")
		}
		miss = "it is n, but the conditions of the path do not imply " + strings.Join(ms, " nor ")
	case f.ImpliesEq0(x):
		miss = "it is 0, but the conditions of the path do not imply n ≤ 0"
	case f.ImpliesEq0(x.Sub(l)):
		miss = "it is L (every row), but the conditions of the path do not imply L ≤ n"
	default:
		miss = "it is none of n, 0, L"
	}
	return fmt.Sprintf("%s = %s where min(max(n,0), L) is due: %s [path conditions: %s]", what, x, miss, f)
}

// clampScalarLeaf: a small loop-free function of the module over scalars only (max, min,
// clamp helpers shared by several callers): it cannot reach the view, and its paths are
// worth their facts.
func clampScalarLeaf(f *ssa.Function) bool {
	if f == nil || f.Blocks == nil || !inModule(f) || len(f.Blocks) > 24 || len(f.FreeVars) > 0 || len(core.NaturalLoops(f)) > 0 {
		return false
	}
	scalar := func(t types.Type) bool {
		b, ok := t.Underlying().(*types.Basic)
		return ok && b.Info()&(types.IsInteger|types.IsBoolean) != 0
	}
	sig := f.Signature
	if sig.Recv() != nil || sig.Results().Len() == 0 {
		return false
	}
	for i := 0; i < sig.Params().Len(); i++ {
		if !scalar(sig.Params().At(i).Type()) {
			return false
		}
	}
	for i := 0; i < sig.Results().Len(); i++ {
		if !scalar(sig.Results().At(i).Type()) {
			return false
		}
	}
	return true
}

func clampCheck(c *Ctx, fn *ssa.Function, kind string) {
	c.Touch(fn)
	keyCount := c.KeyAt(fn, "keeps the first min(max(n,0), L) rows")
	keyCell := ""
	if kind == "offset" {
		keyCount = c.KeyAt(fn, "drops the first min(max(n,0), L) rows")
		keyCell = c.KeyAt(fn, "view.offset holds the number of rows dropped")
	}
	undecided := func(pos, why string) {
		c.Unknown(keyCount, pos, why)
		if keyCell != "" {
			c.Unknown(keyCell, pos, why)
		}
	}
	// the view: the receiver, or (controls) the first parameter of such a type
	var recv *ssa.Parameter
	for _, prm := range fn.Params {
		var st *types.Struct
		if pt, ok := prm.Type().Underlying().(*types.Pointer); ok {
			st, _ = pt.Elem().Underlying().(*types.Struct)
		}
		hasRows, hasOff := false, false
		if st != nil {
			for i := 0; i < st.NumFields(); i++ {
				f := st.Field(i)
				if _, isSlice := f.Type().Underlying().(*types.Slice); isSlice && f.Name() == clampRows {
					hasRows = true
				}
				if b, isBasic := f.Type().Underlying().(*types.Basic); isBasic && b.Info()&types.IsInteger != 0 && f.Name() == clampOffset {
					hasOff = true
				}
			}
		}
		if hasRows && hasOff {
			recv = prm
			break
		}
		if fn.Signature.Recv() != nil {
			break // a method: only the receiver counts
		}
	}
	if recv == nil {
		undecided(c.FnPos(fn), "cannot-analyse: the receiver is not a pointer to a struct with a slice field RecordSet and an integer field offset")
		return
	}
	recvAtom := "param:" + recv.Name()
	rowsCell, offCell := recvAtom+"."+clampRows, recvAtom+"."+clampOffset
	helpers := privateHelpersOf(c.P, fn, 3)
	nNames := map[ssa.CallInstruction]string{}
	ev := &core.SymEval{
		NameCall: func(call ssa.CallInstruction, callee *ssa.Function, args []core.Sym) (core.Sym, bool) {
			if callee == nil || callee.Signature.Recv() == nil {
				return core.Sym{}, false
			}
			switch core.NamedOf(callee.Signature.Recv().Type()) + "." + callee.Name() {
			case "lib/value.Integer.Raw":
				name, ok := nNames[call]
				if !ok {
					name = "n"
					if len(nNames) > 0 {
						name = fmt.Sprintf("n#%d", len(nNames)+1)
					}
					nNames[call] = name
				}
				return core.SymIntOf(core.PolyAtom(name)), true
			case "lib/parser.LimitClause.Percentage":
				return core.Sym{Kind: core.SymBool, B: &core.BoolExpr{Atom: "percent"}}, true
			case "lib/parser.LimitClause.WithTies":
				return core.Sym{Kind: core.SymBool, B: &core.BoolExpr{Atom: "ties"}}, true
			}
			return core.Sym{}, false
		},
		Inline: func(callee *ssa.Function, args []core.Sym) bool {
			if helpers[callee] || clampScalarLeaf(callee) {
				return true
			}
			for _, a := range args {
				if a.Atom == recvAtom {
					return true
				}
			}
			return false
		},
		InitCell: func(cell string, t types.Type) (core.Sym, bool) {
			switch cell {
			case rowsCell:
				return core.Sym{Kind: core.SymSlice, Root: "RS₀", Off: core.Poly{}, Len: core.PolyAtom("L"), Atom: "RS₀"}, true
			case offCell:
				return core.SymIntOf(core.PolyAtom("offset₀")), true
			}
			return core.Sym{}, false
		},
	}
	L := core.PolyAtom("L")
	paths, complete := ev.Paths(fn, nil, core.LinFacts{Geq0: []core.Poly{L}})
	if !complete || len(paths) == 0 {
		undecided(c.FnPos(fn), "cannot-analyse: the paths of the function could not be enumerated")
		return
	}
	errIdx := core.ErrorResultIndex(fn)
	var count, cell clampVerdict
	nChecked, nPercent, nTies, nErr, nCut := 0, 0, 0, 0, 0
	origin := func(p *core.SymPath, atoms []string) string {
		var xs []string
		for _, a := range atoms {
			a = strings.TrimSuffix(strings.TrimPrefix(a, "len("), ")")
			if v, ok := p.Origin[a]; ok {
				if in, ok := v.(ssa.Instruction); ok {
					xs = append(xs, fmt.Sprintf("%s = %s at %s", a, v.String(), c.Pos(in)))
					continue
				}
			}
			xs = append(xs, a)
		}
		return strings.Join(xs, "; ")
	}
	// a failed proof is a violation only when the conditions of the path are all over n and L
	// (and loop counters): a condition over a value the evaluator could not normalise may
	// hide the missing fact
	failed := func(v *clampVerdict, p *core.SymPath, why string) {
		set := map[string]bool{}
		for _, fs := range [][]core.Poly{p.Facts.Geq0, p.Facts.Eq0, p.Facts.Ne0} {
			for _, e := range fs {
				if len(clampForeign(e)) == len(e.Atoms()) {
					continue // says nothing about n or L (len(x) ≥ 0 of a slice met on the way …)
				}
				for _, a := range clampForeign(e) {
					a = strings.TrimSuffix(strings.TrimPrefix(a, "len("), ")")
					if o, ok := p.Origin[a]; ok {
						if _, isPhi := o.(*ssa.Phi); isPhi {
							continue
						}
					}
					set[a] = true
				}
			}
		}
		if len(set) == 0 {
			v.merge(Violated, why, p.Ret)
			return
		}
		var as []string
		for a := range set {
			as = append(as, a)
		}
		sort.Strings(as)
		v.merge(Undecided, "cannot-analyse: "+why+" — but the conditions of the path involve values that are not polynomials over n and L: "+origin(p, as), p.Ret)
	}
	for i := range paths {
		p := &paths[i]
		if errIdx >= 0 && errIdx < len(p.Results) && p.NilOnPath(p.Results[errIdx]) == core.NonNil {
			nErr++
			continue
		}
		if p.Bools["percent"] {
			nPercent++
			continue
		}
		var handed []string
		for _, note := range p.Notes {
			if strings.HasSuffix(note, ":"+recvAtom) {
				handed = append(handed, strings.TrimSuffix(note, ":"+recvAtom))
			}
		}
		if len(handed) > 0 {
			why := "cannot-analyse: the view is handed to a " + strings.Join(handed, " / ") + " on a path to this return: writes to it outside the evaluated path are possible"
			count.merge(Undecided, why, p.Ret)
			if keyCell != "" {
				cell.merge(Undecided, why, p.Ret)
			}
			continue
		}
		rs, ok := p.Cells[rowsCell]
		if !ok {
			rs, _ = ev.InitCell(rowsCell, nil)
		}
		off, ok := p.Cells[offCell]
		if !ok {
			off, _ = ev.InitCell(offCell, nil)
		}
		if rs.Kind != core.SymSlice {
			count.merge(Undecided, "cannot-analyse: the value finally stored into RecordSet is not a slice the evaluator follows", p.Ret)
			continue
		}
		F := &p.Facts
		foreign := append(clampForeign(rs.Len), clampForeign(rs.Off)...)
		empty := F.ImpliesEq0(rs.Len)
		if p.Bools["ties"] && (len(foreign) > 0 || (rs.Root != "RS₀" && !empty)) {
			nTies++ // the bound went through the tie extension: outside the clause
			continue
		}
		nChecked++
		if len(foreign) > 0 {
			count.merge(Undecided, fmt.Sprintf("cannot-analyse: the bounds of the record set finally stored (%s) are not polynomials over n and L: %s", rs, origin(p, foreign)), p.Ret)
			if keyCell != "" {
				cell.merge(Undecided, "cannot-analyse: the number of rows dropped is not a polynomial over n and L", p.Ret)
			}
			continue
		}
		if rs.Root != "RS₀" && !empty {
			count.merge(Undecided, fmt.Sprintf("cannot-analyse: RecordSet is replaced by a slice (%s) that is not cut out of the rows at entry", rs), p.Ret)
			continue
		}
		if rs.Root != "RS₀" || !rs.Off.IsZero() || !rs.Len.Equal(L) {
			nCut++
		}
		switch kind {
		case "limit":
			K := rs.Len
			if ok, how := clampIs(F, K); !ok {
				failed(&count, p, clampWhyNot(F, K, "the number of rows kept"))
			} else if !empty && !F.ImpliesEq0(rs.Off) {
				count.merge(Violated, fmt.Sprintf("the rows kept are RS₀[%s : %s], not a prefix of the rows at entry", rs.Off, rs.Off.Add(rs.Len)), p.Ret)
			} else {
				count.merge(Discharged, "K = "+how, p.Ret)
			}
		case "offset":
			D := L.Sub(rs.Len)
			if ok, how := clampIs(F, D); !ok {
				failed(&count, p, clampWhyNot(F, D, "the number of rows dropped (L − rows finally stored)"))
			} else if !empty && !F.ImpliesEq0(rs.Off.Sub(D)) {
				// the head of the backing array: the rows must have been taken from RS₀[D:]
				moved := false
				if F.ImpliesEq0(rs.Off) {
					for _, e := range p.Events {
						if e.X.Root == "RS₀" && e.Res.Kind == core.SymSlice && F.ImpliesEq0(e.Res.Off.Sub(D)) && F.ImpliesEq0(e.Res.Len.Sub(rs.Len)) {
							moved = true
						}
					}
				}
				if moved {
					count.merge(Discharged, "D = "+how+", rows copied down from RS₀[D:]", p.Ret)
				} else {
					count.merge(Violated, fmt.Sprintf("%s rows are dropped, but the rows finally stored are RS₀[%s : %s] and no RS₀[%s:] is taken on the path as the source of a copy: the rows kept are not the ones after the first %s", D, rs.Off, rs.Off.Add(rs.Len), D, D), p.Ret)
				}
			} else {
				count.merge(Discharged, "D = "+how, p.Ret)
			}
			// view.offset
			switch {
			case off.Kind != core.SymInt:
				cell.merge(Undecided, "cannot-analyse: the value of view.offset at the return is not an integer the evaluator follows", p.Ret)
			case off.P.Equal(core.PolyAtom("offset₀")):
				cell.merge(Violated, fmt.Sprintf("view.offset is not stored on this path (%s rows are dropped): LIMIT … PERCENT adds a stale count to its base [path conditions: %s]", D, F), p.Ret)
			case len(clampForeign(off.P)) > 0:
				cell.merge(Undecided, fmt.Sprintf("cannot-analyse: view.offset = %s at the return is not a polynomial over n and L: %s", off.P, origin(p, clampForeign(off.P))), p.Ret)
			case !F.ImpliesEq0(off.P.Sub(D)):
				failed(&cell, p, fmt.Sprintf("view.offset = %s at the return, but %s rows were dropped: LIMIT … PERCENT computes its base from the wrong count [path conditions: %s]", off.P, D, F))
			default:
				cell.merge(Discharged, "", p.Ret)
			}
		}
	}
	if len(nNames) > 1 {
		var ps []string
		for call := range nNames {
			ps = append(ps, c.Pos(call.(ssa.Instruction)))
		}
		sort.Strings(ps)
		count.merge(Undecided, "cannot-analyse: the clause value is read more than once ("+strings.Join(ps, ", ")+")", nil)
	}
	summary := fmt.Sprintf("%d success path(s) evaluated (%d of them change the record set), %d error, %d PERCENT and %d WITH TIES path(s) outside the clause", nChecked, nCut, nErr, nPercent, nTies)
	report := func(key string, v clampVerdict) {
		pos := c.FnPos(fn)
		if v.at != nil {
			pos = c.Pos(v.at)
		}
		switch {
		case nChecked == 0 && v.status != Undecided:
			c.Unknown(key, c.FnPos(fn), "cannot-analyse: no path returns nil outside PERCENT / WITH TIES ("+summary+")")
		case nCut == 0 && v.status == Discharged:
			c.Unknown(key, c.FnPos(fn), "cannot-analyse: no success path changes the record set ("+summary+")")
		case v.status == Violated:
			c.Bad(key, pos, v.why)
		case v.status == Undecided:
			c.Unknown(key, pos, v.why)
		default:
			c.OkN(key, c.FnPos(fn), summary, len(paths))
		}
	}
	report(keyCount, count)
	if keyCell != "" {
		report(keyCell, cell)
	}
}
