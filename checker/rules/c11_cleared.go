package rules

import (
	"fmt"
	"go/token"
	"go/types"

	"golang.org/x/tools/go/ssa"

	"verif/checker/core"
)

// R-CLEAN-12 — a reference to a control file is dropped only when the file is gone.
//
// Handler.close / closeWithErrors / the forced release remove what the handler
// references: a *ControlFile field that is nil is skipped. A path that stores nil
// into such a field while the file it named still exists (not removed, not renamed
// onto the table) and then leaves the function makes the file unreachable for
// every later release: it stays in the repository after the process has ended (C11).
// Typestate per field: held -> released | handed over -> nil.

const (
	clrCreateControl = "lib/file.CreateControlFileContext"
)

func init() {
	Register(&Rule{ID: "R-CLEAN-12", Props: []string{"C11"}, Floor: 3,
		Doc:      "a control-file reference is cleared only after the file is gone: for every store of nil into a cell of type *file.ControlFile that is not a local variable (a struct field such as Handler.tempFile / lockFile / rlockFile, or a cell reached through a pointer) in lib/file, either (A) the store is dominated by the success edge (result == nil) of a discharge of the value the cell held — a call that is given a load of the same cell (same base value, same field) that dominates the store, or a field of that value (its path), and that is os.Remove / os.Rename (path as first argument) or a lib/file function that reaches os.Remove or os.Rename (ControlFile.Close, CloseWithErrors, a helper) — or (B) no exit of the function is reachable from the store without first crossing such a success edge or a store of the old value back into the cell. Discharging another field, clearing before the release and returning on its failure, clearing on the failure edge are reported. Not vacuous: every field of type *ControlFile of a struct declared in lib/file has at least one examined store of nil (9 stores today; the floor is one per field because the duplicated release blocks may be merged into helpers)",
		Controls: []string{"CtlClean12ClearedBeforeRelease", "CtlClean12OtherFieldReleased", "CtlClean12ClearedOnFailure"},
		Run:      ruleClean12})
}

// clrSameCell: two addresses denote the same cell (same SSA value, or the same field of the same base value).
func clrSameCell(a, b ssa.Value) bool {
	if a == b {
		return true
	}
	fa, ok1 := a.(*ssa.FieldAddr)
	fb, ok2 := b.(*ssa.FieldAddr)
	return ok1 && ok2 && fa.X == fb.X && fa.Field == fb.Field
}

func clrLoadOf(v ssa.Value) ssa.Value {
	if u, ok := v.(*ssa.UnOp); ok && u.Op == token.MUL {
		return u.X
	}
	return nil
}

func ruleClean12(c *Ctx) {
	p := c.P
	start := len(c.Obs)
	defer c.negControls(start, "okClean12ReleasedFirst", "okClean12RestoredOnFailure")
	create := c.Fn(clrCreateControl)
	if create == nil {
		return
	}
	res := create.Signature.Results()
	if res.Len() == 0 {
		c.Unknown("anchor: type of a control file", "-", "cannot-analyse: "+clrCreateControl+" has no result")
		return
	}
	cfType := res.At(0).Type()
	if _, ok := cfType.(*types.Pointer); !ok {
		c.Unknown("anchor: type of a control file", "-", "cannot-analyse: "+clrCreateControl+" does not return a pointer")
		return
	}
	goneSet := p.CanReach([]string{"os.Remove", "os.Rename"}, nil)

	cleared := map[string]bool{}
	for _, fn := range p.FuncsIn(true, "lib/file") {
		ord := map[string]int{}
		for _, b := range fn.Blocks {
			for _, in := range b.Instrs {
				st, ok := in.(*ssa.Store)
				if !ok || !core.IsNilConst(st.Val) || !types.Identical(st.Val.Type(), cfType) {
					continue
				}
				if _, local := st.Addr.(*ssa.Alloc); local {
					continue
				}
				c.Sites++
				c.Touch(fn)
				cell := "a *ControlFile cell"
				if fa, ok := st.Addr.(*ssa.FieldAddr); ok {
					cell = core.FieldName(fa)
					if o := core.FieldOwner(fa); o != "" {
						cell = o
					}
					cleared[cell] = true
				}
				key := txnOrd(ord, c.KeyAt(fn, "nil stored into "+cell+" only after the file is gone"))

				// the value the cell held: loads of the same cell that dominate the store
				isOld := func(v ssa.Value) bool {
					a := clrLoadOf(v)
					if a == nil || !clrSameCell(a, st.Addr) {
						return false
					}
					ld := v.(*ssa.UnOp)
					return core.Dominates(ld, st)
				}
				// a field of the old value (its path)
				isOldPart := func(v ssa.Value) bool {
					a := clrLoadOf(v)
					fa, ok := a.(*ssa.FieldAddr)
					return ok && isOld(fa.X)
				}
				isDischarge := func(call *ssa.Call) bool {
					args := call.Call.Args
					if len(args) == 0 || call.Call.IsInvoke() {
						return false
					}
					switch p.CalleeName(call) {
					case "os.Remove", "os.Rename":
						return isOldPart(args[0])
					}
					k := core.StaticCallee(call)
					if k == nil || !(p.InPkg(k, "lib/file") || p.IsControl(k)) || !goneSet[k] {
						return false
					}
					for _, a := range args {
						if isOld(a) || isOldPart(a) {
							return true
						}
					}
					return false
				}
				var lastDischarge *ssa.Call
				isResultOf := func(v ssa.Value) bool {
					v = txnThroughCell(v)
					call, ok := v.(*ssa.Call)
					if !ok {
						call, _, ok = core.ExtractOf(v)
					}
					if ok && isDischarge(call) {
						lastDischarge = call
						return true
					}
					return false
				}
				success := func(from, to *ssa.BasicBlock) bool {
					return txnNilEdge(from, to, isResultOf, true)
				}

				// (A) dominated by a success edge
				okA := ""
				for _, fb := range fn.Blocks {
					if okA != "" {
						break
					}
					for _, to := range fb.Succs {
						if success(fb, to) && len(to.Preds) == 1 && (to == st.Block() || to.Dominates(st.Block())) {
							okA = txnCallLabel(p, lastDischarge) + " at " + c.Pos(lastDischarge)
							break
						}
					}
				}
				if okA != "" {
					c.Ok(key, c.Pos(st), "the store is reached only through the success edge of the release / hand-over of the file the cell held ("+okA+")")
					continue
				}
				// (B) every way out crosses a success edge or puts the old value back
				restores := func(x ssa.Instruction) bool {
					s2, ok := x.(*ssa.Store)
					return ok && s2 != st && clrSameCell(s2.Addr, st.Addr) && isOld(s2.Val)
				}
				exits := core.ExitsAfter(st, restores, success)
				if len(exits) == 0 {
					c.Ok(key, c.Pos(st), "cleared first, but every path to an exit crosses the success edge of the release / hand-over of the old value or stores it back")
					continue
				}
				c.Bad(key, c.Pos(st), fmt.Sprintf("nil is stored into %s while the file it named is neither removed nor renamed, and the exit at %s is reachable from there without a successful release / hand-over of the old value and without putting it back: the handler forgets a control file that still exists — Handler.close and the forced release skip a nil reference, the file stays after the process has ended", cell, c.Pos(exits[0])))
			}
		}
	}
	// not vacuous: every control-file field of a lib/file struct is cleared somewhere the rule has looked at
	if pk := p.ByPath["lib/file"]; pk == nil {
		c.Unknown("anchor: package lib/file", "-", "cannot-analyse: package lib/file is not loaded")
	} else {
		scope := pk.Types.Scope()
		for _, name := range scope.Names() { // sorted
			tn, ok := scope.Lookup(name).(*types.TypeName)
			if !ok {
				continue
			}
			stt, ok := tn.Type().Underlying().(*types.Struct)
			if !ok {
				continue
			}
			for i := 0; i < stt.NumFields(); i++ {
				if !types.Identical(stt.Field(i).Type(), cfType) {
					continue
				}
				cell := "lib/file." + name + "." + stt.Field(i).Name()
				if !cleared[cell] {
					c.Unknown("field "+cell+": cleared somewhere", p.Pos(stt.Field(i).Pos()), "cannot-analyse: no store of nil into "+cell+" was found in lib/file: the rule no longer sees where the reference is dropped")
				}
			}
		}
	}
}
