package rules

import (
	"fmt"
	"go/token"
	"go/types"
	"sort"
	"strings"

	"golang.org/x/tools/go/ssa"

	"verif/checker/core"
)

// C12 — R-PAR-24: what a worker processes is a function of its task index.
//
// The parallel stages of lib/query give every worker the records
// RecordRange(thIdx) (R-PAR-5: those ranges tile the input in order), let it
// collect what it found in a collection of its own and publish that in the
// slot xs[thIdx]; the stage then walks the slots in worker order. That order is
// the record order only while worker j's records all precede worker j+1's. A
// worker that *claims* its items at run time — the value returned by an atomic
// read-modify-write on a shared counter (chunk = atomic.AddInt64(&next, n)) or
// received from a shared channel — gets whatever the schedule leaves it, so a
// per-worker collection published by worker index then holds a
// schedule-dependent selection in a schedule-dependent interleaving.

func init() {
	Register(&Rule{ID: "R-PAR-24", Props: []string{"C12"}, Floor: 20,
		Doc:      "no work stealing under worker-ordered results: in every multi-instance concurrent region of lib/query (E5: `go` operands started in a loop, callbacks of the task runners) that publishes a per-worker collection (a slice or map stored into the slot xs[task index] of a shared slice), no value claimed at run time — the result of a sync/atomic Add/Swap/CompareAndSwap on memory that is not the worker's own, or a value received from a channel the worker did not make — is used as data (index, stored value, argument, loop start; a bare comparison such as a progress test is not data): the set of records a worker processes is a function of its task index alone (RecordRange(thIdx))",
		Controls: []string{"CtlClaimChunksWorkerLists", "CtlClaimFromChannelWorkerLists"},
		Run:      rulePar24})
}

// regionFuncs: the region function and the closures nested in it.
func regionFuncs(fn *ssa.Function) []*ssa.Function {
	out := []*ssa.Function{fn}
	for i := 0; i < len(out); i++ {
		out = append(out, out[i].AnonFuncs...)
	}
	return out
}

func isAtomicRMW(name string) bool {
	if !strings.HasPrefix(name, "sync/atomic.") && !strings.HasPrefix(name, "(*sync/atomic.") {
		return false
	}
	i := strings.LastIndex(name, ".")
	m := name[i+1:]
	return strings.HasPrefix(m, "Add") || strings.HasPrefix(m, "Swap") || strings.HasPrefix(m, "CompareAndSwap") || strings.HasPrefix(m, "And") || strings.HasPrefix(m, "Or")
}

// ownMemory: the address / channel was created by the region itself.
func ownMemory(v ssa.Value, fns map[*ssa.Function]bool) bool {
	os := core.Origins(v, false)
	if len(os) == 0 {
		return false
	}
	for _, o := range os {
		switch x := o.(type) {
		case *ssa.Alloc:
			if !fns[x.Parent()] {
				return false
			}
		case *ssa.MakeChan:
			if !fns[x.Parent()] {
				return false
			}
		default:
			return false
		}
	}
	return true
}

// usedAsData: v (a claimed value) reaches, through arithmetic, conversions, φ
// and local cells, an instruction other than a comparison.
func usedAsData(v ssa.Value) ssa.Instruction {
	seen := map[ssa.Value]bool{}
	work := []ssa.Value{v}
	for len(work) > 0 {
		x := work[len(work)-1]
		work = work[:len(work)-1]
		if seen[x] {
			continue
		}
		seen[x] = true
		refs := x.Referrers()
		if refs == nil {
			continue
		}
		for _, r := range *refs {
			switch y := r.(type) {
			case *ssa.DebugRef:
			case *ssa.BinOp:
				switch y.Op {
				case token.EQL, token.NEQ, token.LSS, token.LEQ, token.GTR, token.GEQ:
					// a test
				default:
					work = append(work, y)
				}
			case *ssa.Convert:
				work = append(work, y)
			case *ssa.ChangeType:
				work = append(work, y)
			case *ssa.Phi:
				work = append(work, y)
			case *ssa.Extract:
				work = append(work, y)
			case *ssa.UnOp:
				if y.Op == token.MUL {
					return y
				}
				work = append(work, y)
			case *ssa.Store:
				if al, ok := y.Addr.(*ssa.Alloc); ok && y.Val == x {
					// a local cell: follow its loads
					if al.Referrers() != nil {
						for _, lr := range *al.Referrers() {
							if ld, ok := lr.(*ssa.UnOp); ok && ld.Op == token.MUL {
								work = append(work, ld)
							} else if _, isSt := lr.(*ssa.Store); !isSt {
								if _, dbg := lr.(*ssa.DebugRef); !dbg {
									return lr // captured by a closure, address passed on …
								}
							}
						}
					}
					continue
				}
				return y
			default:
				return r
			}
		}
	}
	return nil
}

type claimSite struct {
	in   ssa.Instruction
	what string
	use  ssa.Instruction
}

func rulePar24(c *Ctx) {
	e := parAnalysis(c.P)
	for _, fam := range e.families {
		for _, r := range fam.regions {
			if !r.multi {
				continue
			}
			c.Touch(r.fn)
			fl := regionFuncs(r.fn)
			fns := map[*ssa.Function]bool{}
			for _, f := range fl {
				fns[f] = true
			}
			var claims []claimSite
			for _, f := range fl {
				for _, b := range f.Blocks {
					for _, in := range b.Instrs {
						switch x := in.(type) {
						case *ssa.Call:
							n := c.P.CalleeName(x)
							if !isAtomicRMW(n) || len(x.Call.Args) == 0 || ownMemory(x.Call.Args[0], fns) {
								continue
							}
							if u := usedAsData(x); u != nil {
								claims = append(claims, claimSite{in, "the result of " + n + " on a shared counter", u})
							}
						case *ssa.UnOp:
							if x.Op != token.ARROW || ownMemory(x.X, fns) || emptyElem(x.X.Type()) {
								continue
							}
							if u := usedAsData(x); u != nil {
								claims = append(claims, claimSite{in, "a value received from a shared channel", u})
							}
						case *ssa.Select:
							for si, st := range x.States {
								if st.Dir != types.RecvOnly || ownMemory(st.Chan, fns) || emptyElem(st.Chan.Type()) {
									continue
								}
								if x.Referrers() == nil {
									continue
								}
								for _, rr := range *x.Referrers() {
									ex, ok := rr.(*ssa.Extract)
									if !ok || ex.Index < 2 {
										continue
									}
									// the received values follow index and ok in the order of the receive states
									k := 2
									for sj := 0; sj < si; sj++ {
										if x.States[sj].Dir == types.RecvOnly {
											k++
										}
									}
									if ex.Index != k {
										continue
									}
									if u := usedAsData(ex); u != nil {
										claims = append(claims, claimSite{in, "a value received from a shared channel in a select", u})
									}
								}
							}
						}
					}
				}
			}
			// per-worker collections published by worker index
			var pubs []parAccess
			for _, a := range r.acc {
				st, ok := a.in.(*ssa.Store)
				if !ok || !a.write || !strings.HasSuffix(a.path, "[#]") {
					continue
				}
				switch st.Val.Type().Underlying().(type) {
				case *types.Slice, *types.Map:
					if fns[a.fn] && len(core.Origins(st.Val, false)) > 0 && workerBuilt(st.Val, fns) {
						pubs = append(pubs, a)
					}
				}
			}
			key := c.P.Name(fam.parent) + ": " + regionLabel(c, r) + " takes its work from its task index alone"
			if len(claims) == 0 {
				c.Ok(key, c.Pos(r.spawn), "no value claimed from a shared counter or channel is used as data in this region")
				continue
			}
			sort.Slice(claims, func(i, j int) bool { return c.Pos(claims[i].in) < c.Pos(claims[j].in) })
			if len(pubs) == 0 {
				c.Ok(key, c.Pos(claims[0].in), "work items are claimed at run time ("+claims[0].what+"), but the region publishes no per-worker collection by worker index")
				continue
			}
			c.Bad(key, c.Pos(claims[0].in), fmt.Sprintf("the worker claims its work at run time: %s (%s) is used as data at %s, and what the worker gathers is published by worker index (%s at %s): which records a worker gets — and so the content and inner order of its collection, and everything concatenated from the collections in worker order — depends on the goroutine schedule and on --cpu; give every worker RecordRange(thIdx), or address results by record index",
				claims[0].what, c.Pos(claims[0].in), c.Pos(claims[0].use), pubs[0].path, c.Pos(pubs[0].in)))
		}
	}
}

// workerBuilt: the published collection was made inside the region (make, a
// literal, append results — through φ and local cells).
func workerBuilt(v ssa.Value, fns map[*ssa.Function]bool) bool {
	for _, o := range core.Origins(v, false) {
		switch x := o.(type) {
		case *ssa.MakeSlice:
			if fns[x.Parent()] {
				return true
			}
		case *ssa.MakeMap:
			if fns[x.Parent()] {
				return true
			}
		case *ssa.Call:
			if bi, ok := x.Call.Value.(*ssa.Builtin); ok && bi.Name() == "append" {
				return true
			}
		case *ssa.Slice:
			return true
		}
	}
	return false
}

func emptyElem(t types.Type) bool {
	ch, ok := t.Underlying().(*types.Chan)
	if !ok {
		return false
	}
	st, ok := ch.Elem().Underlying().(*types.Struct)
	return ok && st.NumFields() == 0
}
