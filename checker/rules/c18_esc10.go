package rules

import (
	"fmt"
	"go/types"
	"sort"
	"strings"

	"golang.org/x/tools/go/ssa"

	"verif/checker/core"
)

// R-ESC-10 / R-ESC-11 — a name taken from an identifier keeps its spelling.
//
// The non-terminal `identifier` yields a parser.Identifier: the spelling
// (Literal) AND the flag that says whether it was written in quotes (Quoted).
// Most grammar actions store the whole Identifier in the node and the printer
// calls Identifier.String(), which quotes when the flag is set (R-ESC-2). Some
// actions copy only the spelling into a string field of the node
// (Function{Name: $1.Literal}). Such a field IS an identifier spelling, and the
// scanner decides what a printed spelling means by two things only: whether it
// is quoted (a quoted name is always a plain IDENTIFIER: never a keyword, an
// aggregate, an analytic function; it may hold blanks) and, when it is not, the
// keyword and function tables it compares with strings.EqualFold.
//
// R-ESC-10 (builder side): every grammar action (and every other function that
//   builds nodes — the rule looks at lib/parser.(*yyParserImpl).Parse) that
//   stores the Literal of an Identifier into a field of a node it is building
//   also stores the Quoted flag of THE SAME Identifier into the same node.
//   Without the flag the printer cannot quote: select `a b`(1) prints A B(1)
//   (syntax error), select `min`(1) prints MIN(1) (the aggregate).
//
// R-ESC-11 (printer side): the String() method of such a node does not pass
//   the field through a Unicode case mapping (strings.ToUpper / ToLower /
//   ToTitle / Title, unicode.ToUpper / ToLower / ToTitle / To, and the
//   bytes equivalents), directly or in a lib/parser helper it hands the value
//   to: these map more characters than EqualFold folds (ı → I, İ → i̇), so the
//   printed spelling is classified differently from the written one
//   (select mın(1) prints MIN(1): a function that does not exist became the
//   aggregate). An ASCII-only mapping written out as a loop is what the
//   scanner's own comparison is invariant under.

func init() {
	Register(&Rule{ID: "R-ESC-10", Props: []string{"C18"}, Floor: 4,
		Doc: "a node field filled from the spelling of an identifier keeps the quoting: in lib/parser.(*yyParserImpl).Parse (the grammar actions), every store of parser.Identifier.Literal — read from an Identifier value — into a field of a struct the action is building (composite literal of a type other than Identifier) is accompanied by a store of the Quoted flag read from the same Identifier (same address shape: same yyDollar slot) into the same struct; otherwise the printer cannot know that the name was quoted and prints a text that is a syntax error (`a b`(1) → A B(1)) or another token class (`min`(1) → MIN(1), the aggregate). One obligation per (action block, node field)",
		Controls: []string{"CtlActionDropsQuotedFlag"},
		Run:      ruleEsc10})
	Register(&Rule{ID: "R-ESC-11", Props: []string{"C18"}, Floor: 3,
		Doc: "the printer of a node does not case-map an identifier spelling with a Unicode mapping: for every (node type, string field) that some grammar action fills from parser.Identifier.Literal (the sites of R-ESC-10), the String() method of the node type, and every lib/parser helper the value is handed to, never passes a value derived from that field to strings.ToUpper/ToLower/ToTitle/Title/ToUpperSpecial/ToLowerSpecial, bytes.ToUpper/ToLower/ToTitle or unicode.ToUpper/ToLower/ToTitle/To — the scanner classifies a spelling with strings.EqualFold (simple folding), under which ı and I differ while ToUpper(ı) = I: mın(1) printed as MIN(1) re-parses to the aggregate. One obligation per (printer, field)",
		Controls: []string{"CtlFoldUpperNode"},
		Run:      ruleEsc11})
}

type esc10Site struct {
	fn     *ssa.Function
	at     ssa.Instruction
	node   *types.Named // type of the struct being built
	field  string      // its field that receives the spelling
	quoted bool        // the Quoted flag of the same Identifier is stored into the same struct
	shape  string
}

// esc10Shape describes an address / value expression structurally, so that two
// evaluations of `yyDollar[1].identifier` are recognised as the same place.
func esc10Shape(v ssa.Value, depth int) string {
	if depth > 8 {
		return "?" + v.Name()
	}
	switch x := v.(type) {
	case *ssa.FieldAddr:
		return esc10Shape(x.X, depth+1) + fmt.Sprintf(".%d", x.Field)
	case *ssa.Field:
		return esc10Shape(x.X, depth+1) + fmt.Sprintf(".%d", x.Field)
	case *ssa.IndexAddr:
		if k, ok := core.ConstInt(x.Index); ok {
			return esc10Shape(x.X, depth+1) + fmt.Sprintf("[%d]", k)
		}
		return esc10Shape(x.X, depth+1) + "[" + x.Index.Name() + "]"
	case *ssa.UnOp:
		return "*" + esc10Shape(x.X, depth+1)
	}
	return v.Name()
}

// esc10IdentField: v is the value of field `name` of a parser.Identifier;
// returns the shape of the Identifier it is read from.
func esc10IdentField(v ssa.Value, name string) (string, bool) {
	if u, ok := v.(*ssa.UnOp); ok {
		if fa, ok := u.X.(*ssa.FieldAddr); ok && core.FieldOwner(fa) == "lib/parser.Identifier."+name {
			return esc10Shape(fa.X, 0), true
		}
		return "", false
	}
	if f, ok := v.(*ssa.Field); ok && core.FieldOwner(f) == "lib/parser.Identifier."+name {
		return "&" + esc10Shape(f.X, 0), true
	}
	return "", false
}

func esc10Builders(c *Ctx) []*ssa.Function {
	var out []*ssa.Function
	if fn := c.Fn("lib/parser.(*yyParserImpl).Parse"); fn != nil {
		out = append(out, fn)
	}
	var ctl []*ssa.Function
	for _, fn := range c.P.SrcFuncs() {
		if c.P.IsControl(fn) && (strings.HasPrefix(fn.Name(), "CtlAction") || strings.HasPrefix(fn.Name(), "okAction")) {
			ctl = append(ctl, fn)
		}
	}
	sort.Slice(ctl, func(i, j int) bool { return ctl[i].Name() < ctl[j].Name() })
	return append(out, ctl...)
}

func esc10Sites(c *Ctx) []*esc10Site {
	var sites []*esc10Site
	for _, fn := range esc10Builders(c) {
		// struct under construction → shapes of the Identifiers whose Quoted flag it receives
		quotedInto := map[*ssa.Alloc]map[string]bool{}
		type lit struct {
			st    *ssa.Store
			al    *ssa.Alloc
			fa    *ssa.FieldAddr
			shape string
		}
		var lits []lit
		for _, b := range fn.Blocks {
			for _, in := range b.Instrs {
				st, ok := in.(*ssa.Store)
				if !ok {
					continue
				}
				fa, ok := st.Addr.(*ssa.FieldAddr)
				if !ok {
					continue
				}
				al, ok := fa.X.(*ssa.Alloc)
				if !ok {
					continue
				}
				if sh, ok := esc10IdentField(st.Val, "Quoted"); ok {
					if quotedInto[al] == nil {
						quotedInto[al] = map[string]bool{}
					}
					quotedInto[al][sh] = true
				}
				if sh, ok := esc10IdentField(st.Val, "Literal"); ok {
					lits = append(lits, lit{st, al, fa, sh})
				}
			}
		}
		for _, l := range lits {
			nt, ok := l.al.Type().(*types.Pointer).Elem().(*types.Named)
			if !ok {
				continue
			}
			if core.NamedOf(nt) == "lib/parser.Identifier" {
				continue // a copy of the Identifier itself (the flag travels with R-ESC-2's printer)
			}
			stt, ok := nt.Underlying().(*types.Struct)
			if !ok || l.fa.Field >= stt.NumFields() {
				continue
			}
			sites = append(sites, &esc10Site{fn: fn, at: l.st, node: nt, field: stt.Field(l.fa.Field).Name(),
				quoted: quotedInto[l.al][l.shape], shape: l.shape})
		}
	}
	return sites
}

func ruleEsc10(c *Ctx) {
	sites := esc10Sites(c)
	count := map[string]int{}
	for _, s := range sites {
		c.Sites++
		c.Touch(s.fn)
		base := fmt.Sprintf("%s.%s filled from Identifier.Literal", s.node.Obj().Name(), s.field)
		count[c.P.Name(s.fn)+base]++
		key := c.KeyAt(s.fn, fmt.Sprintf("%s #%d keeps the Quoted flag", base, count[c.P.Name(s.fn)+base]))
		why := fmt.Sprintf("the action copies the spelling of an identifier into %s.%s but not its Quoted flag: the printer of %s cannot quote the name again, so a quoted name that holds a blank or spells a keyword / built-in function (`a b`(1), `min`(1)) is printed as another token sequence (A B(1): syntax error; MIN(1): the aggregate)", s.node.Obj().Name(), s.field, s.node.Obj().Name())
		if s.quoted {
			c.Ok(key, c.Pos(s.at), "the Quoted flag of the same Identifier is stored into the same node")
			continue
		}
		c.Bad(key, c.Pos(s.at), why)
		if c.P.IsControl(s.fn) && strings.HasPrefix(s.fn.Name(), "ok") {
			c.Unknown("negative-control:"+key, "-", "the rule reports "+s.fn.Name()+", which keeps the flag: "+why)
		}
	}
	if len(sites) == 0 {
		c.Unknown("sites", "-", "cannot-analyse: no grammar action stores Identifier.Literal into a node (has the generated parser changed shape?)")
	}
}

// ---------------------------------------------------------------------------
// R-ESC-11

var esc11Mappers = map[string]bool{
	"strings.ToUpper": true, "strings.ToLower": true, "strings.ToTitle": true, "strings.Title": true,
	"strings.ToUpperSpecial": true, "strings.ToLowerSpecial": true, "strings.ToTitleSpecial": true,
	"bytes.ToUpper": true, "bytes.ToLower": true, "bytes.ToTitle": true, "bytes.Title": true,
	"unicode.ToUpper": true, "unicode.ToLower": true, "unicode.ToTitle": true, "unicode.To": true,
}

// esc11Scan: forward taint from the seeds inside fn; reports the first call of
// a Unicode case mapping that receives a tainted value (here or in a lib/parser
// helper the value is handed to).
func esc11Scan(c *Ctx, fn *ssa.Function, seed func(v ssa.Value) bool, taintedParams map[int]bool, depth int, seen map[string]bool) string {
	if depth > 6 {
		return ""
	}
	taint := map[ssa.Value]bool{}
	for i, p := range fn.Params {
		if taintedParams[i] {
			taint[p] = true
		}
	}
	isT := func(v ssa.Value) bool { return v != nil && (taint[v] || (seed != nil && seed(v))) }
	for changed := true; changed; {
		changed = false
		for _, b := range fn.Blocks {
			for _, in := range b.Instrs {
				switch x := in.(type) {
				case *ssa.Store:
					// a container that receives a tainted value is tainted (root of the address)
					if isT(x.Val) {
						root := x.Addr
						for {
							switch a := root.(type) {
							case *ssa.IndexAddr:
								root = a.X
								continue
							case *ssa.FieldAddr:
								root = a.X
								continue
							case *ssa.Slice:
								root = a.X
								continue
							}
							break
						}
						if !taint[root] {
							taint[root] = true
							changed = true
						}
					}
					continue
				}
				v, ok := in.(ssa.Value)
				if !ok || taint[v] {
					continue
				}
				for _, op := range in.Operands(nil) {
					if *op != nil && isT(*op) {
						taint[v] = true
						changed = true
						break
					}
				}
			}
		}
	}
	for _, b := range fn.Blocks {
		for _, in := range b.Instrs {
			call, ok := in.(ssa.CallInstruction)
			if !ok {
				continue
			}
			args := call.Common().Args
			any := false
			tp := map[int]bool{}
			for i, a := range args {
				if isT(a) {
					any = true
					tp[i] = true
				}
			}
			if !any {
				continue
			}
			name := c.P.CalleeName(call)
			if esc11Mappers[name] {
				return fmt.Sprintf("%s at %s", name, c.Pos(in))
			}
			g := call.Common().StaticCallee()
			if g == nil || g.Blocks == nil || !(c.P.InPkg(g, "lib/parser") || c.P.IsControl(g)) {
				continue
			}
			sig := fmt.Sprintf("%s/%v", c.P.Name(g), tp)
			if seen[sig] {
				continue
			}
			seen[sig] = true
			if r := esc11Scan(c, g, nil, tp, depth+1, seen); r != "" {
				return r + " (reached through " + g.Name() + ")"
			}
		}
	}
	return ""
}

func ruleEsc11(c *Ctx) {
	type nf struct {
		node  *types.Named
		field string
	}
	seenNF := map[string]bool{}
	var list []nf
	for _, s := range esc10Sites(c) {
		k := core.NamedOf(s.node) + "." + s.field
		if !seenNF[k] {
			seenNF[k] = true
			list = append(list, nf{s.node, s.field})
		}
	}
	sort.Slice(list, func(i, j int) bool {
		return core.NamedOf(list[i].node)+"."+list[i].field < core.NamedOf(list[j].node)+"."+list[j].field
	})
	if len(list) == 0 {
		c.Unknown("sites", "-", "cannot-analyse: no grammar action stores Identifier.Literal into a node (has the generated parser changed shape?)")
		return
	}
	for _, x := range list {
		owner := core.NamedOf(x.node) + "." + x.field
		var printer *ssa.Function
		for _, fn := range c.P.SrcFuncs() {
			if fn.Name() == "String" && fn.Parent() == nil && fn.Signature.Recv() != nil && core.NamedOf(fn.Signature.Recv().Type()) == core.NamedOf(x.node) {
				printer = fn
				break
			}
		}
		key := fmt.Sprintf("%s.String: field %s printed without a Unicode case mapping", core.NamedOf(x.node), x.field)
		if printer == nil || printer.Blocks == nil {
			c.Unknown(key, "-", "cannot-analyse: "+core.NamedOf(x.node)+" is built from an identifier spelling but has no String() method with a body")
			continue
		}
		c.Touch(printer)
		seed := func(v ssa.Value) bool {
			switch f := v.(type) {
			case *ssa.FieldAddr:
				return core.FieldOwner(f) == owner
			case *ssa.Field:
				return core.FieldOwner(f) == owner
			}
			return false
		}
		r := esc11Scan(c, printer, seed, nil, 0, map[string]bool{})
		c.Check(r == "", key, c.FnPos(printer),
			"the spelling reaches no Unicode case mapping in the printer or the lib/parser helpers it is handed to",
			"the spelling stored in "+owner+" is passed to "+r+": the mapping changes characters that strings.EqualFold — the scanner's comparison with its keyword and function tables — keeps apart (ı → I), so the printed name can be classified differently from the written one (mın(1) → MIN(1), the aggregate)")
	}
}
