package rules

import (
	"fmt"
	"go/constant"
	"go/token"
	"strings"

	"golang.org/x/tools/go/ssa"

	"verif/checker/core"
)

// Rules added after the second round of independently seeded changes (DESIGN §8).

func init() {
	Register(&Rule{ID: "R-SIG-1", Props: []string{"C11", "C01"}, Floor: 1,
		Doc: "signals stay routed to the cancel function until the deferred rollback and release have run: in the function that calls signal.Notify, signal.Stop / Reset / Ignore is never called directly, and a deferred one is registered before (so it runs after) every deferred call that reaches Rollback or the forced release — otherwise a second signal during the clean-up kills the process with its control files in place",
		Run: ruleSig1})
	Register(&Rule{ID: "R-SRT-4", Props: []string{"C04", "C07", "C17"}, Floor: 1,
		Doc: "a cached sort value is filed under the column it was computed from: every store into View.sortValuesInEachCell[r][k] of a NewSortValue result takes that result from RecordSet[r][k] with the same r and k — the cache is shared by all analytic functions and ORDER BY on the view, so a value filed under another column's slot makes a later PARTITION BY / ORDER BY bucket or sort by the wrong column",
		Run: ruleSrt4})
	Register(&Rule{ID: "R-KEY-6", Props: []string{"C04"}, Floor: 3,
		Doc: "strict / loose key choice is made in one place: SerializeKey is called only by SerializeComparisonKeys, SerializeIdenticalKey only by SerializeComparisonKeys and NewSortValue, each under a test of Flags.StrictEqual with the right polarity — a consumer that calls SerializeKey directly (aggregate DISTINCT) merges values that --strict-equal keeps apart",
		Run: ruleKey6})
	Register(&Rule{ID: "R-FMT-8", Props: []string{"C02"}, Floor: 3,
		Doc: "a loader records the detected line break only when one was detected: every store of a reader's DetectedLineBreak into FileInfo.LineBreak is dominated by a test that it is not empty (sibling agreement of the CSV, LTSV and fixed-length loaders) — a file without any line break would otherwise be rewritten with records glued together",
		Run: ruleFmt8})
}

func ruleSig1(c *Ctx) {
	isStop := func(f *ssa.Function) bool {
		r := c.P.FnRef(f)
		return r == "os/signal.Stop" || r == "os/signal.Reset" || r == "os/signal.Ignore"
	}
	reachesCleanup := c.P.NameIs("lib/query.(*Transaction).Rollback", "lib/query.(*Transaction).ReleaseResourcesWithErrors", "lib/query.(*Processor).ReleaseResourcesWithErrors", "lib/query.(*Processor).AutoRollback")
	cleanupDefersOf := func(fn *ssa.Function) []ssa.Instruction {
		var out []ssa.Instruction
		for _, call := range core.Calls(fn) {
			if _, isDefer := call.(*ssa.Defer); isDefer && c.P.CallReaches(call, reachesCleanup) {
				out = append(out, call.(ssa.Instruction))
			}
		}
		return out
	}
	// the owners of an installer: the function that calls signal.Notify when it
	// registers the deferred clean-up itself; otherwise — the installation was
	// moved into a helper — the functions that call the helper (statically, same
	// package, followed for two levels) and register the clean-up. helperBad: a
	// helper on the way switches the routing off when it returns.
	type owner struct {
		fn        *ssa.Function
		helperBad string
	}
	var ownersOf func(fn *ssa.Function, depth int, bad string) []owner
	ownersOf = func(fn *ssa.Function, depth int, bad string) []owner {
		if len(cleanupDefersOf(fn)) > 0 {
			return []owner{{fn, bad}}
		}
		if depth <= 0 || fn.Parent() != nil {
			return nil
		}
		// a helper: its routing must survive its own return
		for _, call := range core.Calls(fn) {
			if _, isGo := call.(*ssa.Go); isGo {
				continue
			}
			f := call.Common().StaticCallee()
			_, isDefer := call.(*ssa.Defer)
			if (isDefer && c.P.CallReaches(call, isStop)) || (f != nil && isStop(f)) {
				bad = "signal routing is switched off at " + c.Pos(call.(ssa.Instruction)) + ", in or at the return of the helper " + c.P.Name(fn) + " that installs the handler, before the caller's deferred clean-up has run"
			}
		}
		var out []owner
		for _, e := range c.P.RealCallers(fn) {
			caller := e.Caller.Func
			if e.Site == nil || core.StaticCallee(e.Site) != fn || core.FnPkg(caller) != core.FnPkg(fn) {
				return nil
			}
			if _, isGo := e.Site.(*ssa.Go); isGo {
				return nil
			}
			up := ownersOf(caller, depth-1, bad)
			if len(up) == 0 {
				return nil
			}
			out = append(out, up...)
		}
		return out
	}
	n := 0
	seen := map[*ssa.Function]bool{}
	for _, inst := range c.P.FuncsIn(false, "lib/cli", "lib/action") {
		if len(c.P.CallsNamed(inst, "os/signal.Notify")) == 0 {
			continue
		}
		n++
		c.Touch(inst)
		owners := ownersOf(inst, 2, "")
		if len(owners) == 0 {
			c.Unknown(c.KeyAt(inst, "signal routing outlives the clean-up"), c.FnPos(inst), "cannot-analyse: no deferred rollback / release in the function that installs the signal handler, nor in the functions that call it as their helper (R-TXN-2 decides where it must be)")
			continue
		}
		for _, ow := range owners {
			fn := ow.fn
			if seen[fn] {
				continue
			}
			seen[fn] = true
			c.Touch(fn)
			key := c.KeyAt(fn, "signal routing outlives the clean-up")
			var stopDefers []ssa.Instruction
			cleanupDefers := cleanupDefersOf(fn)
			bad := ow.helperBad
			for _, call := range core.Calls(fn) {
				in := call.(ssa.Instruction)
				_, isDefer := call.(*ssa.Defer)
				if c.P.CallReaches(call, isStop) {
					if isDefer {
						stopDefers = append(stopDefers, in)
					} else if f := call.Common().StaticCallee(); f != nil && isStop(f) {
						bad = "signal routing is switched off by a direct call at " + c.Pos(in)
					}
				}
			}
			for _, s := range stopDefers {
				for _, cl := range cleanupDefers {
					// deferred calls run in reverse order: the stop must be registered first
					if !core.Dominates(s, cl) {
						bad = fmt.Sprintf("the deferred signal.Stop/Reset registered at %s runs before the deferred rollback/release registered at %s", c.Pos(s), c.Pos(cl))
					}
				}
			}
			okWhy := "signals are delivered to the cancel function until the deferred clean-up has finished"
			if fn != inst {
				okWhy += " (the handler is installed by its helper " + c.P.Name(inst) + ", which never switches the routing off)"
			}
			c.Check(bad == "", key, c.FnPos(fn), okWhy,
				bad+": a second SIGINT/SIGTERM arriving during the clean-up gets the default disposition and kills csvq, leaving .lock / .temp files behind")
		}
	}
	if n == 0 {
		c.Unknown("signal.Notify", "-", "cannot-analyse: no function of lib/cli / lib/action installs a signal handler")
	}
}

// indexPair returns (r, k) when addr is &x[r][k] for x = load of the named View field.
func viewCellIndex(addr ssa.Value, field string) (r, k ssa.Value, ok bool) {
	inner, isIA := addr.(*ssa.IndexAddr)
	if !isIA {
		return nil, nil, false
	}
	// the row: view.<field>[r], directly or through a local alias of the row (`row := view.<field>[r]`,
	// possibly nil on another branch)
	for _, ro := range core.Origins(inner.X, true) {
		if core.IsNilConst(ro) {
			continue
		}
		rowLoad, isU := ro.(*ssa.UnOp)
		if !isU || rowLoad.Op != token.MUL {
			return nil, nil, false
		}
		outer, isIA := rowLoad.X.(*ssa.IndexAddr)
		if !isIA {
			return nil, nil, false
		}
		for _, o := range core.Origins(outer.X, true) {
			u, isU := o.(*ssa.UnOp)
			if !isU {
				return nil, nil, false
			}
			fa, isFA := u.X.(*ssa.FieldAddr)
			if !isFA || core.FieldOwner(fa) != "lib/query.View."+field {
				return nil, nil, false
			}
		}
		if r != nil && r != outer.Index {
			return nil, nil, false
		}
		r = outer.Index
	}
	if r == nil {
		return nil, nil, false
	}
	return r, inner.Index, true
}

func ruleSrt4(c *Ctx) {
	n := 0
	for _, fn := range c.P.FuncsIn(false, "lib/query") {
		for _, b := range fn.Blocks {
			for _, in := range b.Instrs {
				st, ok := in.(*ssa.Store)
				if !ok {
					continue
				}
				r, k, ok := viewCellIndex(st.Addr, "sortValuesInEachCell")
				if !ok {
					continue
				}
				n++
				c.Touch(fn)
				key := c.KeyAt(fn, fmt.Sprintf("cache store #%d into sortValuesInEachCell", n))
				// the stored value: through the local sortValues[j] slot or directly
				var calls []*ssa.Call
				seen := map[ssa.Value]bool{}
				var walk func(v ssa.Value)
				walk = func(v ssa.Value) {
					if v == nil || seen[v] {
						return
					}
					seen[v] = true
					switch x := v.(type) {
					case *ssa.Call:
						calls = append(calls, x)
					case *ssa.Phi:
						for _, e := range x.Edges {
							walk(e)
						}
					case *ssa.UnOp:
						if ia, ok := x.X.(*ssa.IndexAddr); ok && x.Op == token.MUL {
							// sortValues[j]: the values stored into that local slice at the same index
							for _, rr := range *ia.X.Referrers() {
								if ia2, ok := rr.(*ssa.IndexAddr); ok && ia2.Index == ia.Index {
									for _, r3 := range *ia2.Referrers() {
										if s2, ok := r3.(*ssa.Store); ok && s2.Addr == ia2 {
											walk(s2.Val)
										}
									}
								}
							}
						}
					}
				}
				walk(st.Val)
				bad := ""
				found := false
				for _, call := range calls {
					if c.P.CalleeName(call) != "lib/query.NewSortValue" {
						continue
					}
					found = true
					// argument: RecordSet[r'][k'][0]
					arg := call.Common().Args[0]
					u, ok := arg.(*ssa.UnOp)
					if !ok {
						bad = "the NewSortValue argument is not a cell of the view"
						continue
					}
					cellIdx, ok := u.X.(*ssa.IndexAddr)
					if !ok {
						bad = "the NewSortValue argument is not a cell of the view"
						continue
					}
					cellLoad, ok := cellIdx.X.(*ssa.UnOp)
					if !ok {
						bad = "the NewSortValue argument is not a cell of the view"
						continue
					}
					r2, k2, ok := viewCellIndex(cellLoad.X, "RecordSet")
					if !ok {
						bad = "the NewSortValue argument is not taken from View.RecordSet"
						continue
					}
					if r2 != r || k2 != k {
						bad = fmt.Sprintf("the value is computed from RecordSet[%s][%s] but filed under sortValuesInEachCell[%s][%s]", r2.Name(), k2.Name(), r.Name(), k.Name())
					}
				}
				if !found {
					c.Ok(key, c.Pos(st), "not a NewSortValue result (allocation of the row's cache)")
					continue
				}
				c.Check(bad == "", key, c.Pos(st), "computed from RecordSet[r][k] and filed under the same [r][k]", bad+": a later ORDER BY / PARTITION BY on the column that owns this slot uses another column's values")
			}
		}
	}
	if n == 0 {
		c.Unknown("sortValuesInEachCell", "-", "cannot-analyse: no store into View.sortValuesInEachCell[r][k] found")
	}
}

func ruleKey6(c *Ctx) {
	allowed := map[string]map[string]bool{
		"lib/query.SerializeKey":          {"lib/query.SerializeComparisonKeys": true},
		"lib/query.SerializeIdenticalKey": {"lib/query.SerializeComparisonKeys": true, "lib/query.NewSortValue": true},
	}
	wantStrict := map[string]bool{"lib/query.SerializeKey": false, "lib/query.SerializeIdenticalKey": true}
	for callee, who := range allowed {
		f := c.Fn(callee)
		if f == nil {
			continue
		}
		for _, fn := range c.P.FuncsIn(false, "lib/query", "lib/action", "lib/cli", "lib/json") {
			for _, call := range c.P.CallsNamed(fn, callee) {
				c.Touch(fn)
				key := c.KeyAt(fn, "calls "+short2(callee))
				if !who[c.P.Name(fn)] {
					c.Bad(key, c.Pos(call.(ssa.Instruction)), "the key serialiser is called directly, bypassing the strict / loose choice of SerializeComparisonKeys: under --strict-equal this consumer merges values ('abc' / 'ABC', '1' / '01') that DISTINCT, GROUP BY and PARTITION BY keep apart")
					continue
				}
				// polarity of the StrictEqual test that dominates the call
				pol, tested := false, false
				for _, fct := range core.FactsAt(call.Block()) {
					if strings.Contains(valuePathLabel(fct.Cond), "StrictEqual") {
						tested = true
						pol = !fct.Neg
					}
				}
				c.Check(tested && pol == wantStrict[callee], key, c.Pos(call.(ssa.Instruction)), "under Flags.StrictEqual == "+fmt.Sprint(wantStrict[callee]),
					"the call is not guarded by the StrictEqual flag with the right polarity")
			}
		}
	}
}

func ruleFmt8(c *Ctx) {
	n := 0
	for _, fn := range c.P.FuncsIn(false, "lib/query") {
		for _, b := range fn.Blocks {
			for _, in := range b.Instrs {
				st, ok := in.(*ssa.Store)
				if !ok {
					continue
				}
				fa, ok := st.Addr.(*ssa.FieldAddr)
				if !ok || core.FieldOwner(fa) != "lib/query.FileInfo.LineBreak" {
					continue
				}
				// value: load of <reader>.DetectedLineBreak
				u, ok := st.Val.(*ssa.UnOp)
				if !ok {
					continue
				}
				src, ok := u.X.(*ssa.FieldAddr)
				if !ok || core.FieldName(src) != "DetectedLineBreak" {
					continue
				}
				n++
				c.Touch(fn)
				key := c.KeyAt(fn, "store of DetectedLineBreak into FileInfo.LineBreak")
				guarded := false
				for _, f := range core.FactsAt(b) {
					bo, ok := f.Cond.(*ssa.BinOp)
					if !ok {
						continue
					}
					isDet := func(v ssa.Value) bool {
						uu, ok := v.(*ssa.UnOp)
						if !ok {
							return false
						}
						fa2, ok := uu.X.(*ssa.FieldAddr)
						return ok && core.FieldName(fa2) == "DetectedLineBreak" && fa2.X == src.X
					}
					isEmpty := func(v ssa.Value) bool {
						k, ok := v.(*ssa.Const)
						return ok && k.Value != nil && k.Value.Kind() == constant.String && constant.StringVal(k.Value) == ""
					}
					if (isDet(bo.X) && isEmpty(bo.Y)) || (isDet(bo.Y) && isEmpty(bo.X)) {
						if (bo.Op == token.NEQ && !f.Neg) || (bo.Op == token.EQL && f.Neg) {
							guarded = true
						}
					}
				}
				c.Check(guarded, key, c.Pos(st), "only when a line break was detected", "the detected line break is stored even when the file contained none (empty string): the next COMMIT of the table writes its records without any separator")
			}
		}
	}
	if n == 0 {
		c.Unknown("DetectedLineBreak", "-", "cannot-analyse: no loader stores a reader's DetectedLineBreak into FileInfo.LineBreak")
	}
}
