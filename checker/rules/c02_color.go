package rules

import (
	"fmt"
	"go/types"
	"sort"
	"strings"

	"golang.org/x/tools/go/ssa"

	"verif/checker/core"
)

// Presentation state never reaches a file (C02): `--color` / @@COLOR makes the
// JSON encoders wrap keys and values in ANSI escape sequences when PRETTY_PRINT
// is on. That is for the terminal; a file written that way does not load again
// ("unexpected token \x1b"). Three places decide it:
//   - R-FMT-2: (*FileInfo).ExportOptions — the options every table file is
//     written with — sets Color to the constant false; and the table of option
//     fields is complete over what the file-format encoders read;
//   - R-FMT-4 (i): the commit path does not read the session's Color;
//   - R-FMT-11: the result set that goes to the --out file is encoded with
//     Color false.

// fields of option.ExportOptions that are constant for files
var fxFileConst = map[string]bool{"Color": false}

var fxFileConstWhy = map[string]string{
	"Color": "ANSI colour is presentation for the terminal: a pretty-printed JSON table written with escape sequences cannot be loaded again (json loading error: unexpected token \"\\x1b\")",
}

// session-level switches the file-format encoders may read: they spell values, they are not attributes of a file
var fxSessionValueFields = map[string]string{
	"ScientificNotation": "how a float value is spelled (--scientific-notation / @@SCIENTIFIC_NOTATION): a property of the session's output, documented as such; a file has no such attribute",
}

func init() {
	Register(&Rule{ID: "R-FMT-11", Props: []string{"C02"}, Floor: 1,
		Doc:      "every EncodeView call in lib/query whose writer may be the --out file (an origin of the writer argument is (*Session).OutFile(); a writer or options parameter of a private helper — every caller a static call site — is followed to the argument of each calling context) is handed options that are a local variable in which Color is set to the constant false on every path on which the writer is the out file (the store is in the block that takes the out file, dominates it, or lies on every path from there to the call), and no other value is ever stored into that field. A result set written to a file carries no terminal escape sequences: `--color -P -f JSON -o out.json` has to produce a file that loads again",
		Controls: []string{"CtlOutFileKeepsSessionColor", "CtlOutFileColorOffForTerminalOnly", "CtlOutFileHelperKeepsSessionColor"},
		Run:      ruleFmt11})
}

// fxConstFalse: v is the boolean constant false.
func fxConstFalse(v ssa.Value) bool {
	b, ok := core.ConstBool(v)
	return ok && !b
}

// fxCheckFileConstFields (R-FMT-2): the returned options hold the file constant in every presentation field.
func fxCheckFileConstFields(c *Ctx, fn *ssa.Function, rets []*ssa.Return) {
	var names []string
	for f := range fxFileConst {
		names = append(names, f)
	}
	sort.Strings(names)
	for _, f := range names {
		key := c.KeyAt(fn, fmt.Sprintf("ExportOptions.%s <- %v", f, fxFileConst[f]))
		status, why, pos := Discharged, "", c.FnPos(fn)
		for _, r := range rets {
			if len(r.Results) == 0 {
				continue
			}
			ld, ok := r.Results[0].(*ssa.UnOp)
			var cell *ssa.Alloc
			if ok {
				cell, _ = ld.X.(*ssa.Alloc)
			}
			if cell == nil || core.NamedOf(cell.Type()) != "lib/option.ExportOptions" {
				status, why, pos = Undecided, "the returned options are not a struct built in this function: "+valueLabel(r.Results[0]), c.Pos(r)
				break
			}
			st, w := fxLastFieldStore(cell, f, ld)
			if st != nil {
				if fxConstFalse(st.Val) == !fxFileConst[f] {
					why, pos = "last store before the return sets the constant", c.Pos(st)
					continue
				}
				status, pos = Violated, c.Pos(st)
				why = fmt.Sprintf("cell %s: assigned from %s, expected the constant %v — %s", f, valueLabel(st.Val), fxFileConst[f], fxFileConstWhy[f])
				break
			}
			// never assigned: the zero value of a fresh literal, unless the struct was copied from somewhere
			whole := ""
			for _, ref := range *cell.Referrers() {
				if s, ok := ref.(*ssa.Store); ok && s.Addr == cell {
					whole = valueLabel(s.Val)
				}
			}
			if whole == "" && w == "" && !fxFileConst[f] {
				why = "never assigned in a freshly built struct: the zero value"
				continue
			}
			status, pos = Violated, c.Pos(r)
			if whole != "" {
				why = fmt.Sprintf("cell %s: the options are a copy of %s and %s is not reset%s: every table file is written with the session's %s — %s", f, whole, f, w, f, fxFileConstWhy[f])
			} else {
				why = fmt.Sprintf("cell %s: not the constant %v%s — %s", f, fxFileConst[f], w, fxFileConstWhy[f])
			}
			break
		}
		switch status {
		case Discharged:
			c.OkN(key, pos, why, 1)
		case Violated:
			c.Bad(key, pos, why)
		default:
			c.Unknown(key, pos, why)
		}
	}
}

// fxFileEncoders: the lib/query functions reachable from EncodeView that encode one of the six file formats
// (the text-table encoder — whatever reaches go-text/table.NewEncoder — writes for the eye and has no loader).
func fxFileEncoders(c *Ctx) []*ssa.Function {
	root := c.P.Func(fxEncodeView)
	if root == nil {
		return nil
	}
	isTable := func(f *ssa.Function) bool { return c.P.FnRef(f) == fxGoText+"/table.NewEncoder" }
	var out []*ssa.Function
	for f := range c.P.ReachSet(root) {
		if !c.P.InPkg(f, "lib/query") || f.Blocks == nil {
			continue
		}
		if f != root && c.P.FnReaches(f, isTable) {
			continue
		}
		out = append(out, f)
	}
	sortFuncs(c.P, out)
	return out
}

// fxCheckOptionTableComplete (R-FMT-2): every ExportOptions field the file-format encoders read is classified.
func fxCheckOptionTableComplete(c *Ctx) {
	reads := map[string]string{} // field → first position
	readers := map[string]string{}
	for _, fn := range fxFileEncoders(c) {
		for _, b := range fn.Blocks {
			for _, in := range b.Instrs {
				var x ssa.Value
				switch y := in.(type) {
				case *ssa.FieldAddr:
					x = y.X
				case *ssa.Field:
					x = y.X
				default:
					continue
				}
				if core.NamedOf(x.Type()) != "lib/option.ExportOptions" {
					continue
				}
				f := core.FieldName(in.(ssa.Value))
				if _, ok := reads[f]; !ok {
					reads[f] = c.Pos(in)
					readers[f] = c.P.Name(fn)
				}
			}
		}
	}
	if len(reads) == 0 {
		c.Unknown("option table: fields read by the file-format encoders", "-", "cannot-analyse: no function reachable from EncodeView reads a field of option.ExportOptions")
		return
	}
	var names []string
	for f := range reads {
		names = append(names, f)
	}
	sort.Strings(names)
	for _, f := range names {
		key := "option table: ExportOptions." + f + " read by the file-format encoders is classified"
		switch {
		case fxIsDialectField(f):
			c.Ok(key, reads[f], "dialect field: copied from FileInfo."+fxInName(f)+" (read in "+readers[f]+")")
		case func() bool { _, ok := fxFileConst[f]; return ok }():
			c.Ok(key, reads[f], fmt.Sprintf("presentation field: the constant %v for files (read in %s)", fxFileConst[f], readers[f]))
		case fxSessionValueFields[f] != "":
			c.Ok(key, reads[f], "session-level value-spelling switch: "+fxSessionValueFields[f])
		default:
			c.Bad(key, reads[f], fmt.Sprintf("%s reads options.%s while encoding a file format, but the field is neither one of the dialect fields that (*FileInfo).ExportOptions copies from the file, nor a field that is constant for files, nor a listed session-level switch: a table file is written under whatever the session's %s happens to be and may not read back the same", readers[f], f, f))
		}
	}
}

// ---------------------------------------------------------------------------
// R-FMT-11

func ruleFmt11(c *Ctx) {
	if c.Fn(fxEncodeView) == nil || c.Fn("lib/query.(*Session).OutFile") == nil {
		return
	}
	start := len(c.Obs)
	defer func() { c.negControls(start, "okOutFileHelperColorOff") }()
	perFn := map[*ssa.Function]int{}
	for _, fn := range c.P.FuncsIn(true, "lib/query") {
		if c.P.IsControl(fn) && !strings.Contains(fn.Name(), "OutFile") {
			continue
		}
		for _, call := range c.P.CallsNamed(fn, fxEncodeView) {
			args := call.Common().Args
			if len(args) < 4 {
				continue
			}
			// (a result encoded into a local buffer first reaches the streams the buffer is written to)
			streams, _ := fxBufferedWriters(c, fn, args[1])
			// the stream may be a parameter of a private helper: it is what each caller hands over,
			// and each calling context is judged in the function that decides the writer
			var ctxs []fxCtxVal
			for _, w := range streams {
				for _, x := range fxLift(c, w, fn, 3) {
					dup := false
					for _, y := range ctxs {
						if y.V == x.V && y.Fn == x.Fn && len(y.Chain) == len(x.Chain) && (len(x.Chain) == 0 || x.Chain[0] == y.Chain[0]) {
							dup = true
						}
					}
					if !dup {
						ctxs = append(ctxs, x)
					}
				}
			}
			for _, ctx := range ctxs {
				var takes []*ssa.Call // the OutFile() calls whose result becomes the writer
				for _, o := range core.Origins(ctx.V, true) {
					if oc, _ := fxCallOf(o); oc != nil && c.P.CalleeName(oc) == "lib/query.(*Session).OutFile" {
						takes = append(takes, oc)
					}
				}
				if len(takes) == 0 {
					continue
				}
				host := ctx.Fn
				c.Sites++
				c.Touch(fn)
				c.Touch(host)
				perFn[host]++
				key := c.KeyAt(host, fmt.Sprintf("EncodeView into the --out file #%d: Color off", perFn[host]))
				// the options as far up the same calls as they are handed down
				opts, lvl := fxMapUp(ctx.Chain, args[3], len(ctx.Chain))
				// the instruction that stands for the encode in the function that holds the options
				in := call.(ssa.Instruction)
				if lvl < len(ctx.Chain) {
					in = ctx.Chain[lvl].(ssa.Instruction)
				}
				ld, ok := opts.(*ssa.UnOp)
				var cell *ssa.Alloc
				if ok {
					cell, _ = ld.X.(*ssa.Alloc)
				}
				if cell == nil || !types.Identical(cell.Type().Underlying().(*types.Pointer).Elem(), opts.Type()) {
					c.Bad(key, c.Pos(in), fmt.Sprintf("the options argument is %s, not a local copy in which Color is switched off: the result set goes to the --out file with the session's Color — %s", valueLabel(opts), fxFileConstWhy["Color"]))
					continue
				}
				var stores []*ssa.Store
				for _, r := range *cell.Referrers() {
					fa, ok := r.(*ssa.FieldAddr)
					if !ok || core.FieldName(fa) != "Color" {
						continue
					}
					for _, rr := range *fa.Referrers() {
						if st, ok := rr.(*ssa.Store); ok && st.Addr == fa {
							stores = append(stores, st)
						}
					}
				}
				bad := ""
				for _, st := range stores {
					if !fxConstFalse(st.Val) {
						bad = fmt.Sprintf("%s is stored into the options' Color at %s", valueLabel(st.Val), c.Pos(st))
					}
				}
				isOff := func(i ssa.Instruction) bool {
					st, ok := i.(*ssa.Store)
					if !ok {
						return false
					}
					for _, s := range stores {
						if s == st {
							return true
						}
					}
					return false
				}
				for _, take := range takes {
					if bad != "" {
						break
					}
					ok := false
					if lvl == 0 {
						for _, st := range stores {
							if st.Block() == take.Block() || core.Dominates(st, take) {
								ok = true
							}
						}
						if !ok && len(stores) > 0 && !core.Reachable(take, in, isOff) {
							ok = true
						}
					} else {
						// the options are a local of a helper below the function that takes the out file:
						// Color has to be off whatever the writer is
						for _, st := range stores {
							if core.Dominates(st, in) {
								ok = true
							}
						}
					}
					if !ok {
						bad = fmt.Sprintf("on the path that takes the out file as writer (%s) nothing sets the options' Color to false before the call", c.Pos(take))
					}
				}
				if bad != "" {
					c.Bad(key, c.Pos(in), bad+": the result set is written to the --out file with the session's Color — "+fxFileConstWhy["Color"])
				} else {
					c.Ok(key, c.Pos(in), fmt.Sprintf("Color is set to false on every path on which the writer is the out file (%d store(s), all constant false)", len(stores)))
				}
			}
		}
	}
}
