package rules

import (
	"fmt"
	"go/token"
	"go/types"
	"sort"
	"strings"

	"golang.org/x/tools/go/ssa"

	"verif/checker/core"
)

// C08 — a failing statement leaves every table as it was. Mechanism in csvq:
// copy-on-read (accessors hand out copies of the cached views, the cached
// objects themselves are never written) + publish-last (a statement stores the
// modified copy back only after its last fallible step).
//
//	R-ISO-1  raw cached views are never mutated; a FileInfo that may be shared with a cached table is written only by sanctioned writers
//	R-ISO-2  accessors hand out copies
//	R-ISO-3  copy depth of View.Copy / Header.Copy / RecordSet.Copy / Record.Copy
//	R-ISO-4  cells are immutable
//	R-ISO-5  publish last
//	R-ISO-6  CREATE TABLE cleanup

func init() {
	Register(&Rule{ID: "R-ISO-1", Props: []string{"C08", "C14", "C16", "C20"}, Floor: 60,
		Doc: "(a) forward taint from every raw read of a view container (type assertion interface{}→*View on sync.Map contents, (ViewMap).Load/LoadDirect and every function that returns such a value, Range callbacks): the raw view, its Header/RecordSet/records are never stored through, appended to, passed to a callee whose bottom-up summary mutates that parameter, or stored into memory other than a view container; " +
			"(b) every store to a field of query.FileInfo (directly or via a callee that writes its FileInfo/view parameter) writes an object that is provably private: allocated by this function, obtained from a FileInfo constructor, reached through a view whose FileInfo field this function assigned from such a value, or guarded by IsUpdatable()==false (kinds that are never cached) — View.Copy shares the FileInfo pointer with the cache, so any other write changes the cached table",
		Controls: []string{"CtlMutateRawView", "CtlMutateRawViaCallee", "CtlRawViewEscapes", "CtlSharedFileInfoWrite", "CtlFileInfoWriteAfterReassign", "CtlWriteAfterMixedLoader:", "CtlWriteAfterMixedLoaderPlain"},
		Run:      ruleIso1})
	Register(&Rule{ID: "R-ISO-2", Props: []string{"C08", "C20", "C03", "C14"}, Floor: 13,
		Doc:      "every *View returned by ViewMap.Get, ViewMap.GetWithInternalId, InlineTableMap.Get, Session.GetStdinView (and GetTemporaryTable*/GetInlineTable built on them) is nil or the result of (*View).Copy (possibly through another such accessor); every element read of an InlineTableMap and every read of ReferenceScope.RecursiveTmpView is used only as the receiver of Copy, in a nil test, or to hand the same reference to a child scope",
		Controls: []string{"CtlAccessorReturnsRaw", "CtlInlineTableRaw", "CtlRecursiveTmpViewRaw"},
		Run:      ruleIso2})
	Register(&Rule{ID: "R-ISO-3", Props: []string{"C08", "C14", "C16", "C20"}, Floor: 4,
		Doc:      "View.Copy returns a new View whose Header and RecordSet are results of Header.Copy / RecordSet.Copy of the receiver's fields; Header.Copy, RecordSet.Copy, Record.Copy return a slice made in the call; every element RecordSet.Copy stores is a Record.Copy result (records are not shared between a cached view and its copies)",
		Controls: []string{"CtlShallowRecordSetCopy", "CtlCopyReturnsReceiver"},
		Run:      ruleIso3})
	Register(&Rule{ID: "R-ISO-4", Props: []string{"C08", "C14", "C16", "C20", "C05"}, Floor: 3,
		Doc:      "no store into an element of a query.Cell, no append to / copy into / in-place sort of one, and no call handing one to a callee that writes its slice parameter, unless the cell was made in the same function (cells are shared between the cache, its copies, cursors and restore points)",
		Controls: []string{"CtlStoreIntoCell", "CtlStoreIntoCellViaCallee"},
		Run:      ruleIso4})
	Register(&Rule{ID: "R-ISO-5", Props: []string{"C08", "C01"}, Floor: 24,
		Doc:      "in every lib/query function that publishes a modified view (direct call of ViewMap.Set/Store, ReplaceTemporaryTable, SetTemporaryTable, or of a helper that does; the ten statement functions are frozen anchors) no return whose error may be non-nil is reachable after a publication call — cancellation returns (ConvertContextError(ctx.Err())) included: a library caller runs each statement under its own context, so a cancelled statement does not end the transaction. Error values are read edge-sensitively through Phi and result cells; the FileInfo attribute setters do not fail after their first field store and SetTableAttribute runs at most one setter per path. Single exemption with a checked side condition: results of RestoreHeaderReferences (Header.Update(_, nil) has no reachable non-nil return: the function is evaluated under fields==nil — nil tests, len/cap, comparisons and boolean combinations of them, whether written in the branch, hoisted into a local or merged by &&/|| — and only the surviving returns are read)",
		Controls: []string{"CtlPublishThenFail", "CtlPublishInLoopThenFail", "CtlCancelBetweenPublications", "CtlNilFieldsCanFail", "CtlNilFieldsGuardInverted"},
		Run:      ruleIso5})
	Register(&Rule{ID: "R-ISO-6", Props: []string{"C08", "C11"}, Floor: 1,
		Doc:      "in every lib/query function that calls Container.CreateHandlerForCreate, each return with a possibly non-nil error that is reachable from the success edge of that call is preceded on every path by a call reaching Container.Close on the new handler (a failed CREATE TABLE leaves neither lock files nor a cache entry)",
		Controls: []string{"CtlCreateNoCleanup", "CtlCreateCleanupClosureForgetsClose"},
		Run:      ruleIso6})
}

const queryPkg = core.ModPath + "/lib/query"

func isQueryNamed(t types.Type, names ...string) bool {
	if p, ok := t.(*types.Pointer); ok {
		t = p.Elem()
	}
	n, ok := t.(*types.Named)
	if !ok || n.Obj().Pkg() == nil || n.Obj().Pkg().Path() != queryPkg {
		return false
	}
	for _, x := range names {
		if n.Obj().Name() == x {
			return true
		}
	}
	return false
}

func isViewPtr(t types.Type) bool {
	p, ok := t.(*types.Pointer)
	return ok && isQueryNamed(p.Elem(), "View") && !isPtr(p.Elem())
}

func isPtr(t types.Type) bool { _, ok := t.(*types.Pointer); return ok }

func isEmptyInterface(t types.Type) bool {
	i, ok := t.Underlying().(*types.Interface)
	return ok && i.NumMethods() == 0
}

// ---------------------------------------------------------------------------
// Taint engine (DESIGN B.8 / E9d).
//
// Kinds: tkRaw = a reference into storage owned by the tainted object (storing
// through it changes that object); tkCarrier = a fresh object of this function
// that holds raw references (storing into it is harmless, reference-typed
// loads from it are raw again).

type tk uint8

const (
	tkNone tk = iota
	tkCarrier
	tkRaw
)

type tSink struct {
	in     ssa.Instruction
	what   string
	callee *ssa.Function
}

type tSummary struct {
	mut *tSink // first mutation through the parameter
	esc *tSink // first escape of the parameter into foreign memory
	rec *tSink // first in-place write of an element of a query.Record reached through the parameter
	ret map[int]tk
}

func (s *tSummary) sig() string {
	x := ""
	if s.mut != nil {
		x += "M"
	}
	if s.esc != nil {
		x += "E"
	}
	if s.rec != nil {
		x += "R"
	}
	var ks []int
	for k := range s.ret {
		ks = append(ks, k)
	}
	sort.Ints(ks)
	for _, k := range ks {
		x += fmt.Sprintf("r%d:%d", k, s.ret[k])
	}
	return x
}

type sumKey struct {
	f *ssa.Function
	j int
}

type taintEngine struct {
	p      *core.Prog
	sums   map[sumKey]*tSummary
	order  []sumKey
	srcRet map[*ssa.Function]map[int]tk // functions returning raw views read from a container
	ready  bool
}

var taintCache = map[*core.Prog]*taintEngine{}

// followType: may a loaded / returned value of this type reference view storage?
func followType(t types.Type) bool {
	return followTypeN(t, 0)
}

func followTypeN(t types.Type, depth int) bool {
	if depth > 6 {
		return false
	}
	if n, ok := t.(*types.Named); ok {
		if n.Obj().Pkg() == nil {
			return false
		}
		if n.Obj().Pkg().Path() != queryPkg {
			return false // value.*, parser.*, file.*, option.*, sync.* … are not view storage
		}
		switch n.Obj().Name() {
		case "Cell", "FileInfo", "HeaderField":
			return false // cells are immutable leaves (R-ISO-4); FileInfo is handled by clause (b); HeaderField values are copies
		case "View", "Header", "RecordSet", "Record":
			return true
		}
		if _, isStruct := n.Underlying().(*types.Struct); isStruct {
			return false
		}
	}
	switch u := t.Underlying().(type) {
	case *types.Pointer:
		if isQueryNamed(u.Elem(), "FileInfo") {
			return false
		}
		if n, ok := u.Elem().(*types.Named); ok && isQueryNamed(n, "View", "HeaderField", "Header", "RecordSet", "Record") {
			return true
		}
		return followTypeN(u.Elem(), depth+1)
	case *types.Slice:
		if b, ok := u.Elem().Underlying().(*types.Basic); ok {
			_ = b
			return true // []int, []string … fields of a View
		}
		return followTypeN(u.Elem(), depth+1) || isElemStructOfQuery(u.Elem())
	case *types.Array:
		return followTypeN(u.Elem(), depth+1)
	case *types.Map:
		return followTypeN(u.Elem(), depth+1)
	case *types.Interface:
		return u.NumMethods() == 0
	}
	return false
}

func isElemStructOfQuery(t types.Type) bool {
	return isQueryNamed(t, "HeaderField") && !isPtr(t)
}

func isViewFileInfoField(x ssa.Value, field int) bool {
	st := derefStructT(x.Type())
	if st == nil || !isQueryNamed(x.Type(), "View") {
		return false
	}
	return st.Field(field).Name() == "FileInfo"
}

func derefStructT(t types.Type) *types.Struct {
	if p, ok := t.Underlying().(*types.Pointer); ok {
		t = p.Elem()
	}
	st, _ := t.Underlying().(*types.Struct)
	return st
}

// isFreshViewMap: the ViewMap value was created by NewViewMap in this function
// (or, for a captured variable, in the enclosing one): a private listing whose
// reads are taint sources again.
func isFreshViewMap(p *core.Prog, v ssa.Value) bool {
	seen := map[ssa.Value]bool{}
	ok := true
	n := 0
	var walk func(v ssa.Value)
	walk = func(v ssa.Value) {
		if v == nil || seen[v] || !ok {
			return
		}
		seen[v] = true
		switch x := v.(type) {
		case *ssa.Call:
			if p.CalleeName(x) == "lib/query.NewViewMap" {
				n++
			} else {
				ok = false
			}
		case *ssa.Phi:
			for _, e := range x.Edges {
				walk(e)
			}
		case *ssa.UnOp:
			if x.Op != token.MUL {
				ok = false
				return
			}
			switch c := x.X.(type) {
			case *ssa.Alloc, *ssa.FreeVar:
				vals, complete := core.StoresTo(rootCellOf(c))
				if !complete || len(vals) == 0 {
					ok = false
					return
				}
				for _, s := range vals {
					walk(s)
				}
			default:
				ok = false
			}
		default:
			ok = false
		}
	}
	walk(v)
	return ok && n > 0
}

// external functions that only read their arguments
func isExternalReader(name string) bool {
	return core.HasPrefixAny(name, "fmt.", "strings.", "strconv.", "errors.", "unicode", "(*sync.Mutex", "(*sync.RWMutex", "(*sync.WaitGroup", "context.", "reflect.DeepEqual", "(*strings.", "(*bytes.Buffer).Write", "math.", "time.", "os.", "io.", "path/filepath.", "(*os.File).")
}

type taintRun struct {
	e     *taintEngine
	vals  map[ssa.Value]tk
	cells map[ssa.Value]tk
	work  []ssa.Value
	muts  []tSink
	escs  []tSink
	recs  []tSink // in-place writes of Record elements (subset of muts, kept separately)
	seenR map[ssa.Instruction]bool
	rets  map[int]tk
	home  *ssa.Function
	seenS map[ssa.Instruction]bool
}

func (e *taintEngine) newRun(home *ssa.Function) *taintRun {
	return &taintRun{e: e, vals: map[ssa.Value]tk{}, cells: map[ssa.Value]tk{}, rets: map[int]tk{}, home: home, seenS: map[ssa.Instruction]bool{}, seenR: map[ssa.Instruction]bool{}}
}

func (r *taintRun) push(v ssa.Value, k tk) {
	if v == nil || k == tkNone {
		return
	}
	if r.vals[v] >= k {
		return
	}
	r.vals[v] = k
	r.work = append(r.work, v)
}

func (r *taintRun) mut(in ssa.Instruction, what string, callee *ssa.Function) {
	if r.seenS[in] {
		return
	}
	r.seenS[in] = true
	r.muts = append(r.muts, tSink{in, what, callee})
}

// recWrite notes that an element of a query.Record belonging to the tainted
// object is (or, for append within capacity, may be) written in place.
func (r *taintRun) recWrite(in ssa.Instruction, what string, callee *ssa.Function) {
	if r.seenR[in] {
		return
	}
	r.seenR[in] = true
	r.recs = append(r.recs, tSink{in, what, callee})
}

func isRecordSlice(t types.Type) bool {
	return isQueryNamed(t, "Record") && !isPtr(t)
}

func (r *taintRun) esc(in ssa.Instruction, what string, callee *ssa.Function) {
	if r.seenS[in] {
		return
	}
	r.seenS[in] = true
	r.escs = append(r.escs, tSink{in, what, callee})
}

// markCell taints a local variable cell (Alloc or FreeVar) with kind k: its
// loads carry k, closures capturing it see the same cell.
func (r *taintRun) markCell(c ssa.Value, k tk) {
	c = rootCellOf(c)
	if r.cells[c] >= k {
		return
	}
	r.cells[c] = k
	var visit func(c ssa.Value)
	seen := map[ssa.Value]bool{}
	visit = func(c ssa.Value) {
		if seen[c] {
			return
		}
		seen[c] = true
		refs := c.Referrers()
		if refs == nil {
			return
		}
		for _, x := range *refs {
			switch y := x.(type) {
			case *ssa.UnOp:
				if y.Op == token.MUL && y.X == c {
					if followType(y.Type()) {
						r.push(y, k)
					}
				}
			case *ssa.FieldAddr:
				if y.X == c && !isViewFileInfoField(y.X, y.Field) {
					r.push(y, tkCarrier) // address inside a local struct variable holding raw references
				}
			case *ssa.IndexAddr:
				if y.X == c {
					r.push(y, tkCarrier)
				}
			case *ssa.MakeClosure:
				fn, _ := y.Fn.(*ssa.Function)
				for i, b := range y.Bindings {
					if b == c && fn != nil && i < len(fn.FreeVars) {
						visit(fn.FreeVars[i])
					}
				}
			case ssa.CallInstruction:
				for _, a := range y.Common().Args {
					if a == c {
						r.esc(y, "the address of a variable holding it is passed to "+callDesc(r.e.p, y), nil)
					}
				}
			}
		}
	}
	visit(c)
}

// rootCellOf maps a FreeVar to the cell it is bound to in the enclosing function.
func rootCellOf(c ssa.Value) ssa.Value {
	for {
		fv, ok := c.(*ssa.FreeVar)
		if !ok {
			return c
		}
		fn := fv.Parent()
		parent := fn.Parent()
		if parent == nil {
			return c
		}
		idx := -1
		for i, x := range fn.FreeVars {
			if x == fv {
				idx = i
			}
		}
		var bound ssa.Value
		for _, b := range parent.Blocks {
			for _, in := range b.Instrs {
				if mc, ok := in.(*ssa.MakeClosure); ok && mc.Fn == fn && idx >= 0 && idx < len(mc.Bindings) {
					bound = mc.Bindings[idx]
				}
			}
		}
		if bound == nil {
			return c
		}
		c = bound
	}
}

// storeRoot walks an address back to the object it lies in.
func storeRoots(addr ssa.Value) []ssa.Value {
	var out []ssa.Value
	seen := map[ssa.Value]bool{}
	var walk func(v ssa.Value)
	walk = func(v ssa.Value) {
		if v == nil || seen[v] {
			return
		}
		seen[v] = true
		switch x := v.(type) {
		case *ssa.FieldAddr:
			walk(x.X)
		case *ssa.IndexAddr:
			walk(x.X)
		case *ssa.Slice:
			walk(x.X)
		case *ssa.ChangeType:
			walk(x.X)
		case *ssa.Phi:
			for _, e := range x.Edges {
				walk(e)
			}
		case *ssa.UnOp:
			if x.Op == token.MUL {
				switch c := x.X.(type) {
				case *ssa.Alloc:
					// a local variable holding a reference: the objects stored into it
					vals, complete := core.StoresTo(c)
					if complete && len(vals) > 0 {
						for _, s := range vals {
							walk(s)
						}
						return
					}
					out = append(out, v)
				case *ssa.FieldAddr, *ssa.IndexAddr:
					walk(c) // object reachable from the enclosing object
				default:
					out = append(out, v)
				}
				return
			}
			out = append(out, v)
		default:
			out = append(out, v)
		}
	}
	walk(addr)
	return out
}

func isFreshRoot(v ssa.Value) bool {
	switch x := v.(type) {
	case *ssa.Alloc, *ssa.MakeSlice, *ssa.MakeMap, *ssa.Call:
		return true
	case *ssa.Extract:
		_, ok := x.Tuple.(*ssa.Call)
		return ok
	case *ssa.Const:
		return true
	}
	return false
}

func (r *taintRun) run() {
	for len(r.work) > 0 {
		v := r.work[len(r.work)-1]
		r.work = r.work[:len(r.work)-1]
		k := r.vals[v]
		refs := v.Referrers()
		if refs == nil {
			continue
		}
		for _, u := range *refs {
			r.use(v, k, u)
		}
	}
}

// loadKind: kind of a reference loaded through an address of kind k.
func loadKind(k tk) tk {
	if k == tkNone {
		return tkNone
	}
	return tkRaw
}

func (r *taintRun) use(v ssa.Value, k tk, u ssa.Instruction) {
	p := r.e.p
	switch x := u.(type) {
	case *ssa.Phi:
		r.push(x, k)
	case *ssa.ChangeType:
		r.push(x, k)
	case *ssa.ChangeInterface:
		r.push(x, k)
	case *ssa.MakeInterface:
		r.push(x, k)
	case *ssa.Convert:
		if followType(x.Type()) {
			r.push(x, k)
		}
	case *ssa.Slice:
		if x.X == v {
			r.push(x, k)
		}
	case *ssa.TypeAssert:
		if !followType(x.AssertedType) {
			return
		}
		if x.CommaOk {
			for _, rr := range *x.Referrers() {
				if e, ok := rr.(*ssa.Extract); ok && e.Index == 0 {
					r.push(e, k)
				}
			}
		} else {
			r.push(x, k)
		}
	case *ssa.FieldAddr:
		if x.X == v && !isViewFileInfoField(x.X, x.Field) {
			r.push(x, k)
		}
	case *ssa.IndexAddr:
		if x.X == v {
			r.push(x, k)
		}
	case *ssa.Field:
		if x.X == v && !isViewFileInfoField(x.X, x.Field) && followType(x.Type()) {
			r.push(x, loadKind(k))
		}
	case *ssa.Index:
		if x.X == v && followType(x.Type()) {
			r.push(x, loadKind(k))
		}
	case *ssa.Lookup:
		if x.X == v && followType(x.Type()) || x.X == v && x.CommaOk {
			if x.CommaOk {
				for _, rr := range *x.Referrers() {
					if e, ok := rr.(*ssa.Extract); ok && e.Index == 0 && followType(e.Type()) {
						r.push(e, tkRaw)
					}
				}
			} else {
				r.push(x, tkRaw)
			}
		}
	case *ssa.Range:
		if x.X == v {
			for _, rr := range *x.Referrers() {
				if nx, ok := rr.(*ssa.Next); ok {
					for _, r3 := range *nx.Referrers() {
						if e, ok := r3.(*ssa.Extract); ok && e.Index == 2 && followType(e.Type()) {
							r.push(e, tkRaw)
						}
					}
				}
			}
		}
	case *ssa.UnOp:
		if x.Op != token.MUL || x.X != v {
			return
		}
		// v is an address (field/element of the object) or a pointer to a struct
		if followType(x.Type()) {
			switch v.(type) {
			case *ssa.FieldAddr, *ssa.IndexAddr:
				r.push(x, loadKind(k))
			default:
				r.push(x, k) // *view: a struct copy sharing the slices
			}
		}
	case *ssa.Store:
		if x.Addr == v {
			if k == tkRaw {
				r.mut(x, "store to "+addrDesc(x.Addr), nil)
				if ia, ok := v.(*ssa.IndexAddr); ok && isRecordSlice(ia.X.Type()) {
					r.recWrite(x, "store into an element of a record", nil)
				}
			}
			return
		}
		if x.Val != v {
			return
		}
		switch a := x.Addr.(type) {
		case *ssa.Alloc:
			r.markCell(a, k)
			return
		case *ssa.FreeVar:
			r.markCell(a, k)
			return
		}
		roots := storeRoots(x.Addr)
		allFresh := len(roots) > 0
		for _, rt := range roots {
			if r.vals[rt] != tkNone {
				continue // into the tainted object itself (flagged through Addr) or an existing carrier
			}
			if !isFreshRoot(rt) {
				allFresh = false
			}
		}
		if allFresh {
			for _, rt := range roots {
				if r.vals[rt] == tkNone {
					if _, isConst := rt.(*ssa.Const); !isConst {
						r.push(rt, tkCarrier)
					}
				}
			}
		} else {
			r.esc(x, "stored into "+addrDesc(x.Addr), nil)
		}
	case *ssa.MapUpdate:
		if x.Map == v {
			if k == tkRaw {
				r.mut(x, "map update", nil)
			}
			return
		}
		if x.Value == v {
			ok := true
			for _, rt := range storeRoots(x.Map) {
				if r.vals[rt] == tkNone && !isFreshRoot(rt) {
					ok = false
				}
			}
			if ok {
				for _, rt := range storeRoots(x.Map) {
					if r.vals[rt] == tkNone {
						r.push(rt, tkCarrier)
					}
				}
			} else {
				r.esc(x, "stored into a map that is not local", nil)
			}
		}
	case *ssa.Send:
		if x.X == v {
			r.esc(x, "sent on a channel", nil)
		}
	case *ssa.Return:
		for i, res := range x.Results {
			if res == v && x.Parent() == r.home {
				if r.rets[i] < k {
					r.rets[i] = k
				}
			}
		}
	case ssa.CallInstruction:
		r.call(v, k, x)
	}
	_ = p
}

func (r *taintRun) call(v ssa.Value, k tk, c ssa.CallInstruction) {
	p := r.e.p
	com := c.Common()
	in := c.(ssa.Instruction)
	if bi, ok := com.Value.(*ssa.Builtin); ok {
		switch bi.Name() {
		case "append":
			if len(com.Args) > 0 && com.Args[0] == v {
				if k == tkRaw {
					r.mut(in, "append to a slice of the object (may write its backing array)", nil)
					if isRecordSlice(v.Type()) {
						r.recWrite(in, "append to a record (writes its backing array within capacity)", nil)
					}
				}
				if cv, ok := c.(ssa.Value); ok {
					r.push(cv, k)
				}
			} else if cv, ok := c.(ssa.Value); ok {
				if sl, ok := v.Type().Underlying().(*types.Slice); ok && followType(sl.Elem()) {
					r.push(cv, tkCarrier)
				}
			}
		case "copy":
			if len(com.Args) == 2 && com.Args[0] == v && k == tkRaw {
				r.mut(in, "copy into a slice of the object", nil)
				if isRecordSlice(v.Type()) {
					r.recWrite(in, "copy into a record", nil)
				}
			}
			if len(com.Args) == 2 && com.Args[1] == v {
				if sl, ok := v.Type().Underlying().(*types.Slice); ok && followType(sl.Elem()) {
					for _, rt := range storeRoots(com.Args[0]) {
						if r.vals[rt] == tkNone {
							if isFreshRoot(rt) {
								r.push(rt, tkCarrier)
							} else {
								r.esc(in, "copied into foreign memory", nil)
							}
						}
					}
				}
			}
		case "delete":
			if len(com.Args) > 0 && com.Args[0] == v && k == tkRaw {
				r.mut(in, "delete from a map of the object", nil)
			}
		}
		return
	}
	name := p.CalleeName(c)
	if name == "lib/query.(ViewMap).Store" && len(com.Args) == 3 && com.Args[2] == v && isFreshViewMap(p, com.Args[0]) {
		return // listing: the view is filed in a view container this function created itself
	}
	callees := p.Callees(c)
	// positions of v among the callee's parameters
	var pos []int
	off := 0
	if com.IsInvoke() {
		off = 1
		if com.Value == v {
			pos = append(pos, 0)
		}
	}
	for i, a := range com.Args {
		if a == v {
			pos = append(pos, i+off)
		}
	}
	if len(pos) == 0 {
		return // v is the function value itself
	}
	resolved := false
	for _, f := range callees {
		if f == nil || f.Blocks == nil || !inModule(f) {
			continue // library code is not summarised: classified by name below
		}
		resolved = true
		for _, j := range pos {
			if j >= len(f.Params) {
				continue
			}
			s := r.e.summary(f, j)
			if s.mut != nil {
				// for a carrier the callee's store may hit the fresh shell only; without a
				// depth notion the conservative answer is "mutates"
				r.mut(in, fmt.Sprintf("passed to %s, which changes it (%s at %s)", p.FnRef(f), s.mut.what, p.InstrPos(s.mut.in)), f)
			}
			if s.rec != nil && k == tkRaw {
				r.recWrite(in, fmt.Sprintf("passed to %s, which writes record elements in place (%s at %s)", p.FnRef(f), s.rec.what, p.InstrPos(s.rec.in)), f)
			}
			if s.esc != nil {
				r.esc(in, fmt.Sprintf("passed to %s, which keeps it (%s at %s)", p.FnRef(f), s.esc.what, p.InstrPos(s.esc.in)), f)
			}
			for i, rk := range s.ret {
				if k == tkCarrier && rk == tkRaw {
					rk = tkCarrier
				}
				r.pushResult(c, i, rk)
			}
		}
	}
	if !resolved {
		if strings.HasPrefix(name, "sort.") {
			r.mut(in, "sorted in place by "+name, nil)
			return
		}
		if name != "" && isExternalReader(name) {
			return
		}
		if _, isDefer := c.(*ssa.Defer); isDefer && name == "" {
			return
		}
		if name == "" {
			name = "an unresolved dynamic callee"
		}
		r.esc(in, "passed to "+name+" (no body to summarise)", nil)
	}
}

func (r *taintRun) pushResult(c ssa.CallInstruction, i int, k tk) {
	cv, ok := c.(*ssa.Call)
	if !ok {
		return
	}
	if cv.Common().Signature().Results().Len() == 1 {
		if i == 0 {
			r.push(cv, k)
		}
		return
	}
	for _, rr := range *cv.Referrers() {
		if e, ok := rr.(*ssa.Extract); ok && e.Index == i {
			r.push(e, k)
		}
	}
}

// privateHelpersOf: static callees of root, up to `depth` levels down, that are
// called from nowhere else (every call-graph caller is root or another such
// helper). Code moved out of root into such a function is still "part of root"
// for the single-symbol exceptions of the rules.
func privateHelpersOf(p *core.Prog, root *ssa.Function, depth int) map[*ssa.Function]bool {
	out := map[*ssa.Function]bool{}
	if root == nil {
		return out
	}
	level := []*ssa.Function{root}
	for d := 0; d < depth; d++ {
		var next []*ssa.Function
		for _, f := range level {
			for _, call := range core.Calls(f) {
				g := core.StaticCallee(call)
				if g == nil || g == root || out[g] || !inModule(g) || g.Blocks == nil {
					continue
				}
				private := true
				for _, e := range p.RealCallers(g) {
					if cf := e.Caller.Func; cf != root && !out[cf] && cf != f {
						private = false
					}
				}
				if private {
					out[g] = true
					next = append(next, g)
				}
			}
		}
		level = next
	}
	return out
}

// exceptionOwner: the named exception fn falls under — its own name, or the name of
// the exception function it is a private helper of.
func exceptionOwner(p *core.Prog, fn *ssa.Function, names []string) string {
	n := p.Name(fn)
	for _, x := range names {
		if x == n {
			return x
		}
	}
	for _, x := range names {
		if privateHelpersOf(p, p.Func(x), 2)[fn] {
			return x
		}
	}
	return ""
}

// inModule: f belongs to csvq (or the control package), not to a dependency.
func inModule(f *ssa.Function) bool {
	pk := core.FnPkg(f)
	if pk == nil {
		return false
	}
	path := pk.Pkg.Path()
	return path == core.ModPath || strings.HasPrefix(path, core.ModPath+"/")
}

// summary returns the current parameter summary of (f, j); a missing entry is
// created empty and filled by the fixpoint loop.
func (e *taintEngine) summary(f *ssa.Function, j int) *tSummary {
	key := sumKey{f, j}
	if s, ok := e.sums[key]; ok {
		return s
	}
	s := &tSummary{ret: map[int]tk{}}
	e.sums[key] = s
	e.order = append(e.order, key)
	e.ready = false
	return s
}

func (e *taintEngine) computeSummary(key sumKey) *tSummary {
	f, j := key.f, key.j
	s := &tSummary{ret: map[int]tk{}}
	if j >= len(f.Params) || f.Blocks == nil {
		return s
	}
	prm := f.Params[j]
	if !followType(prm.Type()) {
		return s
	}
	r := e.newRun(f)
	r.push(prm, tkRaw)
	r.run()
	if len(r.muts) > 0 {
		m := r.muts[0]
		s.mut = &m
	}
	if len(r.escs) > 0 {
		x := r.escs[0]
		s.esc = &x
	}
	if len(r.recs) > 0 {
		x := r.recs[0]
		s.rec = &x
	}
	for i, k := range r.rets {
		s.ret[i] = k
	}
	return s
}

// settle iterates the demanded summaries to a fixpoint.
func (e *taintEngine) settle() {
	for rounds := 0; rounds < 50; rounds++ {
		changed := false
		for i := 0; i < len(e.order); i++ {
			key := e.order[i]
			old := e.sums[key]
			nw := e.computeSummary(key)
			if nw.sig() != old.sig() {
				*old = *nw
				changed = true
			}
		}
		if !changed {
			break
		}
	}
	e.ready = true
}

// analyse runs the propagation from the given seeds of function home to a
// fixpoint of the callee summaries it needs.
func (e *taintEngine) analyse(home *ssa.Function, seeds map[ssa.Value]tk) *taintRun {
	for {
		n := len(e.order)
		r := e.newRun(home)
		for v, k := range seeds {
			r.push(v, k)
		}
		r.run()
		if len(e.order) == n && e.ready {
			return r
		}
		e.settle()
	}
}

func engineFor(p *core.Prog) *taintEngine {
	if e, ok := taintCache[p]; ok {
		return e
	}
	e := &taintEngine{p: p, sums: map[sumKey]*tSummary{}, srcRet: map[*ssa.Function]map[int]tk{}, ready: true}
	taintCache[p] = e
	// functions that return raw container contents (fixpoint)
	for rounds := 0; rounds < 10; rounds++ {
		changed := false
		for _, fn := range p.SrcFuncs() {
			seeds := e.rawSeeds(fn)
			if len(seeds) == 0 {
				continue
			}
			sd := map[ssa.Value]tk{}
			for _, s := range seeds {
				sd[s.v] = s.k
			}
			r := e.analyse(fn, sd)
			for i, k := range r.rets {
				if e.srcRet[fn] == nil {
					e.srcRet[fn] = map[int]tk{}
				}
				if e.srcRet[fn][i] < k {
					e.srcRet[fn][i] = k
					changed = true
				}
			}
		}
		if !changed {
			break
		}
	}
	return e
}

type rawSeed struct {
	v    ssa.Value
	k    tk
	in   ssa.Instruction
	from string
}

// rawSeeds lists the raw-view sources located in fn itself: type assertions
// interface{}→*View (contents of a sync.Map) and calls of functions that
// return such values.
func (e *taintEngine) rawSeeds(fn *ssa.Function) []rawSeed {
	var out []rawSeed
	for _, b := range fn.Blocks {
		for _, in := range b.Instrs {
			switch x := in.(type) {
			case *ssa.TypeAssert:
				if isViewPtr(x.AssertedType) && isEmptyInterface(x.X.Type()) {
					var v ssa.Value = x
					if x.CommaOk {
						v = nil
						for _, rr := range *x.Referrers() {
							if ex, ok := rr.(*ssa.Extract); ok && ex.Index == 0 {
								v = ex
							}
						}
					}
					if v != nil {
						out = append(out, rawSeed{v, tkRaw, in, "container element asserted to *View"})
					}
				}
			case *ssa.Call:
				for _, f := range e.p.Callees(x) {
					rs := e.srcRet[f]
					for i, k := range rs {
						if x.Common().Signature().Results().Len() == 1 {
							if i == 0 {
								out = append(out, rawSeed{x, k, in, e.p.FnRef(f)})
							}
							continue
						}
						for _, rr := range *x.Referrers() {
							if ex, ok := rr.(*ssa.Extract); ok && ex.Index == i {
								out = append(out, rawSeed{ex, k, in, e.p.FnRef(f)})
							}
						}
					}
				}
			}
		}
	}
	sort.SliceStable(out, func(i, j int) bool { return out[i].in.Pos() < out[j].in.Pos() })
	return out
}

// ---------------------------------------------------------------------------
// R-ISO-1

// sanctioned in-place changes of a raw view (DESIGN C08): one symbol, one reason
var iso1Allowed = map[string]string{
	"lib/query.(*ReferenceScope).RestoreTemporaryTable$1 -> lib/query.(*View).Restore":          "ROLLBACK puts the committed snapshot back into the temporary table in place: the transaction-level undo, not a statement",
	"lib/query.(*ReferenceScope).StoreTemporaryTable$1 -> lib/query.(*View).CreateRestorePoint": "COMMIT snapshots the temporary table into its own FileInfo (restore point)",
}

func ruleIso1(c *Ctx) {
	e := engineFor(c.P)
	// (a) raw views
	for _, fn := range c.P.SrcFuncs() {
		seeds := e.rawSeeds(fn)
		if len(seeds) == 0 {
			continue
		}
		c.Touch(fn)
		for n, s := range seeds {
			c.Sites++
			key := c.KeyAt(fn, fmt.Sprintf("raw view #%d from %s", n+1, s.from))
			r := e.analyse(fn, map[ssa.Value]tk{s.v: s.k})
			var bad []string
			for _, m := range r.muts {
				if m.callee != nil {
					ak := c.P.Name(m.in.Parent()) + " -> " + c.P.FnRef(m.callee)
					if _, ok := iso1Allowed[ak]; ok {
						continue
					}
				}
				bad = append(bad, fmt.Sprintf("%s: %s", c.Pos(m.in), m.what))
			}
			for _, x := range r.escs {
				bad = append(bad, fmt.Sprintf("%s: the raw view (or part of it) leaves the container discipline: %s", c.Pos(x.in), x.what))
			}
			if len(bad) > 0 {
				sort.Strings(bad)
				c.Bad(key, c.Pos(s.in), "the object read here is the cached table itself, not a copy; it is changed or handed on: "+strings.Join(bad, "; ")+" — a statement that fails later (or a plain SELECT) leaves the table modified for the rest of the transaction")
			} else {
				c.Ok(key, c.Pos(s.in), fmt.Sprintf("%d derived references followed; only read, copied or kept inside a view container", len(r.vals)))
			}
		}
	}
	// (b) FileInfo shared with the cache
	iso1FileInfo(c)
}

// ---- (b) writers of FileInfo ------------------------------------------------

type fiSummary struct {
	fiParam   map[int]*fiWrite // *FileInfo parameter written
	viewParam map[int]*fiWrite // FileInfo of a *View parameter written
}

type fiEngine struct {
	p       *core.Prog
	sum     map[*ssa.Function]*fiSummary
	freshFI map[*ssa.Function]bool // result 0 is a FileInfo allocated by the callee (constructor)
	viewFI  map[*ssa.Function]int  // result 0 is a view whose FileInfo is: -2 unknown, -1 fresh, j>=0 parameter j
	solved  bool
}

var fiCache = map[*core.Prog]*fiEngine{}

const (
	fiUnknown = -2
	fiFresh   = -1
)

func isFileInfoPtr(t types.Type) bool {
	p, ok := t.(*types.Pointer)
	return ok && isQueryNamed(p.Elem(), "FileInfo") && !isPtr(p.Elem())
}

// fiProv classifies where a *FileInfo value comes from.
type fiProv struct {
	kind  string // fresh | param | viewparam | view | guarded | unknown
	index int
	why   string
}

func (fe *fiEngine) paramIndex(fn *ssa.Function, v ssa.Value) int {
	for i, x := range fn.Params {
		if x == v {
			return i
		}
	}
	return -1
}

// provenance of a FileInfo pointer value at instruction `at`
func (fe *fiEngine) prov(fn *ssa.Function, v ssa.Value, at ssa.Instruction) []fiProv {
	var out []fiProv
	for _, o := range core.Origins(v, false) {
		switch x := o.(type) {
		case *ssa.Alloc:
			out = append(out, fiProv{kind: "fresh", why: "allocated here"})
		case *ssa.Const:
			out = append(out, fiProv{kind: "fresh", why: "nil"})
		case *ssa.Parameter:
			out = append(out, fiProv{kind: "param", index: fe.paramIndex(fn, x)})
		case *ssa.Call, *ssa.Extract:
			call, idx, _ := core.ExtractOf(x)
			if call != nil && idx == 0 {
				if f := core.StaticCallee(call); f != nil && fe.freshFI[f] {
					out = append(out, fiProv{kind: "fresh", why: "constructor " + fe.p.FnRef(f)})
					continue
				}
			}
			out = append(out, fiProv{kind: "unknown", why: "result of " + describeValue(fe.p, x)})
		case *ssa.UnOp:
			fa, ok := x.X.(*ssa.FieldAddr)
			if x.Op == token.MUL && ok && isViewFileInfoField(fa.X, fa.Field) {
				out = append(out, fe.viewProv(fn, fa, x, at)...)
				continue
			}
			out = append(out, fiProv{kind: "unknown", why: "loaded from " + addrDesc(x.X)})
		default:
			out = append(out, fiProv{kind: "unknown", why: fmt.Sprintf("%T", o)})
		}
	}
	return out
}

// viewProv: the FileInfo is read from field FileInfo of view fa.X by load ld.
func (fe *fiEngine) viewProv(fn *ssa.Function, fa *ssa.FieldAddr, ld *ssa.UnOp, at ssa.Instruction) []fiProv {
	// 1. this function assigned the field from a private value, and that store dominates the read
	if st := fe.privateAssignment(fn, fa.X, ld); st != nil {
		return []fiProv{{kind: "fresh", why: "this function assigned the view's FileInfo from a private value at " + fe.p.InstrPos(st)}}
	}
	// 2. guarded: IsUpdatable() on the same FileInfo cell is false here
	if fe.guardedNotUpdatable(fa, at) {
		return []fiProv{{kind: "guarded", why: "dominated by IsUpdatable()==false on the same FileInfo: string objects and inline tables are never cached"}}
	}
	// 3. by the origin of the view
	var out []fiProv
	for _, o := range core.Origins(fa.X, false) {
		switch x := o.(type) {
		case *ssa.Parameter:
			if !isViewPtr(x.Type()) {
				// an interface{} parameter asserted to *View: a container element handed to a callback
				out = append(out, fiProv{kind: "view", why: "FileInfo of a view taken out of a container (parameter " + x.Name() + ")"})
				continue
			}
			out = append(out, fiProv{kind: "viewparam", index: fe.paramIndex(fn, x)})
		case *ssa.Alloc:
			out = append(out, fiProv{kind: "fresh", why: "view allocated here"})
		case *ssa.Const:
			// a nil view: nothing can be written through it
		case *ssa.Call, *ssa.Extract:
			call, idx, _ := core.ExtractOf(x)
			if call != nil && idx == 0 {
				if f := core.StaticCallee(call); f != nil {
					switch k, ok := fe.viewFI[f]; {
					case ok && k == fiFresh:
						out = append(out, fiProv{kind: "fresh", why: "view from " + fe.p.FnRef(f) + ", which builds its own FileInfo"})
						continue
					case ok && k >= 0 && k < len(call.Common().Args):
						out = append(out, fe.prov(fn, call.Common().Args[k], call)...)
						continue
					}
				}
			}
			out = append(out, fiProv{kind: "view", why: "FileInfo of the view that is " + valueLabel(x) + " (accessors return copies that share the FileInfo pointer with the cache)"})
		default:
			out = append(out, fiProv{kind: "view", why: "FileInfo of a view of unknown origin (" + valueLabel(o) + ")"})
		}
	}
	return out
}

func (fe *fiEngine) guardedNotUpdatable(fa *ssa.FieldAddr, at ssa.Instruction) bool {
	for _, f := range core.FactsAt(at.Block()) {
		call, ok := f.Cond.(*ssa.Call)
		if !ok || !f.Neg {
			continue
		}
		if fe.p.CalleeName(call) != "lib/query.(*FileInfo).IsUpdatable" || len(call.Common().Args) != 1 {
			continue
		}
		ld, ok := call.Common().Args[0].(*ssa.UnOp)
		if !ok || ld.Op != token.MUL {
			continue
		}
		gfa, ok := ld.X.(*ssa.FieldAddr)
		if !ok || !isViewFileInfoField(gfa.X, gfa.Field) || !sameObjectAt(gfa.X, call, fa.X, at) {
			continue
		}
		// the field is not re-pointed between the test and the write
		moved := false
		for _, st := range fileInfoFieldStores(at.Parent()) {
			if core.Reachable(call, st, nil) && core.Reachable(st, at, nil) {
				moved = true
			}
		}
		if !moved {
			return true
		}
	}
	return false
}

func fiEngineFor(p *core.Prog) *fiEngine {
	if fe, ok := fiCache[p]; ok {
		return fe
	}
	fe := newFiEngine(p)
	fiCache[p] = fe
	return fe
}

func newFiEngine(p *core.Prog) *fiEngine {
	fe := &fiEngine{p: p, sum: map[*ssa.Function]*fiSummary{}, freshFI: map[*ssa.Function]bool{}, viewFI: map[*ssa.Function]int{}}
	// constructors: every returned *FileInfo is an allocation of the function (or of another constructor)
	var cands []*ssa.Function
	for _, fn := range p.SrcFuncs() {
		res := fn.Signature.Results()
		if res.Len() > 0 && isFileInfoPtr(res.At(0).Type()) {
			cands = append(cands, fn)
			fe.freshFI[fn] = true
		}
	}
	for changed := true; changed; {
		changed = false
		for _, fn := range cands {
			if !fe.freshFI[fn] {
				continue
			}
			for _, o := range core.ReturnedValues(fn, 0) {
				ok := false
				switch x := o.(type) {
				case *ssa.Alloc:
					ok = true
				case *ssa.Const:
					ok = true
				case *ssa.Call:
					if f := core.StaticCallee(x); f != nil && fe.freshFI[f] {
						ok = true
					}
				case *ssa.Extract:
					if call, idx, _ := core.ExtractOf(x); call != nil && idx == 0 {
						if f := core.StaticCallee(call); f != nil && fe.freshFI[f] {
							ok = true
						}
					}
				}
				if !ok {
					fe.freshFI[fn] = false
					changed = true
					break
				}
			}
		}
	}
	// views: whose FileInfo does result 0 carry?
	var vcands []*ssa.Function
	for _, fn := range p.SrcFuncs() {
		res := fn.Signature.Results()
		if res.Len() > 0 && isViewPtr(res.At(0).Type()) {
			vcands = append(vcands, fn)
		}
	}
	for rounds := 0; rounds < 8; rounds++ {
		changed := false
		for _, fn := range vcands {
			k := fe.computeViewFI(fn)
			if old, ok := fe.viewFI[fn]; !ok || old != k {
				fe.viewFI[fn] = k
				changed = true
			}
		}
		if !changed {
			break
		}
	}
	return fe
}

// computeViewFI: fiFresh when every returned view is nil or a view whose
// FileInfo field was set by this function from a private FileInfo / comes from
// a callee with the same property; parameter index when it is always that
// *FileInfo parameter; else unknown.
func (fe *fiEngine) computeViewFI(fn *ssa.Function) int {
	res := -3 // unset
	merge := func(k int) {
		if res == -3 {
			res = k
		} else if res != k {
			if res == fiFresh && k == fiFresh {
				return
			}
			res = fiUnknown
		}
	}
	for _, o := range core.ReturnedValues(fn, 0) {
		switch x := o.(type) {
		case *ssa.Const:
			continue
		case *ssa.Call, *ssa.Extract:
			call, idx, _ := core.ExtractOf(x)
			if call == nil || idx != 0 {
				merge(fiUnknown)
				continue
			}
			// the view object comes from a callee; did this function then set its FileInfo?
			if k, ok := fe.assignedFI(fn, x); ok {
				merge(k)
				continue
			}
			f := core.StaticCallee(call)
			if f == nil {
				merge(fiUnknown)
				continue
			}
			k, ok := fe.viewFI[f]
			switch {
			case !ok:
				merge(fiUnknown)
			case k == fiFresh:
				merge(fiFresh)
			case k >= 0 && k < len(call.Common().Args):
				merge(fe.provToK(fn, call.Common().Args[k], call))
			default:
				merge(fiUnknown)
			}
		case *ssa.Alloc:
			if k, ok := fe.assignedFI(fn, x); ok {
				merge(k)
			} else {
				merge(fiFresh) // a new View without FileInfo
			}
		default:
			merge(fiUnknown)
		}
	}
	if res == -3 {
		return fiUnknown
	}
	return res
}

// fileInfoFieldStores lists the stores `X.FileInfo = …` of fn (X any *View value).
func fileInfoFieldStores(fn *ssa.Function) []*ssa.Store {
	var out []*ssa.Store
	for _, b := range fn.Blocks {
		for _, in := range b.Instrs {
			if st, ok := in.(*ssa.Store); ok {
				if fa, ok := st.Addr.(*ssa.FieldAddr); ok && isViewFileInfoField(fa.X, fa.Field) {
					out = append(out, st)
				}
			}
		}
	}
	return out
}

// cellWrites returns the stores to a local variable cell; ok=false when the
// cell can also be written where this function cannot see the order (its
// address escapes, or a closure assigns it).
func cellWrites(cell *ssa.Alloc) (stores []*ssa.Store, ok bool) {
	ok = true
	var visit func(c ssa.Value, inClosure bool)
	seen := map[ssa.Value]bool{}
	visit = func(c ssa.Value, inClosure bool) {
		if seen[c] {
			return
		}
		seen[c] = true
		refs := c.Referrers()
		if refs == nil {
			ok = false
			return
		}
		for _, r := range *refs {
			switch x := r.(type) {
			case *ssa.Store:
				if x.Addr == c {
					if inClosure {
						ok = false // assigned by a closure: no order against the enclosing function
					} else {
						stores = append(stores, x)
					}
				} else {
					ok = false // the address itself is stored
				}
			case *ssa.UnOp, *ssa.DebugRef:
			case *ssa.MakeClosure:
				fn, _ := x.Fn.(*ssa.Function)
				for i, b := range x.Bindings {
					if b == c && fn != nil && i < len(fn.FreeVars) {
						visit(fn.FreeVars[i], true)
					}
				}
			default:
				ok = false
			}
		}
	}
	visit(cell, false)
	return
}

// sameObjectAt: value a, used at instruction ia, and value b, used at the later
// instruction ib (ia dominates ib), denote the same *View object: the same SSA
// value, or two loads of one variable that is not reassigned in between.
func sameObjectAt(a ssa.Value, ia ssa.Instruction, b ssa.Value, ib ssa.Instruction) bool {
	if a == b {
		return true
	}
	la, ok1 := a.(*ssa.UnOp)
	lb, ok2 := b.(*ssa.UnOp)
	if !ok1 || !ok2 || la.Op != token.MUL || lb.Op != token.MUL || la.X != lb.X {
		return false
	}
	cell, ok := la.X.(*ssa.Alloc)
	if !ok {
		return false
	}
	stores, complete := cellWrites(cell)
	if !complete {
		return false
	}
	for _, st := range stores {
		// a reassignment that can run after a was read and before b is read
		if core.Reachable(la, st, nil) && core.Reachable(st, lb, nil) {
			return false
		}
	}
	return true
}

// privateAssignment: fn stores a private FileInfo into field FileInfo of the
// very object `view` (as used at instruction `at`), that store dominates `at`,
// and no other store to that field of a possibly identical object that can
// still reach `at` puts something non-private there. Returns the store or nil.
func (fe *fiEngine) privateAssignment(fn *ssa.Function, view ssa.Value, at ssa.Instruction) *ssa.Store {
	if at.Parent() != fn {
		return nil
	}
	isPrivate := func(st *ssa.Store) bool {
		for _, pv := range fe.prov(fn, st.Val, st) {
			if pv.kind != "fresh" {
				return false
			}
		}
		return true
	}
	var found *ssa.Store
	for _, st := range fileInfoFieldStores(fn) {
		if st == at {
			continue
		}
		base := st.Addr.(*ssa.FieldAddr).X
		if core.Dominates(st, at) && sameObjectAt(base, st, view, at) && isPrivate(st) {
			found = st
		}
	}
	if found == nil {
		return nil
	}
	// nothing non-private may overwrite it on the way
	for _, st := range fileInfoFieldStores(fn) {
		if st == found || isPrivate(st) {
			continue
		}
		if core.Reachable(found, st, nil) && core.Reachable(st, at, nil) {
			return nil
		}
	}
	return found
}

// assignedFI: fn itself sets field FileInfo of the view object o it returns:
// the store addresses exactly o (an SSA value, or a variable that only ever
// holds o) and dominates every return that can yield o.
func (fe *fiEngine) assignedFI(fn *ssa.Function, o ssa.Value) (int, bool) {
	found := false
	res := fiUnknown
	for _, st := range fileInfoFieldStores(fn) {
		base := st.Addr.(*ssa.FieldAddr).X
		os := core.Origins(base, false)
		if len(os) != 1 || os[0] != o {
			continue
		}
		dominatesAll := true
		for _, r := range core.Returns(fn) {
			if len(r.Results) == 0 {
				continue
			}
			yields := false
			for _, ro := range core.Origins(r.Results[0], false) {
				if ro == o {
					yields = true
				}
			}
			if yields && !core.Dominates(st, r) {
				dominatesAll = false
			}
		}
		if !dominatesAll {
			return fiUnknown, true // set on some paths only
		}
		k := fe.provToK(fn, st.Val, st)
		if found && k != res {
			return fiUnknown, true
		}
		found, res = true, k
	}
	return res, found
}

func (fe *fiEngine) provToK(fn *ssa.Function, v ssa.Value, at ssa.Instruction) int {
	res := -3
	for _, pv := range fe.prov(fn, v, at) {
		k := fiUnknown
		switch pv.kind {
		case "fresh":
			k = fiFresh
		case "param":
			k = pv.index
		}
		if res == -3 {
			res = k
		} else if res != k {
			res = fiUnknown
		}
	}
	if res == -3 {
		return fiUnknown
	}
	return res
}

// named exceptions of clause (b): function → reason
var iso1FileInfoWriters = map[string]string{
	"lib/query.cacheViewFromFile":                       "(re)load of a table under viewLoadingMutex: Handler and ForUpdate describe the lock the transaction holds on the file, the entry is absent or was evicted two lines earlier and is published again by the same call (R-CACHE-2 checks that)",
	"lib/query.SetTableAttribute":                       "ALTER-like statement: changing the attributes of the loaded table is its purpose; R-ISO-5 checks that nothing can fail after the setter",
	"lib/query.(*ReferenceScope).StoreTemporaryTable$1": "COMMIT stores the restore point of a temporary table in its FileInfo",
}

type fiWrite struct {
	detail string          // how the write happens (for the diagnostic only)
	fields map[string]bool // FileInfo fields written
}

type fiSite struct {
	fn     *ssa.Function
	in     ssa.Instruction
	v      ssa.Value // the FileInfo pointer written (nil when view is set)
	view   ssa.Value // a *View whose FileInfo the callee writes
	short  string    // construct, for the key
	detail string
	fields map[string]bool
}

type fiRoot struct {
	fiSite
	good, bad []string
}

func (fe *fiEngine) argFor(com *ssa.CallCommon, j int) ssa.Value {
	if com.IsInvoke() {
		if j == 0 {
			return com.Value
		}
		j--
	}
	if j >= 0 && j < len(com.Args) {
		return com.Args[j]
	}
	return nil
}

// collect lists every write of a FileInfo: direct field stores and calls of
// functions whose summary says they write a FileInfo / view parameter.
func (fe *fiEngine) collect() []fiSite {
	p := fe.p
	var sites []fiSite
	for _, fn := range p.SrcFuncs() {
		for _, b := range fn.Blocks {
			for _, in := range b.Instrs {
				switch x := in.(type) {
				case *ssa.Store:
					if fa, ok := x.Addr.(*ssa.FieldAddr); ok && isFileInfoPtr(fa.X.Type()) {
						f := core.FieldName(fa)
						sites = append(sites, fiSite{fn: fn, in: in, v: fa.X, short: "store to FileInfo." + f, detail: "store to FileInfo." + f + " at " + p.InstrPos(in), fields: map[string]bool{f: true}})
					}
				case ssa.CallInstruction:
					com := x.Common()
					for _, f := range p.Callees(x) {
						s := fe.sum[f]
						if s == nil {
							continue
						}
						for j, w := range s.fiParam {
							if arg := fe.argFor(com, j); arg != nil {
								sites = append(sites, fiSite{fn: fn, in: in, v: arg, short: "call of " + p.FnRef(f) + ", which writes its FileInfo argument", detail: p.FnRef(f) + " → " + w.detail, fields: w.fields})
							}
						}
						for j, w := range s.viewParam {
							if arg := fe.argFor(com, j); arg != nil {
								sites = append(sites, fiSite{fn: fn, in: in, view: arg, short: "call of " + p.FnRef(f) + ", which writes the FileInfo of its view argument", detail: p.FnRef(f) + " → " + w.detail, fields: w.fields})
							}
						}
					}
				}
			}
		}
	}
	return sites
}

// provAt: provenance of the FileInfo written at a site.
func (fe *fiEngine) provAt(s fiSite) []fiProv {
	if s.v != nil {
		return fe.prov(s.fn, s.v, s.in)
	}
	// FileInfo of a view argument: as if `arg.FileInfo` were read here
	if st := fe.privateAssignment(s.fn, s.view, s.in); st != nil {
		return []fiProv{{kind: "fresh", why: "this function assigned the view's FileInfo from a private value at " + fe.p.InstrPos(st)}}
	}
	var out []fiProv
	for _, o := range core.Origins(s.view, false) {
		switch x := o.(type) {
		case *ssa.Parameter:
			if !isViewPtr(x.Type()) {
				out = append(out, fiProv{kind: "view", why: "FileInfo of a view taken out of a container (parameter " + x.Name() + ")"})
				continue
			}
			out = append(out, fiProv{kind: "viewparam", index: fe.paramIndex(s.fn, x)})
		case *ssa.Alloc:
			out = append(out, fiProv{kind: "fresh", why: "view allocated here"})
		case *ssa.Const:
			// a nil view: nothing can be written through it
		case *ssa.Call, *ssa.Extract:
			call, idx, _ := core.ExtractOf(x)
			if call != nil && idx == 0 {
				if f := core.StaticCallee(call); f != nil {
					if k, ok := fe.viewFI[f]; ok && k == fiFresh {
						out = append(out, fiProv{kind: "fresh", why: "view from " + fe.p.FnRef(f)})
						continue
					} else if ok && k >= 0 && k < len(call.Common().Args) {
						out = append(out, fe.prov(s.fn, call.Common().Args[k], call)...)
						continue
					}
				}
			}
			out = append(out, fiProv{kind: "view", why: "FileInfo of the view that is " + valueLabel(x)})
		default:
			out = append(out, fiProv{kind: "view", why: "FileInfo of a view of unknown origin (" + valueLabel(o) + ")"})
		}
	}
	return out
}

// solve computes, to a fixpoint, which functions write a FileInfo parameter or
// the FileInfo of a view parameter, and which fields.
func (fe *fiEngine) solve() {
	if fe.solved {
		return
	}
	fe.solved = true
	for rounds := 0; rounds < 12; rounds++ {
		changed := false
		for _, s := range fe.collect() {
			for _, pv := range fe.provAt(s) {
				if pv.kind != "param" && pv.kind != "viewparam" || pv.index < 0 {
					continue
				}
				if fe.sum[s.fn] == nil {
					fe.sum[s.fn] = &fiSummary{fiParam: map[int]*fiWrite{}, viewParam: map[int]*fiWrite{}}
				}
				m := fe.sum[s.fn].fiParam
				if pv.kind == "viewparam" {
					m = fe.sum[s.fn].viewParam
				}
				w := m[pv.index]
				if w == nil {
					w = &fiWrite{detail: s.detail, fields: map[string]bool{}}
					m[pv.index] = w
					changed = true
				}
				for f := range s.fields {
					if !w.fields[f] {
						w.fields[f] = true
						changed = true
					}
				}
			}
		}
		if !changed {
			break
		}
	}
}

// roots: the writes whose target is not a parameter of the writing function,
// with the reasons why the target is private (good) or possibly shared (bad).
func (fe *fiEngine) roots() []fiRoot {
	fe.solve()
	var out []fiRoot
	for _, s := range fe.collect() {
		r := fiRoot{fiSite: s}
		root := false
		for _, pv := range fe.provAt(s) {
			switch pv.kind {
			case "param", "viewparam":
				// checked at the call sites of this function
			case "fresh", "guarded":
				root = true
				r.good = append(r.good, pv.why)
			default:
				root = true
				r.bad = append(r.bad, pv.why)
			}
		}
		if root {
			out = append(out, r)
		}
	}
	return out
}

func iso1FileInfo(c *Ctx) {
	fe := fiEngineFor(c.P)
	count := map[string]int{}
	for _, s := range fe.roots() {
		c.Touch(s.fn)
		c.Sites++
		base := c.KeyAt(s.fn, "FileInfo write: "+s.short)
		count[base]++
		key := base
		if count[base] > 1 {
			key = fmt.Sprintf("%s #%d", base, count[base])
		}
		if len(s.bad) == 0 {
			c.Ok(key, c.Pos(s.in), "written FileInfo is private: "+strings.Join(dedup(s.good), "; "))
			continue
		}
		if why, ok := iso1FileInfoWriters[c.P.Name(s.fn)]; ok {
			c.Ok(key, c.Pos(s.in), "sanctioned writer of a shared FileInfo — "+why)
			continue
		}
		c.Bad(key, c.Pos(s.in), s.detail+": this writes a FileInfo that may be the one of a cached table ("+strings.Join(dedup(s.bad), "; ")+"): View.Copy shares the FileInfo pointer, so the loaded table itself changes (path, type, format …) although the statement only reads it or has not yet succeeded")
	}
}

// ---------------------------------------------------------------------------
// R-ISO-2

var iso2Accessors = []string{
	"lib/query.(ViewMap).Get",
	"lib/query.(ViewMap).GetWithInternalId",
	"lib/query.(InlineTableMap).Get",
	"lib/query.(*Session).GetStdinView",
	"lib/query.(*ReferenceScope).GetTemporaryTable",
	"lib/query.(*ReferenceScope).GetTemporaryTableWithInternalId",
	"lib/query.(*ReferenceScope).GetInlineTable",
}

func ruleIso2(c *Ctx) {
	acc := map[*ssa.Function]bool{}
	var fns []*ssa.Function
	for _, n := range iso2Accessors {
		if f := c.Fn(n); f != nil {
			acc[f] = true
			fns = append(fns, f)
		}
	}
	for _, f := range c.P.FuncsIn(true) {
		if strings.Contains(f.Name(), "Accessor") && f.Parent() == nil {
			acc[f] = true
			fns = append(fns, f)
		}
	}
	isCopyCall := func(v ssa.Value) (bool, string) {
		call, idx, ok := core.ExtractOf(v)
		if !ok || idx != 0 {
			return false, ""
		}
		name := c.P.CalleeName(call)
		if name == "lib/query.(*View).Copy" {
			return true, "View.Copy"
		}
		if f := core.StaticCallee(call); f != nil && acc[f] {
			return true, "accessor " + c.P.FnRef(f)
		}
		return false, ""
	}
	for _, fn := range fns {
		var bad, good []string
		for _, o := range core.ReturnedValues(fn, 0) {
			if core.IsNilConst(o) {
				continue
			}
			if ok, how := isCopyCall(o); ok {
				good = append(good, how)
				continue
			}
			bad = append(bad, valueLabel(o))
		}
		key := c.P.Name(fn)
		if len(bad) > 0 {
			c.Bad(key, c.FnPos(fn), "accessor can return a view that is not a copy ("+strings.Join(dedup(bad), "; ")+"): the caller's changes (or a failing statement's partial changes) land in the stored table")
		} else if len(good) == 0 {
			c.Unknown(key, c.FnPos(fn), "accessor returns no view at all")
		} else {
			c.Ok(key, c.FnPos(fn), "every returned view is nil or "+strings.Join(dedup(good), " / "))
		}
	}
	// raw readers of the two containers that are not ViewMaps
	okUse := func(v ssa.Value, fieldCopyOK bool) (bool, string) {
		refs := v.Referrers()
		if refs == nil {
			return true, ""
		}
		for _, r := range *refs {
			switch x := r.(type) {
			case *ssa.DebugRef:
			case *ssa.BinOp:
				if _, _, ok := core.NilCmp(x); !ok {
					return false, "compared at " + c.Pos(x)
				}
			case ssa.CallInstruction:
				if c.P.CalleeName(x) == "lib/query.(*View).Copy" && len(x.Common().Args) > 0 && x.Common().Args[0] == v {
					continue
				}
				return false, "passed to " + callDesc(c.P, x) + " at " + c.Pos(x)
			case *ssa.Store:
				if fa, ok := x.Addr.(*ssa.FieldAddr); ok && fieldCopyOK && x.Val == v && core.FieldOwner(fa) == "lib/query.ReferenceScope.RecursiveTmpView" {
					continue // child scope shares the reference
				}
				return false, "stored at " + c.Pos(x)
			default:
				return false, fmt.Sprintf("used by %s at %s", strings.TrimPrefix(fmt.Sprintf("%T", r), "*ssa."), c.Pos(r))
			}
		}
		return true, ""
	}
	for _, fn := range c.P.SrcFuncs() {
		n := 0
		for _, b := range fn.Blocks {
			for _, in := range b.Instrs {
				switch x := in.(type) {
				case *ssa.Lookup:
					if !isQueryNamed(x.X.Type(), "InlineTableMap") {
						continue
					}
					n++
					c.Touch(fn)
					key := c.KeyAt(fn, fmt.Sprintf("InlineTableMap element read #%d", n))
					var v ssa.Value = x
					if x.CommaOk {
						v = nil
						for _, rr := range *x.Referrers() {
							if e, ok := rr.(*ssa.Extract); ok && e.Index == 0 {
								v = e
							}
						}
					}
					if v == nil {
						c.Ok(key, c.Pos(in), "only the presence flag is used")
						continue
					}
					ok, why := okUse(v, false)
					c.Check(ok, key, c.Pos(in), "stored view used only as receiver of Copy / nil test", "the stored inline table itself leaves the map: "+why)
				case *ssa.Range:
					if !isQueryNamed(x.X.Type(), "InlineTableMap") {
						continue
					}
					for _, rr := range *x.Referrers() {
						nx, isNext := rr.(*ssa.Next)
						if !isNext {
							continue
						}
						for _, r3 := range *nx.Referrers() {
							e, isE := r3.(*ssa.Extract)
							if !isE || e.Index != 2 {
								continue
							}
							n++
							c.Touch(fn)
							ok, why := okUse(e, false)
							c.Check(ok, c.KeyAt(fn, fmt.Sprintf("InlineTableMap element read #%d", n)), c.Pos(in), "stored view used only as receiver of Copy / nil test", "the stored inline table itself leaves the map: "+why)
						}
					}
				case *ssa.UnOp:
					fa, ok := x.X.(*ssa.FieldAddr)
					if !ok || x.Op != token.MUL || core.FieldOwner(fa) != "lib/query.ReferenceScope.RecursiveTmpView" {
						continue
					}
					n++
					c.Touch(fn)
					key := c.KeyAt(fn, fmt.Sprintf("RecursiveTmpView read #%d", n))
					ok2, why := okUse(x, true)
					c.Check(ok2, key, c.Pos(in), "recursion working table used only as receiver of Copy / nil test / handed to a child scope", "the recursion working table itself is handed out: "+why)
				}
			}
		}
	}
}

// ---------------------------------------------------------------------------
// R-ISO-3

func ruleIso3(c *Ctx) {
	type spec struct {
		name string
		kind string // "view" | "slice" | "sliceOfCopies"
		elem string // element copier for sliceOfCopies
		ctl  bool
	}
	specs := []spec{
		{"lib/query.(*View).Copy", "view", "", false},
		{"lib/query.(Header).Copy", "slice", "", false},
		{"lib/query.(RecordSet).Copy", "sliceOfCopies", "lib/query.(Record).Copy", false},
		{"lib/query.(Record).Copy", "slice", "", false},
		{core.ControlPkg + ".CtlShallowRecordSetCopy", "sliceOfCopies", "lib/query.(Record).Copy", true},
		{core.ControlPkg + ".CtlCopyReturnsReceiver", "slice", "", true},
		{core.ControlPkg + ".okRecordSetCopyAppend", "sliceOfCopies", "lib/query.(Record).Copy", true},
	}
	for _, s := range specs {
		var fn *ssa.Function
		if s.ctl {
			fn = c.FnOpt(s.name)
			if fn == nil {
				continue
			}
		} else if fn = c.Fn(s.name); fn == nil {
			continue
		}
		key := c.P.Name(fn)
		var bad []string
		rets := core.ReturnedValues(fn, 0)
		if len(rets) == 0 {
			bad = append(bad, "no returned value")
		}
		for _, o := range rets {
			switch s.kind {
			case "view":
				var obj ssa.Value
				if al, ok := o.(*ssa.Alloc); ok && al.Heap {
					obj = al
				} else if call, ok := o.(*ssa.Call); ok {
					// a constructor whose every return is a new object (NewView)
					if f := core.StaticCallee(call); f != nil && f.Blocks != nil {
						fresh := true
						for _, rv := range core.ReturnedValues(f, 0) {
							if a, isA := rv.(*ssa.Alloc); !isA || !a.Heap {
								fresh = false
							}
						}
						if fresh {
							obj = call
						}
					}
				}
				if obj == nil {
					bad = append(bad, "returns "+valueLabel(o)+", not a new View")
					continue
				}
				// fields Header and RecordSet must be stored from Copy calls on the receiver's fields
				got := map[string]string{}
				for _, rr := range *obj.Referrers() {
					fa, ok := rr.(*ssa.FieldAddr)
					if !ok {
						continue
					}
					for _, r3 := range *fa.Referrers() {
						if st, ok := r3.(*ssa.Store); ok && st.Addr == fa {
							fname := core.FieldName(fa)
							for _, ov := range core.Origins(st.Val, false) {
								call, isCall := ov.(*ssa.Call)
								switch {
								case isCall && fname == "Header" && c.P.CalleeName(call) == "lib/query.(Header).Copy" && loadsFieldOf(call.Common().Args[0], fn.Params[0], "Header"):
									got[fname] = "ok"
								case isCall && fname == "RecordSet" && c.P.CalleeName(call) == "lib/query.(RecordSet).Copy" && loadsFieldOf(call.Common().Args[0], fn.Params[0], "RecordSet"):
									got[fname] = "ok"
								case fname == "Header" || fname == "RecordSet":
									got[fname] = "field " + fname + " is set from " + valueLabel(ov) + ", not from a Copy of the receiver's " + fname
								}
							}
						}
					}
				}
				for _, f := range []string{"Header", "RecordSet"} {
					if got[f] == "" {
						bad = append(bad, "field "+f+" of the new View is never set")
					} else if got[f] != "ok" {
						bad = append(bad, got[f])
					}
				}
			case "slice", "sliceOfCopies":
				base, isFresh := freshSliceBase(o)
				if !isFresh {
					bad = append(bad, "returns "+valueLabel(o)+", not a slice made in this call")
					continue
				}
				if s.kind == "sliceOfCopies" {
					elems, ok := sliceElemStores(base)
					if !ok || len(elems) == 0 {
						bad = append(bad, "no element store into the new slice found")
					}
					for _, ev := range elems {
						for _, ov := range core.Origins(ev, false) {
							call, isCall := ov.(*ssa.Call)
							if !isCall || c.P.CalleeName(call) != s.elem {
								bad = append(bad, "element stored is "+valueLabel(ov)+", not a "+s.elem+" result: the record (a slice) stays shared with the source")
							}
						}
					}
				}
			}
		}
		if len(bad) > 0 {
			c.Bad(key, c.FnPos(fn), "copy is shallower than specified: "+strings.Join(dedup(bad), "; "))
		} else {
			c.Ok(key, c.FnPos(fn), "returns a fresh "+s.kind+" with the specified depth")
		}
	}
}

// sliceElemStores collects every value stored into (or appended to) the slice
// made by `base` in its function; ok=false when elements arrive in a way that
// cannot be enumerated (append of a whole slice, copy).
func sliceElemStores(base ssa.Value) (elems []ssa.Value, ok bool) {
	ok = true
	seen := map[ssa.Value]bool{}
	var scan func(v ssa.Value)
	scan = func(v ssa.Value) {
		if seen[v] {
			return
		}
		seen[v] = true
		refs := v.Referrers()
		if refs == nil {
			return
		}
		for _, r := range *refs {
			switch y := r.(type) {
			case *ssa.IndexAddr:
				if y.X != v {
					continue
				}
				for _, rr := range *y.Referrers() {
					if st, isSt := rr.(*ssa.Store); isSt && st.Addr == y {
						elems = append(elems, st.Val)
					}
				}
			case *ssa.Slice:
				if y.X == v {
					scan(y)
				}
			case *ssa.Phi:
				scan(y)
			case *ssa.ChangeType:
				scan(y)
			case *ssa.Store:
				if y.Val == v {
					if a, isA := y.Addr.(*ssa.Alloc); isA {
						for _, rr := range *a.Referrers() {
							if u, isU := rr.(*ssa.UnOp); isU && u.Op == token.MUL {
								scan(u)
							}
						}
					}
				}
			case ssa.CallInstruction:
				b, isB := y.Common().Value.(*ssa.Builtin)
				if !isB {
					continue
				}
				args := y.Common().Args
				switch b.Name() {
				case "append":
					if len(args) == 2 && args[0] == v {
						// appended elements: the variadic array built for this call
						if sl, isSl := args[1].(*ssa.Slice); isSl {
							if arr, isArr := sl.X.(*ssa.Alloc); isArr {
								for _, rr := range *arr.Referrers() {
									if ia, isIA := rr.(*ssa.IndexAddr); isIA {
										for _, r3 := range *ia.Referrers() {
											if st, isSt := r3.(*ssa.Store); isSt && st.Addr == ia {
												elems = append(elems, st.Val)
											}
										}
									}
								}
							} else {
								ok = false
							}
						} else if !core.IsNilConst(args[1]) {
							ok = false
						}
						if cv, isV := y.(ssa.Value); isV {
							scan(cv)
						}
					}
				case "copy":
					if len(args) == 2 && args[0] == v {
						ok = false
					}
				}
			}
		}
	}
	scan(base)
	return
}

// loadsFieldOf: v is `*(&recv.field)`.
func loadsFieldOf(v ssa.Value, recv ssa.Value, field string) bool {
	u, ok := v.(*ssa.UnOp)
	if !ok || u.Op != token.MUL {
		return false
	}
	fa, ok := u.X.(*ssa.FieldAddr)
	return ok && fa.X == recv && core.FieldName(fa) == field
}

// freshSliceBase: v is a MakeSlice of this function, possibly grown by append
// calls whose first argument is again such a slice.
func freshSliceBase(v ssa.Value) (ssa.Value, bool) {
	seen := map[ssa.Value]bool{}
	var base ssa.Value
	ok := true
	var walk func(v ssa.Value)
	walk = func(v ssa.Value) {
		if seen[v] || !ok {
			return
		}
		seen[v] = true
		for _, o := range core.Origins(v, true) {
			switch x := o.(type) {
			case *ssa.MakeSlice:
				if base != nil && base != x {
					ok = false
				}
				base = x
			case *ssa.Call:
				if b, isB := x.Common().Value.(*ssa.Builtin); isB && b.Name() == "append" {
					walk(x.Common().Args[0])
				} else {
					ok = false
				}
			case *ssa.Const:
				// nil slice grown by append
			default:
				ok = false
			}
		}
	}
	walk(v)
	return base, ok && base != nil
}

// ---------------------------------------------------------------------------
// R-ISO-4

// cellOrigins: roots of a slice value, noting whether any value on the way has type query.Cell.
func cellRoots(v ssa.Value) (roots []ssa.Value, isCell bool) {
	seen := map[ssa.Value]bool{}
	var walk func(v ssa.Value)
	walk = func(v ssa.Value) {
		if v == nil || seen[v] {
			return
		}
		seen[v] = true
		if isQueryNamed(v.Type(), "Cell") && !isPtr(v.Type()) {
			isCell = true
		}
		switch x := v.(type) {
		case *ssa.Phi:
			for _, e := range x.Edges {
				walk(e)
			}
		case *ssa.ChangeType:
			walk(x.X)
		case *ssa.Slice:
			walk(x.X)
		case *ssa.MakeInterface:
			walk(x.X)
		case *ssa.TypeAssert:
			walk(x.X)
		case *ssa.UnOp:
			if x.Op == token.MUL {
				if al, ok := x.X.(*ssa.Alloc); ok {
					vals, complete := core.StoresTo(al)
					if complete && len(vals) > 0 {
						for _, s := range vals {
							walk(s)
						}
						return
					}
				}
			}
			roots = append(roots, v)
		case *ssa.Call:
			if b, ok := x.Common().Value.(*ssa.Builtin); ok && b.Name() == "append" && len(x.Common().Args) > 0 {
				walk(x.Common().Args[0])
				return
			}
			roots = append(roots, v)
		default:
			roots = append(roots, v)
		}
	}
	walk(v)
	return
}

func ruleIso4(c *Ctx) {
	writers := sliceParamWriters(c.P)
	examined := 0
	check := func(fn *ssa.Function, in ssa.Instruction, slice ssa.Value, what string) {
		roots, isCell := cellRoots(slice)
		if !isCell {
			return
		}
		examined++
		c.Touch(fn)
		c.Sites++
		key := c.KeyAt(fn, what)
		var foreign []string
		for _, r := range roots {
			switch x := r.(type) {
			case *ssa.MakeSlice:
			case *ssa.Alloc:
			case *ssa.Const:
			default:
				foreign = append(foreign, valueLabel(x))
			}
		}
		if len(foreign) == 0 {
			c.Ok(key, c.Pos(in), "the cell is made in this function")
		} else {
			c.Bad(key, c.Pos(in), "writes into a cell this function did not make ("+strings.Join(dedup(foreign), "; ")+"): cells are shared between the cached table, every copy handed out, open cursors and restore points, so all of them change")
		}
	}
	for _, fn := range c.P.SrcFuncs() {
		for _, b := range fn.Blocks {
			for _, in := range b.Instrs {
				switch x := in.(type) {
				case *ssa.Store:
					if ia, ok := x.Addr.(*ssa.IndexAddr); ok && isSlice(ia.X.Type()) {
						check(fn, in, ia.X, "store into an element of a Cell")
					}
				case ssa.CallInstruction:
					com := x.Common()
					if bi, ok := com.Value.(*ssa.Builtin); ok {
						switch bi.Name() {
						case "append":
							if len(com.Args) > 0 {
								check(fn, in, com.Args[0], "append to a Cell")
							}
						case "copy":
							if len(com.Args) > 0 {
								check(fn, in, com.Args[0], "copy into a Cell")
							}
						}
						continue
					}
					name := c.P.CalleeName(x)
					if strings.HasPrefix(name, "sort.") && len(com.Args) > 0 {
						check(fn, in, core.Strip(com.Args[0]), "in-place sort of a Cell")
						continue
					}
					f := core.StaticCallee(x)
					if f == nil || writers[f] == nil {
						continue
					}
					for j, a := range com.Args {
						if writers[f][j] && isSlice(a.Type()) {
							check(fn, in, a, "pass a Cell to "+c.P.FnRef(f)+", which writes its elements")
						}
					}
				}
			}
		}
	}
	c.OkN("all element stores / append / copy / sort / slice-writing calls", "-", fmt.Sprintf("%d sinks on values of type query.Cell examined", examined), examined)
}

// ---------------------------------------------------------------------------
// Edge-sensitive error values after a program point (shared by R-ISO-5/6, R-CACHE-2)

type errLeaf struct {
	v        ssa.Value       // nil: the zero value of a result cell
	at       ssa.Instruction // where dominating facts are read
	from, to *ssa.BasicBlock // Phi edge the value travelled (optional)
	captured bool            // read from a cell that a closure may write
	under    []ssa.Value     // for a value decided by a branch fact: the values it stands for
}

// all: does pred hold for the leaf's value (or, when it was decided by a
// branch fact, for every value it stands for)?
func (l errLeaf) all(pred func(ssa.Value) bool) bool {
	if l.v == nil {
		return false
	}
	if pred(l.v) {
		return true
	}
	if len(l.under) == 0 {
		return false
	}
	for _, u := range l.under {
		if u == nil || !pred(u) {
			return false
		}
	}
	return true
}

type afterCtx struct {
	p     ssa.Instruction
	reach map[*ssa.BasicBlock]bool // blocks that can execute after p (p's own block only when it lies on a cycle)
}

func newAfterCtx(p ssa.Instruction) *afterCtx {
	a := &afterCtx{p: p, reach: map[*ssa.BasicBlock]bool{}}
	var st []*ssa.BasicBlock
	for _, s := range p.Block().Succs {
		if !a.reach[s] {
			a.reach[s] = true
			st = append(st, s)
		}
	}
	for len(st) > 0 {
		b := st[len(st)-1]
		st = st[:len(st)-1]
		for _, s := range b.Succs {
			if !a.reach[s] {
				a.reach[s] = true
				st = append(st, s)
			}
		}
	}
	return a
}

// after: can instruction in execute after p?
func (a *afterCtx) after(in ssa.Instruction) bool {
	if a.reach[in.Block()] {
		return true
	}
	return in.Block() == a.p.Block() && core.InstrIndex(in) > core.InstrIndex(a.p)
}

// reachAvoidingEntry: is `to` reachable from just after p without entering block b?
func (a *afterCtx) reachAvoidingEntry(to ssa.Instruction, b *ssa.BasicBlock) bool {
	if to.Block() == a.p.Block() && core.InstrIndex(to) > core.InstrIndex(a.p) {
		return true
	}
	seen := map[*ssa.BasicBlock]bool{}
	var st []*ssa.BasicBlock
	for _, s := range a.p.Block().Succs {
		if s != b && !seen[s] {
			seen[s] = true
			st = append(st, s)
		}
	}
	for len(st) > 0 {
		x := st[len(st)-1]
		st = st[:len(st)-1]
		if x == to.Block() {
			return true
		}
		for _, s := range x.Succs {
			if s != b && !seen[s] {
				seen[s] = true
				st = append(st, s)
			}
		}
	}
	return false
}

func blockTerm(b *ssa.BasicBlock) ssa.Instruction { return b.Instrs[len(b.Instrs)-1] }

// leaves resolves value v, used at instruction `at`, to the values it can have
// on executions in which p ran before `at`.
func (a *afterCtx) leaves(v ssa.Value, at ssa.Instruction) []errLeaf {
	return a.leaves0(v, at, false)
}

func (a *afterCtx) leaves0(v ssa.Value, at ssa.Instruction, nofacts bool) []errLeaf {
	var out []errLeaf
	type vk struct {
		v  ssa.Value
		at ssa.Instruction
	}
	seen := map[vk]bool{}
	var walk func(v ssa.Value, at ssa.Instruction, from, to *ssa.BasicBlock)
	walk = func(v ssa.Value, at ssa.Instruction, from, to *ssa.BasicBlock) {
		if v == nil {
			out = append(out, errLeaf{at: at})
			return
		}
		k := vk{v, at}
		if seen[k] {
			return
		}
		seen[k] = true
		if !nofacts && decidedHere(v, at, from, to) {
			l := errLeaf{v: v, at: at, from: from, to: to}
			for _, u := range a.leaves0(v, at, true) {
				l.under = append(l.under, u.v)
			}
			out = append(out, l)
			return
		}
		switch x := v.(type) {
		case *ssa.Phi:
			b := x.Block()
			// the value used at `at` was chosen by the last entry into b before `at`;
			// that entry happened after p iff every path from p to `at` enters b
			restrict := a.after(at) && !a.reachAvoidingEntry(at, b)
			n := 0
			for i, e := range x.Edges {
				pred := b.Preds[i]
				if restrict && !(a.reach[pred] || pred == a.p.Block()) {
					continue
				}
				n++
				walk(e, blockTerm(pred), pred, b)
			}
			if n == 0 {
				for i, e := range x.Edges {
					walk(e, blockTerm(b.Preds[i]), b.Preds[i], b)
				}
			}
		case *ssa.ChangeInterface:
			walk(x.X, at, from, to)
		case *ssa.UnOp:
			if al, ok := x.X.(*ssa.Alloc); ok && x.Op == token.MUL {
				if cellCaptured(al) {
					out = append(out, errLeaf{v: v, at: at, from: from, to: to, captured: true})
					return
				}
				if !a.after(x) {
					for _, sv := range core.ReachingStores(al, x) {
						walk(sv, x, nil, nil)
					}
					return
				}
				for _, s := range a.reachingStores(al, x) {
					if s == nil {
						out = append(out, errLeaf{at: x})
						continue
					}
					walk(s.Val, s, nil, nil)
				}
				return
			}
			out = append(out, errLeaf{v: v, at: at, from: from, to: to})
		default:
			out = append(out, errLeaf{v: v, at: at, from: from, to: to})
		}
	}
	walk(v, at, nil, nil)
	return out
}

func cellCaptured(al *ssa.Alloc) bool {
	for _, r := range *al.Referrers() {
		switch x := r.(type) {
		case *ssa.Store:
			if x.Val == al {
				return true
			}
		case *ssa.UnOp, *ssa.DebugRef:
		default:
			return true
		}
	}
	return false
}

// reachingStores: stores to cell that can be the latest one when `load`
// executes, on executions where p ran before the load (nil entry = no store).
func (a *afterCtx) reachingStores(cell *ssa.Alloc, load ssa.Instruction) []*ssa.Store {
	var out []*ssa.Store
	seenS := map[*ssa.Store]bool{}
	zero := false
	type key struct {
		b       *ssa.BasicBlock
		crossed bool
	}
	seen := map[key]bool{}
	var back func(b *ssa.BasicBlock, from int, crossed bool)
	back = func(b *ssa.BasicBlock, from int, crossed bool) {
		for i := from; i >= 0; i-- {
			in := b.Instrs[i]
			if in == a.p {
				crossed = true
			}
			if st, ok := in.(*ssa.Store); ok && st.Addr == cell {
				if crossed || a.after(st) {
					if !seenS[st] {
						seenS[st] = true
						out = append(out, st)
					}
				}
				return
			}
		}
		if len(b.Preds) == 0 {
			if crossed && !zero {
				zero = true
				out = append(out, nil)
			}
			return
		}
		for _, p := range b.Preds {
			k := key{p, crossed}
			if !seen[k] {
				seen[k] = true
				back(p, len(p.Instrs)-1, crossed)
			}
		}
	}
	back(load.Block(), core.InstrIndex(load)-1, false)
	return out
}

// classifyLeaf decides nil / non-nil / maybe for one leaf, using the facts of
// the edge it travelled and of the place it is used.
func classifyLeaf(l errLeaf) core.NilKind {
	if l.v == nil || core.IsNilConst(l.v) {
		return core.IsNil
	}
	if l.captured {
		return core.MaybeNil
	}
	if l.from != nil {
		for _, f := range core.EdgeFacts(l.from, l.to) {
			x, neq, ok := core.NilCmp(f.Cond)
			if !ok || x != l.v {
				continue
			}
			if neq != f.Neg {
				return core.NonNil
			}
			return core.IsNil
		}
	}
	if core.NilAt(l.v, l.at) {
		return core.IsNil
	}
	if core.NonNilAt(l.v, l.at) {
		return core.NonNil
	}
	return core.ClassifyNil(l.v, l.at)
}

// decidedHere: a dominating branch (or the edge travelled) already fixes whether v is nil.
func decidedHere(v ssa.Value, at ssa.Instruction, from, to *ssa.BasicBlock) bool {
	if core.NilAt(v, at) || core.NonNilAt(v, at) {
		return true
	}
	if from != nil {
		for _, f := range core.EdgeFacts(from, to) {
			if x, _, ok := core.NilCmp(f.Cond); ok && x == v {
				return true
			}
		}
	}
	return false
}

// ---------------------------------------------------------------------------
// R-ISO-5

var iso5Statements = []string{
	"lib/query.Insert", "lib/query.Update", "lib/query.Replace", "lib/query.Delete", "lib/query.CreateTable",
	"lib/query.AddColumns", "lib/query.DropColumns", "lib/query.RenameColumn", "lib/query.SetTableAttribute", "lib/query.DeclareView",
}

var iso5Primitives = map[string]bool{
	"lib/query.(ViewMap).Set":                           true,
	"lib/query.(ViewMap).Store":                         true,
	"lib/query.(*ReferenceScope).ReplaceTemporaryTable": true,
	"lib/query.(*ReferenceScope).SetTemporaryTable":     true,
}

// functions that put an unmodified, freshly loaded (or transaction-level) view into a container
var iso5Loaders = map[string]struct {
	why     string
	origins []string // the stored view must originate from these callees (mechanical side condition); empty: parameter / container element
}{
	"lib/query.cacheViewFromFile":          {"caches the table exactly as read from the file; an error afterwards leaves the table as it is on disk", []string{"lib/query.loadViewFromFile"}},
	"lib/query.loadObjectFromStdin":        {"caches the stdin table exactly as read", []string{"lib/query.(*Session).GetStdinView"}},
	"lib/query.(*Session).GetStdinView":    {"session-level cache of the stdin data exactly as read", []string{"lib/query.loadViewFromFile"}},
	"lib/query.(*Session).updateStdinView": {"COMMIT of a stdin table: transaction level, not a statement", nil},
}

func isConvertCtxErr(p *core.Prog, v ssa.Value) bool {
	call, ok := v.(*ssa.Call)
	if !ok || p.CalleeName(call) != "lib/query.ConvertContextError" || len(call.Common().Args) != 1 {
		return false
	}
	arg, ok := call.Common().Args[0].(*ssa.Call)
	if !ok || !arg.Common().IsInvoke() || arg.Common().Method.Name() != "Err" {
		return false
	}
	return strings.HasSuffix(arg.Common().Value.Type().String(), "context.Context")
}

func isRestoreHeaderResult(p *core.Prog, v ssa.Value) bool {
	call, ok := v.(*ssa.Call)
	return ok && p.CalleeName(call) == "lib/query.(*View).RestoreHeaderReferences"
}

// sideRestoreHeader: RestoreHeaderReferences only returns Header.Update(_, nil),
// and with fields == nil Header.Update has no reachable non-nil return.
func sideRestoreHeader(c *Ctx) bool {
	key := "side condition: RestoreHeaderReferences cannot fail"
	rh := c.Fn("lib/query.(*View).RestoreHeaderReferences")
	hu := c.Fn("lib/query.(Header).Update")
	if rh == nil || hu == nil {
		return false
	}
	idx := core.ErrorResultIndex(rh)
	for _, r := range core.Returns(rh) {
		for _, v := range core.ReturnOperand(r, idx) {
			if v == nil || core.IsNilConst(v) {
				continue
			}
			call, ok := v.(*ssa.Call)
			if !ok || core.StaticCallee(call) != hu || len(call.Common().Args) != 3 || !core.IsNilConst(call.Common().Args[2]) {
				c.Bad(key, c.Pos(r), "RestoreHeaderReferences returns "+valueLabel(v)+", not Header.Update(_, nil): the exemption of R-ISO-5 no longer holds")
				return false
			}
		}
	}
	if len(hu.Params) != 3 {
		c.Unknown(key, c.FnPos(hu), "Header.Update changed its signature")
		return false
	}
	n, bad, at := nilArgCannotFail(c, hu, hu.Params[2])
	if bad != "" {
		c.Bad(key, at, "Header.Update can return "+bad+" even when fields is nil: RestoreHeaderReferences can fail after a publication")
		return false
	}
	c.OkN(key, c.FnPos(rh), fmt.Sprintf("RestoreHeaderReferences returns Header.Update(_, nil); with the edges refuted by fields==nil removed, the %d reachable return(s) of Header.Update return nil", n), n)

	// the same lemma on the control package: every function of it that is called
	// there with a nil constant for a slice parameter and has an error result
	seenCtl := map[string]bool{}
	for _, caller := range c.P.FuncsIn(true) {
		for _, call := range core.Calls(caller) {
			f := core.StaticCallee(call)
			if f == nil || !c.P.IsControl(f) || len(f.Blocks) == 0 || core.ErrorResultIndex(f) < 0 {
				continue
			}
			for i, a := range call.Common().Args {
				if i >= len(f.Params) || !core.IsNilConst(a) {
					continue
				}
				if _, isSlice := f.Params[i].Type().Underlying().(*types.Slice); !isSlice {
					continue
				}
				ck := c.KeyAt(f, fmt.Sprintf("cannot fail when parameter %s is nil", f.Params[i].Name()))
				if seenCtl[ck] {
					continue
				}
				seenCtl[ck] = true
				cn, cbad, cat := nilArgCannotFail(c, f, f.Params[i])
				if cbad != "" {
					c.Bad(ck, cat, "can return "+cbad+" even when "+f.Params[i].Name()+" is nil")
				} else {
					c.Ok(ck, c.FnPos(f), fmt.Sprintf("with the edges refuted by %s==nil removed, the %d reachable return(s) return nil", f.Params[i].Name(), cn))
				}
			}
		}
	}
	return true
}

// nilArgCannotFail: when fn is called with nil for param, does every return that
// can execute yield a nil error? Branch conditions that follow from the hypothesis
// (nil tests of the parameter, len/cap of it, comparisons and boolean combinations
// of those — written in the condition, hoisted into a local or merged by && / ||)
// are decided and the refuted edges removed (core.NilArgEval); the error operands
// of the surviving returns are read through the surviving Phi edges.
// Returns the number of surviving returns and, if one may fail, its description.
func nilArgCannotFail(c *Ctx, fn *ssa.Function, param *ssa.Parameter) (n int, bad, at string) {
	ev := core.NewNilArgEval(fn, param)
	uidx := core.ErrorResultIndex(fn)
	for _, r := range core.Returns(fn) {
		if !ev.Reachable(r.Block()) {
			continue
		}
		n++
		for _, v := range core.ReturnOperand(r, uidx) {
			if v == nil {
				continue
			}
			for _, l := range ev.Leaves(v) {
				if core.ClassifyNil(l, r) != core.IsNil {
					return n, valueLabel(l), c.Pos(r)
				}
			}
		}
	}
	return n, "", ""
}

func ruleIso5(c *Ctx) {
	p := c.P
	frozen := map[*ssa.Function]bool{}
	for _, n := range iso5Statements {
		if f := c.Fn(n); f != nil {
			frozen[f] = true
		}
	}
	okRestore := sideRestoreHeader(c)

	// subjects: every lib/query (and control) function that calls a publication primitive directly
	isPrim := func(f *ssa.Function) bool { return f != nil && iso5Primitives[p.FnRef(f)] }
	// a primitive call publishes unless it files the view in a view container the
	// function created itself (a private listing such as AllTemporaryTables)
	isPubCall := func(call ssa.CallInstruction) bool {
		f := core.StaticCallee(call)
		if !isPrim(f) {
			return false
		}
		if p.FnRef(f) == "lib/query.(ViewMap).Store" && len(call.Common().Args) == 3 && isFreshViewMap(p, call.Common().Args[0]) {
			return false
		}
		return true
	}
	directPub := func(fn *ssa.Function) bool {
		for _, call := range core.Calls(fn) {
			if isPubCall(call) {
				return true
			}
		}
		return false
	}
	subjects := map[*ssa.Function]bool{}
	for _, fn := range p.FuncsIn(true, "lib/query") {
		if isPrim(fn) {
			continue
		}
		if frozen[fn] || directPub(fn) {
			subjects[fn] = true
		}
	}
	var list []*ssa.Function
	for fn := range subjects {
		list = append(list, fn)
	}
	sortFuncs(p, list)
	for _, fn := range list {
		c.Touch(fn)
		var loaderNames []string
		for n := range iso5Loaders {
			loaderNames = append(loaderNames, n)
		}
		sort.Strings(loaderNames)
		if owner := exceptionOwner(p, fn, loaderNames); owner != "" {
			ld := iso5Loaders[owner]
			// side condition: what is stored is what the loader returned
			bad := ""
			for _, call := range core.Calls(fn) {
				if !isPubCall(call) {
					continue
				}
				args := call.Common().Args
				view := args[len(args)-1]
				for _, o := range core.Origins(view, false) {
					okO := false
					switch x := o.(type) {
					case *ssa.Parameter:
						okO = len(ld.origins) == 0
					case *ssa.TypeAssert:
						okO = len(ld.origins) == 0
					case *ssa.Call, *ssa.Extract:
						if cl, _, ok := core.ExtractOf(x); ok {
							for _, on := range ld.origins {
								if p.CalleeName(cl) == on {
									okO = true
								}
							}
						}
					}
					if !okO {
						bad = "stores " + valueLabel(o) + " at " + c.Pos(call)
					}
				}
			}
			key := c.KeyAt(fn, "loader exception")
			if bad != "" {
				c.Bad(key, c.FnPos(fn), "listed as a loader ("+ld.why+") but "+bad+", which is not the unmodified result of its loader")
			} else {
				c.Ok(key, c.FnPos(fn), "not a data-changing statement: "+ld.why+"; the stored view is the loader's result")
			}
			continue
		}
		if fn.Parent() != nil {
			c.Unknown(c.KeyAt(fn, "publication inside a closure"), c.FnPos(fn), "a function literal publishes a view: its place in the enclosing function's control flow is not modelled, so publish-last cannot be decided for "+p.Name(fn.Parent()))
			continue
		}
		eidx := core.ErrorResultIndex(fn)
		n := 0
		for _, call := range core.Calls(fn) {
			f := core.StaticCallee(call)
			isPub := isPubCall(call)
			if !isPub && f != nil && subjects[f] && !frozen[f] {
				var loaderNames []string
				for n := range iso5Loaders {
					loaderNames = append(loaderNames, n)
				}
				sort.Strings(loaderNames)
				if exceptionOwner(p, f, loaderNames) == "" {
					isPub = true // publication moved into a helper
				}
			}
			if !isPub {
				continue
			}
			n++
			c.Sites++
			key := c.KeyAt(fn, fmt.Sprintf("publication #%d (%s)", n, f.Name()))
			in := call.(ssa.Instruction)
			if eidx < 0 {
				c.Ok(key, c.Pos(in), "function has no error result: it cannot fail after publishing")
				continue
			}
			actx := newAfterCtx(in)
			var bad []string
			nret, exempt := 0, 0
			for _, r := range core.Returns(fn) {
				if !actx.after(r) {
					continue
				}
				nret++
				for _, l := range actx.leaves(r.Results[eidx], r) {
					if okRestore && l.all(func(v ssa.Value) bool { return isRestoreHeaderResult(p, v) }) {
						exempt++
						continue
					}
					if k := classifyLeaf(l); k != core.IsNil {
						what := "a non-nil error"
						if k == core.MaybeNil {
							what = "a possibly non-nil error"
						}
						if l.all(func(v ssa.Value) bool { return isConvertCtxErr(p, v) }) {
							// no exemption: csvq is also used as a library where every statement
							// runs under its own context, so a cancelled statement does not end
							// the transaction; later statements and COMMIT see what was published
							what = "the cancellation error: a statement cancelled here has already published"
						}
						bad = append(bad, fmt.Sprintf("return at %s yields %s (%s)", c.Pos(r), what, valueLabel(l.v)))
					}
				}
			}
			if len(bad) > 0 {
				c.Bad(key, c.Pos(in), "after this publication the statement can still fail: "+strings.Join(dedup(bad), "; ")+" — the caller sees an error but the table already holds the new content")
			} else {
				c.Ok(key, c.Pos(in), fmt.Sprintf("%d return(s) reachable after the publication; each returns nil (%d value(s) exempt: RestoreHeaderReferences cannot fail)", nret, exempt))
			}
		}
		if n == 0 {
			c.Unknown(c.KeyAt(fn, "publication"), c.FnPos(fn), "statement function publishes nothing: the anchor list of R-ISO-5 is out of date")
		}
	}

	// attribute setters: publish by writing the shared FileInfo
	setters := map[*ssa.Function]bool{}
	for _, fn := range p.FuncsIn(false, "lib/query") {
		if fn.Signature.Recv() == nil || !isFileInfoPtr(fn.Signature.Recv().Type()) || core.ErrorResultIndex(fn) < 0 {
			continue
		}
		var stores []*ssa.Store
		for _, b := range fn.Blocks {
			for _, in := range b.Instrs {
				if st, ok := in.(*ssa.Store); ok {
					if fa, ok := st.Addr.(*ssa.FieldAddr); ok && isFileInfoPtr(fa.X.Type()) {
						stores = append(stores, st)
					}
				}
			}
		}
		if len(stores) == 0 {
			continue
		}
		setters[fn] = true
		c.Touch(fn)
		eidx := core.ErrorResultIndex(fn)
		var bad []string
		for _, st := range stores {
			actx := newAfterCtx(st)
			for _, r := range core.Returns(fn) {
				if !actx.after(r) {
					continue
				}
				for _, l := range actx.leaves(r.Results[eidx], r) {
					if classifyLeaf(l) != core.IsNil {
						bad = append(bad, fmt.Sprintf("after the store to %s at %s the return at %s can yield %s", core.FieldOwner(st.Addr), c.Pos(st), c.Pos(r), valueLabel(l.v)))
					}
				}
			}
		}
		key := c.KeyAt(fn, "attribute setter cannot fail after its first store")
		if len(bad) > 0 {
			c.Bad(key, c.FnPos(fn), strings.Join(dedup(bad), "; ")+" — SET attribute would report an error with the attribute already changed")
		} else {
			c.Ok(key, c.FnPos(fn), fmt.Sprintf("%d field store(s); only `return nil` is reachable after them", len(stores)))
		}
	}
	if sta := c.P.Func("lib/query.SetTableAttribute"); sta != nil {
		// setter events: a direct setter call, or a call of a module function / local
		// closure that runs a setter (followed two levels down). In every function of
		// that group the events are pairwise unreachable from each other.
		runsSetter := map[*ssa.Function]int{} // levels below which a setter is called (1 = directly)
		var level func(f *ssa.Function, depth int) int
		level = func(f *ssa.Function, depth int) int {
			if f == nil || f.Blocks == nil || !inModule(f) || setters[f] {
				return 0
			}
			if v, ok := runsSetter[f]; ok {
				return v
			}
			runsSetter[f] = 0
			best := 0
			for _, call := range core.Calls(f) {
				for _, g := range p.Callees(call) {
					if setters[g] {
						best = 1
					} else if depth > 0 {
						if l := level(g, depth-1); l > 0 && (best == 0 || l+1 < best) {
							best = l + 1
						}
					}
				}
			}
			runsSetter[f] = best
			return best
		}
		isEvent := func(call ssa.CallInstruction) bool {
			for _, g := range p.Callees(call) {
				if setters[g] || level(g, 1) > 0 {
					return true
				}
			}
			return false
		}
		key := c.KeyAt(sta, "at most one attribute setter per path")
		bad := ""
		total := 0
		group := []*ssa.Function{sta}
		seenG := map[*ssa.Function]bool{sta: true}
		for i := 0; i < len(group); i++ {
			f := group[i]
			var events []ssa.CallInstruction
			for _, call := range core.Calls(f) {
				if !isEvent(call) {
					continue
				}
				events = append(events, call)
				for _, g := range p.Callees(call) {
					if !setters[g] && !seenG[g] && g.Blocks != nil && inModule(g) {
						seenG[g] = true
						group = append(group, g)
					}
				}
			}
			total += len(events)
			for _, x := range events {
				for _, y := range events {
					if core.Reachable(x.(ssa.Instruction), y.(ssa.Instruction), nil) {
						bad = fmt.Sprintf("in %s, %s at %s can run after %s at %s", p.Name(f), callDesc(p, y), c.Pos(y), callDesc(p, x), c.Pos(x))
					}
				}
			}
		}
		if total == 0 {
			c.Unknown(key, c.FnPos(sta), "no call that runs an attribute setter found in SetTableAttribute or the helpers it calls (2 levels)")
		} else if bad != "" {
			c.Bad(key, c.FnPos(sta), bad+": a failure of the second leaves the first change in place")
		} else {
			c.OkN(key, c.FnPos(sta), fmt.Sprintf("%d call(s) that run a setter in %d function(s) (SetTableAttribute and the helpers it delegates to), pairwise unreachable from each other", total, len(group)), total)
		}
	}
}

// ---------------------------------------------------------------------------
// R-ISO-6

// iso6IsHandler: v is the new handler (the call's result) or FileInfo.Handler.
func iso6IsHandler(v ssa.Value, hval ssa.Value) bool {
	for _, o := range core.Origins(v, false) {
		if hval != nil && o == hval {
			return true
		}
		if u, ok := o.(*ssa.UnOp); ok && u.Op == token.MUL {
			if fa, ok := u.X.(*ssa.FieldAddr); ok && core.FieldOwner(fa) == "lib/query.FileInfo.Handler" {
				return true
			}
		}
	}
	return false
}

// iso6ClosesHandler: the call closes the new handler — Container.Close /
// CloseWithErrors on it (directly or through FileInfo.Handler), or a local
// closure / private helper of fn (followed `depth` levels) that does so on every
// one of its paths, with the handler captured or passed as an argument.
func iso6ClosesHandler(p *core.Prog, fn *ssa.Function, call ssa.CallInstruction, hval ssa.Value, depth int) bool {
	helpers := privateHelpersOf(p, fn, 2)
	return iso6Closes(p, fn, helpers, call, func(v ssa.Value) bool { return iso6IsHandler(v, hval) }, depth)
}

func iso6Closes(p *core.Prog, root *ssa.Function, helpers map[*ssa.Function]bool, call ssa.CallInstruction, isH func(ssa.Value) bool, depth int) bool {
	name := p.CalleeName(call)
	if name == "lib/file.(*Container).Close" || name == "lib/file.(*Container).CloseWithErrors" {
		for _, a := range call.Common().Args {
			if isH(a) {
				return true
			}
		}
		return false
	}
	if depth == 0 {
		return false
	}
	for _, f := range p.Callees(call) {
		if f == nil || f.Blocks == nil || !inModule(f) {
			continue
		}
		local := false
		for q := f.Parent(); q != nil; q = q.Parent() {
			if q == root {
				local = true
			}
		}
		if !local && !helpers[f] {
			continue
		}
		// inside f: FileInfo.Handler, or a parameter that receives the handler
		com := call.Common()
		paramIsHandler := map[ssa.Value]bool{}
		off := 0
		if com.IsInvoke() {
			off = 1
		}
		for i, a := range com.Args {
			if i+off < len(f.Params) && isH(a) {
				paramIsHandler[f.Params[i+off]] = true
			}
		}
		inner := func(v ssa.Value) bool {
			if iso6IsHandler(v, nil) {
				return true
			}
			for _, o := range core.Origins(v, false) {
				if paramIsHandler[o] {
					return true
				}
			}
			return false
		}
		closesIn := func(in ssa.Instruction) bool {
			c2, ok := in.(ssa.CallInstruction)
			return ok && iso6Closes(p, root, helpers, c2, inner, depth-1)
		}
		if core.EscapeFromEntry(f, closesIn, nil) == nil {
			return true
		}
	}
	return false
}

func ruleIso6(c *Ctx) {
	p := c.P
	const creator = "lib/file.(*Container).CreateHandlerForCreate"
	closes := p.NameIs("lib/file.(*Container).Close", "lib/file.(*Container).CloseWithErrors")
	if c.Fn("lib/file.(*Container).Close") == nil || c.Fn(creator) == nil {
		return
	}
	for _, fn := range p.FuncsIn(true, "lib/query") {
		for _, h := range p.CallsNamed(fn, creator) {
			hc, ok := h.(*ssa.Call)
			if !ok {
				continue
			}
			c.Touch(fn)
			c.Sites++
			key := c.KeyAt(fn, "cleanup after CreateHandlerForCreate")
			eidx := core.ErrorResultIndex(fn)
			if eidx < 0 {
				c.Unknown(key, c.Pos(hc), "function creates a file handler but cannot report an error")
				continue
			}
			// the success edge: false successor of the test `err != nil` on the call's error result
			var herr, hval ssa.Value
			for _, rr := range *hc.Referrers() {
				if e, ok := rr.(*ssa.Extract); ok {
					if e.Index == 1 {
						herr = e
					} else {
						hval = e
					}
				}
			}
			var okBlock *ssa.BasicBlock
			if herr != nil {
				// the tested value: the result itself, or its reload from the variable it was assigned to
				tested := []ssa.Value{herr}
				for _, rr := range *herr.Referrers() {
					st, ok := rr.(*ssa.Store)
					if !ok || st.Val != herr {
						continue
					}
					blk := st.Block()
					for i := core.InstrIndex(st) + 1; i < len(blk.Instrs); i++ {
						if s2, ok := blk.Instrs[i].(*ssa.Store); ok && s2.Addr == st.Addr {
							break
						}
						if ld, ok := blk.Instrs[i].(*ssa.UnOp); ok && ld.Op == token.MUL && ld.X == st.Addr {
							tested = append(tested, ld)
						}
					}
				}
				var refs []ssa.Instruction
				for _, tv := range tested {
					refs = append(refs, *tv.Referrers()...)
				}
				for _, rr := range refs {
					cmp, ok := rr.(*ssa.BinOp)
					if !ok {
						continue
					}
					if _, neq, ok := core.NilCmp(cmp); ok {
						for _, r3 := range *cmp.Referrers() {
							if iff, ok := r3.(*ssa.If); ok {
								if neq {
									okBlock = iff.Block().Succs[1]
								} else {
									okBlock = iff.Block().Succs[0]
								}
							}
						}
					}
				}
			}
			if okBlock == nil {
				c.Unknown(key, c.Pos(hc), "the error result of CreateHandlerForCreate is not tested: no success edge to start from")
				continue
			}
			isClose := func(in ssa.Instruction) bool {
				call, ok := in.(ssa.CallInstruction)
				if !ok {
					return false
				}
				if !p.CallReaches(call, closes) {
					return false
				}
				if _, isDefer := in.(*ssa.Defer); isDefer {
					return true // clean-up registered with defer (its own condition is not modelled)
				}
				return iso6ClosesHandler(p, fn, call, hval, 2)
			}
			// returns reachable from the success edge without crossing a close
			first := okBlock.Instrs[0]
			reachNoClose := map[ssa.Instruction]bool{}
			visit := func(in ssa.Instruction) bool {
				if isClose(in) {
					return false
				}
				reachNoClose[in] = true
				return true
			}
			if visit(first) {
				core.WalkFrom(first, visit)
			}
			actx := newAfterCtx(hc)
			var bad []string
			nret, nclosed := 0, 0
			for _, r := range core.Returns(fn) {
				if !actx.after(r) || !(r.Block() == okBlock || okBlock.Dominates(r.Block())) {
					continue
				}
				nret++
				if !reachNoClose[r] {
					nclosed++
					continue
				}
				for _, l := range actx.leaves(r.Results[eidx], r) {
					if k := classifyLeaf(l); k != core.IsNil {
						bad = append(bad, fmt.Sprintf("return at %s yields %s without closing the handler", c.Pos(r), valueLabel(l.v)))
					}
				}
			}
			if len(bad) > 0 {
				c.Bad(key, c.Pos(hc), strings.Join(dedup(bad), "; ")+": the failed CREATE TABLE keeps the lock file and the reserved path until the end of the transaction")
			} else if nret == 0 {
				c.Unknown(key, c.Pos(hc), "no return reachable from the success edge")
			} else {
				c.Ok(key, c.Pos(hc), fmt.Sprintf("%d return(s) after a successful create: %d pass Container.Close on the new handler, the others return nil", nret, nclosed))
			}
		}
	}
}
