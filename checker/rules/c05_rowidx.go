package rules

import (
	"fmt"
	"go/token"
	"go/types"

	"golang.org/x/tools/go/ssa"

	"verif/checker/core"
)

// R-UPD-1: the row written in a target view is computed for that view.
//
// A multi-table UPDATE selects, per SET item, the target view from a map by the
// item's table key and writes RecordSet[id][field] of it, where id is the row
// of *that* table behind the joined record (InternalRecordId(key, i)). Row
// numbers are per table: an id computed for one key and reused for another
// writes a different row of the second table. Structurally: the index of
// `M[k].RecordSet[idx]` must not be a value carried around the loop in which k
// is (re)computed.

func init() {
	Register(&Rule{ID: "R-UPD-1", Props: []string{"C05"}, Floor: 1,
		Doc:      "row index per target: wherever lib/query addresses a row of a view that was selected from a map by a key (M[k].RecordSet[idx], the target of a multi-table UPDATE), the index does not reach the access through a φ at the header of a loop in which k is defined — i.e. it is not a scalar remembered from an earlier iteration, when k named another table; an index looked up in a map under the same key k, or computed in the same iteration, is accepted. A remembered index makes `UPDATE t1, t2 SET t1.a = …, t2.b = …` write t2 at t1's row number while both tables still report one updated row. Decides the freshness of the index with respect to the key, not that InternalRecordId is the right source",
		Controls: []string{"CtlRowIndexRememberedAcrossTargets"},
		Run:      ruleUpd1})
}

func ruleUpd1(c *Ctx) {
	n := 0
	for _, fn := range c.P.FuncsIn(true, "lib/query") {
		var loops []*core.Loop
		k := 0
		for _, b := range fn.Blocks {
			for _, in := range b.Instrs {
				ia, ok := in.(*ssa.IndexAddr)
				if !ok {
					continue
				}
				key := rowTargetKey(ia.X)
				if key == nil {
					continue
				}
				kin, ok := key.(ssa.Instruction)
				if !ok {
					continue // a parameter / constant key does not change inside the function
				}
				if loops == nil {
					loops = core.NaturalLoops(fn)
				}
				var keyLoops []*core.Loop
				for _, l := range loops {
					if l.Blocks[kin.Block()] {
						keyLoops = append(keyLoops, l)
					}
				}
				k++
				n++
				c.Touch(fn)
				okey := c.KeyAt(fn, fmt.Sprintf("row index of the view selected from a map by key #%d", k))
				if len(keyLoops) == 0 {
					c.Ok(okey, c.Pos(ia), "the key is computed once (outside every loop)")
					continue
				}
				if phi := carriedIndex(ia.Index, key, keyLoops, map[ssa.Value]bool{}); phi != nil {
					c.Bad(okey, c.Pos(ia), fmt.Sprintf("the row index reaches this access through a value carried around the loop at %s, in which the key (%s) is recomputed: it may have been computed for another table (row numbers are per table) — a different row of this view is written, or the index is out of range", c.Pos(firstInstr(phi.Block())), c.Pos(kin)))
				} else {
					c.Ok(okey, c.Pos(ia), "the index is computed in the iteration that computed the key, or looked up under that key")
				}
			}
		}
	}
	c.Sites += n
}

func firstInstr(b *ssa.BasicBlock) ssa.Instruction {
	for _, in := range b.Instrs {
		if _, ok := in.(*ssa.Phi); !ok {
			return in
		}
	}
	return b.Instrs[0]
}

// rowTargetKey: v is X.RecordSet with X = M[k] (map lookup); returns k
func rowTargetKey(v ssa.Value) ssa.Value {
	u, ok := v.(*ssa.UnOp)
	if !ok || u.Op != token.MUL {
		return nil
	}
	fa, ok := u.X.(*ssa.FieldAddr)
	if !ok || core.FieldName(fa) != "RecordSet" {
		return nil
	}
	for _, o := range core.Origins(fa.X, false) {
		switch x := o.(type) {
		case *ssa.Lookup:
			if _, isMap := x.X.Type().Underlying().(*types.Map); isMap {
				return x.Index
			}
		case *ssa.Extract:
			if l, ok := x.Tuple.(*ssa.Lookup); ok {
				if _, isMap := l.X.Type().Underlying().(*types.Map); isMap {
					return l.Index
				}
			}
		}
	}
	return nil
}

// carriedIndex: a φ at the header of one of the key's loops on the way from the index back to its sources
func carriedIndex(v ssa.Value, key ssa.Value, keyLoops []*core.Loop, seen map[ssa.Value]bool) ssa.Instruction {
	if v == nil || seen[v] {
		return nil
	}
	seen[v] = true
	switch x := v.(type) {
	case *ssa.Phi:
		for _, l := range keyLoops {
			if x.Block() == l.Header {
				return x
			}
		}
		for _, e := range x.Edges {
			if p := carriedIndex(e, key, keyLoops, seen); p != nil {
				return p
			}
		}
	case *ssa.Lookup:
		// a memo keyed by the same key is exactly the per-target bookkeeping
		return nil
	case *ssa.Extract:
		if l, ok := x.Tuple.(*ssa.Lookup); ok {
			_ = l
			return nil
		}
		return nil // result of a call in this iteration
	case *ssa.UnOp:
		if x.Op == token.MUL {
			switch cell := x.X.(type) {
			case *ssa.Alloc, *ssa.FreeVar:
				// a variable kept in memory (captured / address taken): carried if it is declared outside the key's loops
				// and assigned inside them
				vals, _ := core.StoresTo(cell)
				if al, ok := cell.(*ssa.Alloc); ok {
					for _, l := range keyLoops {
						if !l.Blocks[al.Block()] {
							// declared outside the loop: carried if some assignment sits inside it
							for _, r := range *al.Referrers() {
								if st, ok := r.(*ssa.Store); ok && st.Addr == ssa.Value(al) && l.Blocks[st.Block()] {
									return firstInstr(l.Header)
								}
							}
						}
					}
					for _, s := range vals {
						if p := carriedIndex(s, key, keyLoops, seen); p != nil {
							return p
						}
					}
				}
			}
		}
	case *ssa.BinOp:
		if p := carriedIndex(x.X, key, keyLoops, seen); p != nil {
			return p
		}
		return carriedIndex(x.Y, key, keyLoops, seen)
	case *ssa.Convert:
		return carriedIndex(x.X, key, keyLoops, seen)
	case *ssa.ChangeType:
		return carriedIndex(x.X, key, keyLoops, seen)
	}
	return nil
}
