package rules

import (
	"fmt"
	"sort"
	"strings"

	"golang.org/x/tools/go/ssa"

	"verif/checker/core"
)

// R-CACHE-7 — a release that finds its file already gone is not a failed release. Added after seeded change C20-18
// (DESIGN §8): ControlFile.Close removed the control file without asking whether it still exists and returned the
// error of os.Remove. Handler.close / commit hand that error up, ViewMap.Dispose returns before it deletes the
// entry, ViewMap.Clean stops at the first error, Rollback returns after ReleaseResources failed and Commit returns
// after the rename without reaching ReleaseResources: the table cache survives COMMIT / ROLLBACK and every later
// read is served from it.
//
// What R-TXN-5 (registered for C20) demands is the success paths only; the error paths of Commit / Rollback /
// ReleaseResources / ViewMap.Clean leave the cache in place on today's tree as well (see the report of wk-m9h):
// this rule decides the narrower clause that keeps the documented recovery ("remove the hidden files by hand")
// from being such an error.

const (
	relOsRemove = "os.Remove"
	relExists   = "lib/file.Exists"
)

func init() {
	Register(&Rule{ID: "R-CACHE-7", Props: []string{"C20"}, Floor: 4,
		Doc: "releasing is idempotent: every call of os.Remove in lib/file (the close / commit family of Handler and ControlFile, through which every lock, " +
			"temporary and created file is given back at COMMIT / ROLLBACK) either stands under the true branch of an existence test of the same path " +
			"(file.Exists or os.Stat / os.Lstat without error, on the same value or a load of the same field) or has its error used only under the false branch " +
			"of os.IsNotExist / errors.Is(err, fs.ErrNotExist) of that error: a file that is already gone cannot make the release fail, so it cannot stop " +
			"ViewMap.Dispose / Clean before the cached view is evicted",
		Controls: []string{"CtlReleaseRemoveUnguarded", "CtlReleaseRemoveGuardOtherPath"},
		Run:      ruleCache7})
}

func ruleCache7(c *Ctx) {
	p := c.P
	exists := c.Fn(relExists)
	if exists == nil {
		return
	}
	// existence tests of path v that hold (are true) at block b
	existsTrueAt := func(b *ssa.BasicBlock, path ssa.Value) (bool, string) {
		other := ""
		for _, f := range core.FactsAt(b) {
			cond, neg := core.UnNot(f.Cond)
			holds := f.Neg == neg
			var tested ssa.Value
			what := ""
			switch x := cond.(type) {
			case *ssa.Call:
				if x.Call.StaticCallee() == exists && len(x.Call.Args) == 1 {
					tested, what = x.Call.Args[0], "Exists"
				}
			case *ssa.BinOp:
				// _, err := os.Stat(p); err == nil
				if v, isNeq, ok := core.NilCmp(x); ok {
					if call, idx, ok := core.ExtractOf(v); ok && idx == 1 {
						n := p.CalleeName(call)
						if (n == "os.Stat" || n == "os.Lstat") && len(call.Call.Args) == 1 {
							tested, what = call.Call.Args[0], n
							holds = holds != isNeq // the fact "err == nil" holds
						}
					}
				}
			}
			if tested == nil {
				continue
			}
			if !core.SameCell(tested, path) {
				other = what + " tests another path at " + c.Pos(f.If)
				continue
			}
			if holds {
				return true, what
			}
			other = what + " of the path is false here"
		}
		return false, other
	}
	// the error of the removal is used only where it is known not to be "does not exist"
	notExistFiltered := func(call *ssa.Call) bool {
		refs := call.Referrers()
		if refs == nil {
			return false
		}
		isFilter := func(in ssa.Instruction) bool {
			cc, ok := in.(*ssa.Call)
			if !ok {
				return false
			}
			switch p.CalleeName(cc) {
			case "os.IsNotExist":
				return len(cc.Call.Args) == 1 && core.Strip(cc.Call.Args[0]) == ssa.Value(call)
			case "errors.Is":
				if len(cc.Call.Args) != 2 || core.Strip(cc.Call.Args[0]) != ssa.Value(call) {
					return false
				}
				if u, ok := cc.Call.Args[1].(*ssa.UnOp); ok {
					if g, ok := u.X.(*ssa.Global); ok && g.Name() == "ErrNotExist" {
						return true
					}
				}
			}
			return false
		}
		var filters []*ssa.Call
		for _, r := range *refs {
			if isFilter(r) {
				filters = append(filters, r.(*ssa.Call))
			}
		}
		if len(filters) == 0 {
			return false
		}
		underFalse := func(b *ssa.BasicBlock) bool {
			for _, f := range core.FactsAt(b) {
				cond, neg := core.UnNot(f.Cond)
				for _, fl := range filters {
					if cond == ssa.Value(fl) && f.Neg != neg {
						return true
					}
				}
			}
			return false
		}
		for _, r := range *refs {
			if isFilter(r) {
				continue
			}
			if bo, ok := r.(*ssa.BinOp); ok {
				if _, _, isNil := core.NilCmp(bo); isNil {
					continue
				}
			}
			if _, ok := r.(*ssa.DebugRef); ok {
				continue
			}
			if !underFalse(r.Block()) {
				return false
			}
		}
		return true
	}

	fns := p.FuncsIn(true, "lib/file")
	sort.SliceStable(fns, func(i, j int) bool { return p.Name(fns[i]) < p.Name(fns[j]) })
	for _, fn := range fns {
		if p.IsControl(fn) && !strings.Contains(fn.Name(), "ReleaseRemove") {
			continue // controls of other rules
		}
		n := 0
		for _, ci := range core.Calls(fn) {
			if p.CalleeName(ci) != relOsRemove || len(ci.Common().Args) != 1 {
				continue
			}
			n++
			c.Sites++
			c.Touch(fn)
			key := c.KeyAt(fn, "os.Remove")
			if n > 1 {
				key = fmt.Sprintf("%s #%d", key, n)
			}
			in := ci.(ssa.Instruction)
			ok, what := existsTrueAt(in.Block(), ci.Common().Args[0])
			if ok {
				c.Ok(key, c.Pos(in), "the removal stands under the true branch of "+what+" of the same path: a file that is already gone is not removed and is no error")
				continue
			}
			if call, isCall := ci.(*ssa.Call); isCall && notExistFiltered(call) {
				c.Ok(key, c.Pos(in), "the error of the removal is used only where os.IsNotExist / errors.Is(…, ErrNotExist) has answered false")
				continue
			}
			if what == "" {
				what = "no existence test of the path dominates it"
			}
			c.Bad(key, c.Pos(in), "a lock, temporary or created file that is already gone (removed by hand as the manual's lock recovery tells, or by a clean-up job) makes this release fail ("+what+"): the error stops ViewMap.Dispose before the cached view is evicted and ViewMap.Clean at the first entry — the table cache survives COMMIT / ROLLBACK and later reads do not see the files")
		}
	}
}
