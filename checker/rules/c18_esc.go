package rules

import (
	"fmt"
	"go/token"
	"go/types"
	"sort"
	"strings"

	"golang.org/x/tools/go/ssa"

	"verif/checker/absint"
	"verif/checker/core"
)

// C18 — print/parse round trip. Decided: the escape and unescape tables of
// lib/option/utils.go are mutual inverses and equal the documented escape
// sequences (R-ESC-1); literals are printed through the quoting helpers
// (R-ESC-2). The tables are extracted from the SSA of the functions (switch,
// if-chain or map literal), never from text; the cells of a switch / if-chain
// are evaluated by c18_esc_eval.go.

func init() {
	Register(&Rule{ID: "R-ESC-1", Props: []string{"C18"}, Floor: 60,
		Doc:      "for both pairs (EscapeString/UnescapeString with quote ', EscapeIdentifier/UnescapeIdentifier with quote `): the rune→text table of the escaper and the escaped-rune→rune table of the unescaper, extracted from their switch / if-chain / map literal — in the function itself or in the helper of its package it delegates to, specialised by the constants and function values the call passes — and evaluated for every table key and for an ordinary rune by running the region of the chain in the finite-domain interpreter with the key bound to that rune (a cell is decided only when no condition on its path needs a decision), equal the documented escape sequences cell by cell; for every entry c→\\x of the escaper the unescaper maps x back to c; the quote that QuoteString/QuoteIdentifier put around the text is a key of the escape table",
		Controls: []string{"CtlUnescapeNewlineAsCR", "CtlUnescapePredicateForgetsQuote"},
		Run:      ruleEsc1})
	Register(&Rule{ID: "R-ESC-2", Props: []string{"C18"}, Floor: 5,
		Doc:      "PrimitiveType.String returns option.QuoteString(Literal) on every path where the value is a *value.String or *value.Datetime, Identifier.String returns option.QuoteIdentifier(Literal) on every path where Quoted holds, and (*value.String).String / (*value.Datetime).String return a QuoteString result",
		Controls: []string{"CtlLiteralPrintedRaw"},
		Run:      ruleEsc2})
}

// ---------------------------------------------------------------------------
// rune tables

const fxKeyMark = "\x00" // stands for "the rune being translated" in an arm's output

type fxRuneTable struct {
	form    string
	fn      *ssa.Function
	entries map[rune]string // output with fxKeyMark for the key rune
	pos     map[rune]string
	def     string
	defPos  string
	hasDef  bool
	consts  int // arms that write a constant (what makes it a translation table)
	// run evaluates the cell of a rune that is not in entries exactly (nil: the
	// default arm's text stands for it)
	run  func(k rune) (string, bool)
	memo map[rune]string
}

func (t *fxRuneTable) eval(k rune) string {
	out, ok := t.entries[k]
	if !ok {
		out = t.def
		if m, has := t.memo[k]; has {
			out = m
		} else if t.run != nil {
			if s, decided := t.run(k); decided {
				out = s
				t.memo[k] = s
			}
		}
	}
	return strings.ReplaceAll(out, fxKeyMark, string(k))
}

func fxIsRune(t types.Type) bool {
	b, ok := t.Underlying().(*types.Basic)
	return ok && (b.Kind() == types.Int32 || b.Kind() == types.UntypedRune)
}

// fxWrites renders what the instructions write into a text buffer
// (bytes.Buffer / strings.Builder: WriteString, WriteRune, WriteByte); ok=false
// when an argument is neither a constant nor the key.
func fxWrites(c *Ctx, instrs []ssa.Instruction, isKey func(ssa.Value) bool, mapVal ssa.Value, bind fxBind) (out string, nconst int, ok bool) {
	ok = true
	for _, in := range instrs {
		call, isCall := in.(*ssa.Call)
		if !isCall {
			continue
		}
		name := c.P.CalleeName(call)
		if !(strings.HasPrefix(name, "(*bytes.Buffer).Write") || strings.HasPrefix(name, "(*strings.Builder).Write")) {
			continue
		}
		args := call.Common().Args
		if len(args) != 2 {
			ok = false
			continue
		}
		a := args[1]
		if cv, isConv := a.(*ssa.Convert); isConv { // string(r), byte(r)
			a = cv.X
		}
		switch {
		case isKey(a):
			out += fxKeyMark
		case mapVal != nil && a == mapVal:
			out += "\x01" // replaced by the entry's value
		default:
			if s, isS := core.ConstString(a); isS {
				out += s
				nconst++
			} else if r, isR := core.ConstRune(a); isR {
				out += string(r)
				nconst++
			} else if p, isP := a.(*ssa.Parameter); isP {
				// a parameter of a merged helper bound to a constant at the call site
				// (escapeWithQuote(s, '`') writing its enclosure rune)
				if r, has := bind[p]; has {
					out += string(r)
					nconst++
				} else {
					ok = false
				}
			} else {
				ok = false
			}
		}
	}
	return
}

// fxBind maps parameters of a followed helper to the constant runes passed at
// the call site (`unescape(s, quote, '`')`).
type fxBind map[*ssa.Parameter]rune

// fxRuneTables extracts every rune translation table of fn.
//
// switch / if-chain form: a chain of comparisons of one rune (the key) with
// constants, at least one arm of which writes a constant, marks the head of a
// table. The table itself is obtained by abstract evaluation: for every rune the
// key is compared with between the head and its join block (constants and
// parameters bound to constants, also inside the predicates of the package the
// key is handed to) and for one ordinary rune, the region is executed by the
// finite-domain interpreter (fxCellRunner) and the writes on the single path
// taken are the cell. Nested ifs in a default arm, several chains, comparisons
// with a bound parameter, computed texts and predicates passed as function
// values are therefore all read alike.
func fxRuneTables(c *Ctx, fn *ssa.Function, bind fxBind) []*fxRuneTable {
	return fxRuneTablesIn(c, fn, fxEnvOf(bind))
}

func fxRuneTablesIn(c *Ctx, fn *ssa.Function, env *fxEnv) []*fxRuneTable {
	var out []*fxRuneTable
	bind := fxBind{}
	for v, r := range env.vals {
		if p, isP := v.(*ssa.Parameter); isP && r.K == absint.KConst {
			if i, isI := r.IntVal(); isI {
				bind[p] = rune(i)
			}
		}
	}
	type cand struct {
		d      *core.Dispatch
		region map[*ssa.BasicBlock]bool
		join   *ssa.BasicBlock
	}
	var cands []cand
	for _, d := range core.Dispatches(fn) {
		if !fxIsRune(d.Key.Type()) {
			continue
		}
		join := core.ImmediatePostDominator(d.Head)
		region := map[*ssa.BasicBlock]bool{d.Head: true}
		st := []*ssa.BasicBlock{d.Head}
		for len(st) > 0 {
			b := st[len(st)-1]
			st = st[:len(st)-1]
			for _, su := range b.Succs {
				if su != join && !region[su] {
					region[su] = true
					st = append(st, su)
				}
			}
		}
		cands = append(cands, cand{d, region, join})
	}
	for i, cd := range cands {
		nested := false
		for j, o := range cands {
			if i != j && o.region[cd.d.Head] && !cd.region[o.d.Head] {
				nested = true // part of an enclosing table (e.g. an if inside its default arm)
			}
		}
		if nested {
			continue
		}
		run, keys, ok, why := fxCellRunner(c, fn, cd.d.Head, cd.join, cd.region, cd.d.Key, env)
		if !ok {
			env.note("chain at %s: %s", c.Pos(cd.d.Head.Instrs[len(cd.d.Head.Instrs)-1]), why)
			continue
		}
		t := &fxRuneTable{form: "switch/if-chain", fn: fn, entries: map[rune]string{}, pos: map[rune]string{}, memo: map[rune]string{}}
		good := true
		evalFor := func(k rune) (string, string) {
			cell := run(k)
			if !cell.ok {
				if good {
					env.note("chain at %s, key %s: %s", c.Pos(cd.d.Head.Instrs[len(cd.d.Head.Instrs)-1]), fxRuneName(k), cell.why)
				}
				good = false
				return "", ""
			}
			t.consts += cell.nconst
			p := cell.pos
			if p == "" {
				p = c.Pos(cd.d.Head.Instrs[len(cd.d.Head.Instrs)-1])
			}
			return cell.out, p
		}
		isK := map[rune]bool{}
		for _, k := range keys {
			isK[k] = true
			t.entries[k], t.pos[k] = evalFor(k)
		}
		ord := rune(fxOrdinary)
		for isK[ord] {
			ord++
		}
		t.def, t.defPos = evalFor(ord)
		t.hasDef = true
		if good && t.consts > 0 {
			// a rune that is not a key is evaluated like the keys, on demand
			t.run = func(k rune) (string, bool) {
				cell := run(k)
				return cell.out, cell.ok
			}
			out = append(out, t)
		}
	}
	// map-literal form: `if v, ok := table[r]; ok { buf.WriteString(v) } else { … }`
	for _, b := range fn.Blocks {
		for _, in := range b.Instrs {
			lk, ok := in.(*ssa.Lookup)
			if !ok || !lk.CommaOk {
				continue
			}
			mt, ok := lk.X.Type().Underlying().(*types.Map)
			if !ok || !fxIsRune(mt.Key()) {
				continue
			}
			var entries []core.MapEntry
			for _, o := range core.Origins(lk.X, false) {
				if g, ok := core.Addr(o).(*ssa.Global); ok {
					entries, _ = core.GlobalMapLiteral(g)
				}
				if mk, ok := o.(*ssa.MakeMap); ok {
					entries = core.MapLiteralOf(mk)
				}
			}
			var val, okv ssa.Value
			for _, r := range *lk.Referrers() {
				if ex, isEx := r.(*ssa.Extract); isEx {
					if ex.Index == 0 {
						val = ex
					} else {
						okv = ex
					}
				}
			}
			if len(entries) == 0 || okv == nil {
				continue
			}
			var iff *ssa.If
			for _, r := range *okv.Referrers() {
				if x, isIf := r.(*ssa.If); isIf {
					iff = x
				}
			}
			if iff == nil {
				continue
			}
			key := lk.Index
			isKey := func(v ssa.Value) bool { return v == key || core.SameCell(v, key) }
			join := core.ImmediatePostDominator(iff.Block())
			region := func(start *ssa.BasicBlock) []ssa.Instruction {
				var ins []ssa.Instruction
				seen := map[*ssa.BasicBlock]bool{}
				var walk func(b *ssa.BasicBlock)
				walk = func(b *ssa.BasicBlock) {
					if b == join || seen[b] {
						return
					}
					seen[b] = true
					ins = append(ins, b.Instrs...)
					for _, s := range b.Succs {
						walk(s)
					}
				}
				walk(start)
				return ins
			}
			hit, _, ok1 := fxWrites(c, region(iff.Block().Succs[0]), isKey, val, bind)
			miss, _, ok2 := fxWrites(c, region(iff.Block().Succs[1]), isKey, val, bind)
			if !ok1 || !ok2 {
				continue
			}
			t := &fxRuneTable{form: "map literal", fn: fn, entries: map[rune]string{}, pos: map[rune]string{}, def: miss, defPos: c.Pos(iff), hasDef: true}
			good := true
			for _, e := range entries {
				r, okr := core.ConstRune(e.Key)
				if e.Key == nil || !okr {
					good = false
					continue
				}
				v := ""
				if s, isS := core.ConstString(e.Val); isS {
					v = s
				} else if rr, isR := core.ConstRune(e.Val); isR {
					v = string(rr)
				} else {
					good = false
				}
				t.entries[r] = strings.ReplaceAll(hit, "\x01", v)
				t.pos[r] = c.Pos(e.At)
				t.consts++
			}
			if good {
				out = append(out, t)
			}
		}
	}
	return out
}

// ---------------------------------------------------------------------------
// R-ESC-1

// documented escape sequences (docs/_posts/reference/value.md: "Escape sequences")
func fxEscSpec(quote rune) map[rune]string {
	return map[rune]string{'\a': `\a`, '\b': `\b`, '\f': `\f`, '\n': `\n`, '\r': `\r`, '\t': `\t`, '\v': `\v`, quote: `\` + string(quote), '\\': `\\`}
}

func fxUnescSpec(quote rune) map[rune]string {
	return map[rune]string{'a': "\a", 'b': "\b", 'f': "\f", 'n': "\n", 'r': "\r", 't': "\t", 'v': "\v", '"': `"`, quote: string(quote), '\\': `\`}
}

const fxOrdinary = 'z' // a rune with no special meaning: exercises the default arm

func fxRuneName(r rune) string { return fmt.Sprintf("%q", r) }

type fxEscPair struct {
	esc, unesc, quoter string
	quote              rune
}

func ruleEsc1(c *Ctx) {
	pairs := []fxEscPair{
		{"lib/option.EscapeString", "lib/option.UnescapeString", "lib/option.QuoteString", '\''},
		{"lib/option.EscapeIdentifier", "lib/option.UnescapeIdentifier", "lib/option.QuoteIdentifier", '`'},
	}
	for _, p := range pairs {
		ef, uf, qf := c.Fn(p.esc), c.Fn(p.unesc), c.Fn(p.quoter)
		if ef == nil || uf == nil || qf == nil {
			continue
		}
		fxCheckEscPair(c, ef, uf, qf, p.quote)
	}
	// controls
	byName := map[string]*ssa.Function{}
	for _, fn := range fxCtlFuncs(c) {
		byName[fn.Name()] = fn
	}
	start := len(c.Obs)
	for _, t := range [][3]string{
		{"okEscapeMapForm", "CtlUnescapeNewlineAsCR", "okQuoteMapForm"},
		// tables held by a shared helper specialised by the call (quote rune, predicate)
		{"okEscapeViaSharedHelper", "okUnescapeViaPredicate", "okQuoteViaSharedHelper"},
		{"okEscapeViaSharedHelperB", "CtlUnescapePredicateForgetsQuote", "okQuoteViaSharedHelperB"},
	} {
		ce, cu, cq := byName[t[0]], byName[t[1]], byName[t[2]]
		if ce != nil && cu != nil && cq != nil {
			c.Touch(ce)
			c.Touch(cu)
			fxCheckEscPair(c, ce, cu, cq, '\'')
		}
	}
	if byName["okUnescapeViaPredicate"] != nil {
		c.negControls(start, "okEscapeViaSharedHelper:", "okUnescapeViaPredicate:", "okQuoteViaSharedHelper:")
	}
}

// fxTablesThrough returns the tables of fn or, when fn has none, of the
// functions of its own package it calls (two levels), with the callee's
// parameters bound to what the call passes: constants and function values.
func fxTablesThrough(c *Ctx, fn *ssa.Function, bind fxBind, depth int) []*fxRuneTable {
	return fxTablesIn(c, fn, fxEnvOf(bind), depth)
}

func fxTablesIn(c *Ctx, fn *ssa.Function, env *fxEnv, depth int) []*fxRuneTable {
	ts := fxRuneTablesIn(c, fn, env)
	if len(ts) > 0 || depth == 0 {
		return ts
	}
	for _, ci := range core.Calls(fn) {
		call, ok := ci.(*ssa.Call)
		if !ok {
			continue
		}
		g := core.StaticCallee(call)
		if g == nil || g == fn || g.Blocks == nil || core.FnPkg(g) != core.FnPkg(fn) {
			continue
		}
		c.Touch(g)
		ts = append(ts, fxTablesIn(c, g, fxCalleeEnv(call, g, nil, env), depth-1)...)
	}
	return ts
}

func fxOneTable(c *Ctx, fn *ssa.Function, what string) *fxRuneTable {
	var notes []string
	env := fxEnvOf(nil)
	env.notes = &notes
	ts := fxTablesIn(c, fn, env, 2)
	if len(ts) != 1 {
		why := ""
		if len(notes) > 0 {
			why = "; rejected: " + strings.Join(notes, " | ")
		}
		c.Unknown(c.KeyAt(fn, what+" table"), c.FnPos(fn), fmt.Sprintf("cannot-analyse: expected exactly one rune translation table (switch, if-chain or map literal whose arms write constants) in the function or a helper of its package it calls, found %d%s", len(ts), why))
		return nil
	}
	return ts[0]
}

func fxCheckEscPair(c *Ctx, ef, uf, qf *ssa.Function, quote rune) {
	et := fxOneTable(c, ef, "escape")
	ut := fxOneTable(c, uf, "unescape")
	if et == nil || ut == nil {
		return
	}
	cmp := func(fn *ssa.Function, t *fxRuneTable, spec map[rune]string, defWant string, verb string) {
		keys := map[rune]bool{}
		for k := range spec {
			keys[k] = true
		}
		for k := range t.entries {
			keys[k] = true
		}
		var ks []rune
		for k := range keys {
			ks = append(ks, k)
		}
		sort.Slice(ks, func(i, j int) bool { return ks[i] < ks[j] })
		for _, k := range ks {
			want, inSpec := spec[k]
			if !inSpec {
				want = strings.ReplaceAll(defWant, fxKeyMark, string(k))
			}
			got := t.eval(k)
			key := c.KeyAt(fn, fmt.Sprintf("%s %s", verb, fxRuneName(k)))
			pos := t.pos[k]
			if pos == "" {
				pos = t.defPos
			}
			if got == want {
				c.OkN(key, pos, fmt.Sprintf("%s: %s -> %q as documented", t.form, fxRuneName(k), got), 1)
			} else {
				c.Bad(key, pos, fmt.Sprintf("cell %s of the %s table yields %q, the documented escape sequences say %q", fxRuneName(k), verb, got, want))
			}
		}
		key := c.KeyAt(fn, verb+" ordinary rune")
		want := strings.ReplaceAll(defWant, fxKeyMark, string(fxOrdinary))
		if got := t.eval(fxOrdinary); got == want {
			c.OkN(key, t.defPos, fmt.Sprintf("default arm: %q -> %q", fxOrdinary, got), 1)
		} else {
			c.Bad(key, t.defPos, fmt.Sprintf("default cell: an ordinary rune %q yields %q, expected %q", fxOrdinary, got, want))
		}
	}
	cmp(ef, et, fxEscSpec(quote), fxKeyMark, "escape")
	cmp(uf, ut, fxUnescSpec(quote), `\`+fxKeyMark, "unescape")
	// inverse law, entry by entry of the *extracted* escape table
	var ks []rune
	for k := range et.entries {
		ks = append(ks, k)
	}
	sort.Slice(ks, func(i, j int) bool { return ks[i] < ks[j] })
	for _, k := range ks {
		key := c.KeyAt(uf, fmt.Sprintf("inverse of %s %s", c.P.Name(ef), fxRuneName(k)))
		e := []rune(et.eval(k))
		if len(e) != 2 || e[0] != '\\' {
			c.Bad(key, et.pos[k], fmt.Sprintf("cell %s: escaped form %q is not a backslash followed by one rune, the unescaper cannot invert it", fxRuneName(k), string(e)))
			continue
		}
		back := ut.eval(e[1])
		if back == string(k) {
			c.OkN(key, ut.pos[e[1]], fmt.Sprintf("%s -> %q -> %s", fxRuneName(k), string(e), fxRuneName(k)), 1)
		} else {
			pos := ut.pos[e[1]]
			if pos == "" {
				pos = ut.defPos
			}
			c.Bad(key, pos, fmt.Sprintf("cell %s: escaped as %q but %q is unescaped to %q — a literal containing %s does not survive print → parse", fxRuneName(k), string(e), string(e), back, fxRuneName(k)))
		}
	}
	// the quoting helper surrounds the escaped text with the quote, and the quote is escaped
	key := c.KeyAt(qf, "quote rune is escaped")
	var consts []string
	callsEsc := false
	for _, b := range qf.Blocks {
		for _, in := range b.Instrs {
			switch x := in.(type) {
			case *ssa.BinOp:
				if x.Op == token.ADD {
					for _, o := range []ssa.Value{x.X, x.Y} {
						if s, ok := core.ConstString(o); ok {
							consts = append(consts, s)
						}
					}
				}
			case *ssa.Call:
				if f := core.StaticCallee(x); f == ef {
					callsEsc = true
				}
			}
		}
	}
	switch {
	case !callsEsc:
		c.Bad(key, c.FnPos(qf), fmt.Sprintf("%s does not pass the text through %s: quotes and backslashes inside a literal are printed raw", c.P.Name(qf), c.P.Name(ef)))
	case len(consts) != 2 || consts[0] != consts[1] || len([]rune(consts[0])) != 1:
		c.Bad(key, c.FnPos(qf), fmt.Sprintf("the text is not surrounded by one and the same single-rune quote (found %q)", consts))
	default:
		q := []rune(consts[0])[0]
		_, inTable := et.entries[q]
		if q != quote {
			c.Bad(key, c.FnPos(qf), fmt.Sprintf("quote %s differs from the documented quote %s", fxRuneName(q), fxRuneName(quote)))
		} else if !inTable {
			c.Bad(key, c.FnPos(qf), fmt.Sprintf("the quote %s is not a key of the escape table: a literal containing it is closed early when re-parsed", fxRuneName(q)))
		} else {
			c.Ok(key, c.FnPos(qf), fmt.Sprintf("quote %s is escaped by %s", fxRuneName(q), c.P.Name(ef)))
		}
	}
}

// ---------------------------------------------------------------------------
// R-ESC-2

// fxQuotedReturn: v is the result of a call of quoter applied to (something
// derived from) a field named Literal / a value of the receiver.
func fxIsCallOf(c *Ctx, v ssa.Value, name string) *ssa.Call {
	var found *ssa.Call
	for _, o := range core.Origins(v, false) {
		call, _ := fxCallOf(o)
		if call == nil || c.P.CalleeName(call) != name {
			return nil
		}
		found = call
	}
	return found
}

func ruleEsc2(c *Ctx) {
	// PrimitiveType.String: on the true edge of each `Value.(*value.String|*value.Datetime)` test
	if fn := c.Fn("lib/parser.(PrimitiveType).String"); fn != nil {
		fxCheckPrimitiveString(c, fn)
	}
	for _, fn := range fxCtlFuncs(c) {
		if strings.HasPrefix(fn.Name(), "CtlLiteralPrinted") || strings.HasPrefix(fn.Name(), "okLiteralPrinted") {
			c.Touch(fn)
			fxCheckPrimitiveString(c, fn)
		}
	}
	// Identifier.String
	if fn := c.Fn("lib/parser.(Identifier).String"); fn != nil {
		key := c.KeyAt(fn, "quoted identifier printed through QuoteIdentifier")
		found, bad := false, ""
		for _, b := range fn.Blocks {
			iff, ok := b.Instrs[len(b.Instrs)-1].(*ssa.If)
			if !ok {
				continue
			}
			var fieldName string
			cond, positive := iff.Cond, true
			for {
				u, ok := cond.(*ssa.UnOp)
				if !ok || u.Op != token.NOT {
					break
				}
				cond, positive = u.X, !positive
			}
			switch x := cond.(type) {
			case *ssa.UnOp:
				if fa, ok := x.X.(*ssa.FieldAddr); ok {
					fieldName = core.FieldName(fa)
				}
			case *ssa.Field:
				fieldName = core.FieldName(x)
			}
			if fieldName != "Quoted" {
				continue
			}
			found = true
			quoted := b.Succs[0] // the successor on which Quoted holds
			if !positive {
				quoted = b.Succs[1]
			}
			if len(quoted.Preds) != 1 {
				bad = "the branch on which Quoted holds is shared with other paths: the rule cannot tell what is returned for a quoted identifier"
				continue
			}
			region := core.RegionFrom(quoted)
			for _, r := range core.Returns(fn) {
				if !region[r.Block()] {
					continue
				}
				call := fxIsCallOf(c, r.Results[0], "lib/option.QuoteIdentifier")
				if call == nil || !fxArgIsField(call.Common().Args[0], "Literal") {
					bad = fmt.Sprintf("with Quoted set, the return at %s does not yield option.QuoteIdentifier(Literal): a quoted identifier containing ` or \\ is printed in a form that parses differently", c.Pos(r))
				}
			}
		}
		switch {
		case !found:
			c.Bad(key, c.FnPos(fn), "no test of the Quoted field: quoted identifiers are printed without quotes")
		case bad != "":
			c.Bad(key, c.FnPos(fn), bad)
		default:
			c.Ok(key, c.FnPos(fn), "every return under Quoted yields QuoteIdentifier(Literal)")
		}
	}
	// value.String / value.Datetime print themselves quoted (used when a literal has no source text)
	for _, tn := range []string{"String", "Datetime"} {
		// value or pointer receiver
		fn := c.FnOpt("lib/value.(" + tn + ").String")
		if fn == nil {
			fn = c.Fn("lib/value.(*" + tn + ").String")
		}
		if fn == nil {
			continue
		}
		key := c.KeyAt(fn, "printed through QuoteString")
		ok := true
		for _, r := range core.Returns(fn) {
			if fxIsCallOf(c, r.Results[0], "lib/option.QuoteString") == nil {
				ok = false
			}
		}
		if ok {
			c.Ok(key, c.FnPos(fn), "every return yields option.QuoteString(…)")
		} else {
			c.Bad(key, c.FnPos(fn), "a return does not yield option.QuoteString(…): string/datetime values print without escaping")
		}
	}
}

func fxArgIsField(v ssa.Value, field string) bool {
	for _, o := range core.Origins(v, false) {
		if fa := fxFieldLoad(o); fa != nil && core.FieldName(fa) == field {
			return true
		}
		if f, ok := o.(*ssa.Field); ok && core.FieldName(f) == field {
			return true
		}
	}
	return false
}

func fxCheckPrimitiveString(c *Ctx, fn *ssa.Function) {
	for _, tn := range []string{"lib/value.String", "lib/value.Datetime"} {
		key := c.KeyAt(fn, "literal of *"+tn[strings.LastIndex(tn, "/")+1:]+" printed through QuoteString")
		found, bad := false, ""
		for _, b := range fn.Blocks {
			for _, in := range b.Instrs {
				ta, ok := in.(*ssa.TypeAssert)
				if !ok || !ta.CommaOk || core.NamedOf(ta.AssertedType) != tn {
					continue
				}
				// the If on the ok component
				for _, r := range *ta.Referrers() {
					ex, ok := r.(*ssa.Extract)
					if !ok || ex.Index != 1 {
						continue
					}
					for _, rr := range *ex.Referrers() {
						iff, ok := rr.(*ssa.If)
						if !ok {
							continue
						}
						found = true
						t := iff.Block().Succs[0]
						region := core.RegionFrom(t)
						n := 0
						for _, ret := range core.Returns(fn) {
							if !region[ret.Block()] {
								continue
							}
							n++
							call := fxIsCallOf(c, ret.Results[0], "lib/option.QuoteString")
							if call == nil || !fxArgIsField(call.Common().Args[0], "Literal") {
								bad = fmt.Sprintf("when the value is a *%s the return at %s does not yield option.QuoteString(Literal): the literal is printed without quotes/escapes and re-parses as something else", tn, c.Pos(ret))
							}
						}
						if n == 0 {
							bad = "no return reachable from the type test"
						}
					}
				}
			}
		}
		switch {
		case !found:
			c.Bad(key, c.FnPos(fn), "no type test for *"+tn+": such literals are printed raw (unquoted), which re-parses as an identifier or number")
		case bad != "":
			c.Bad(key, c.FnPos(fn), bad)
		default:
			c.Ok(key, c.FnPos(fn), "every return reachable from the type test yields QuoteString(Literal)")
		}
	}
}
