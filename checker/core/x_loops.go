package core

import (
	"go/token"

	"golang.org/x/tools/go/ssa"
)

// ---------------------------------------------------------------------------
// Natural loops, induction variables and linear index expressions
// (used by the scope rules R-SCP-1/3/5 and the cursor rule R-CUR-4).

// Loop is a natural loop: Header dominates every block of Blocks, Latches are
// the sources of the back edges into Header.
type Loop struct {
	Header  *ssa.BasicBlock
	Blocks  map[*ssa.BasicBlock]bool
	Latches []*ssa.BasicBlock
}

// NaturalLoops returns the natural loops of fn (back edges b→h with h
// dominating b; loops sharing a header are merged), ordered by header index.
func NaturalLoops(fn *ssa.Function) []*Loop {
	byHeader := map[*ssa.BasicBlock]*Loop{}
	var order []*ssa.BasicBlock
	for _, b := range fn.Blocks {
		for _, h := range b.Succs {
			if !h.Dominates(b) {
				continue
			}
			l := byHeader[h]
			if l == nil {
				l = &Loop{Header: h, Blocks: map[*ssa.BasicBlock]bool{h: true}}
				byHeader[h] = l
				order = append(order, h)
			}
			l.Latches = append(l.Latches, b)
			// blocks that reach b without passing h
			stack := []*ssa.BasicBlock{b}
			for len(stack) > 0 {
				x := stack[len(stack)-1]
				stack = stack[:len(stack)-1]
				if l.Blocks[x] {
					continue
				}
				l.Blocks[x] = true
				for _, p := range x.Preds {
					stack = append(stack, p)
				}
			}
		}
	}
	for i := 1; i < len(order); i++ {
		for j := i; j > 0 && order[j].Index < order[j-1].Index; j-- {
			order[j], order[j-1] = order[j-1], order[j]
		}
	}
	var out []*Loop
	for _, h := range order {
		out = append(out, byHeader[h])
	}
	return out
}

// InnermostLoop returns the smallest loop of loops that contains b, or nil.
func InnermostLoop(loops []*Loop, b *ssa.BasicBlock) *Loop {
	var best *Loop
	for _, l := range loops {
		if l.Blocks[b] && (best == nil || len(l.Blocks) < len(best.Blocks)) {
			best = l
		}
	}
	return best
}

// ExitEdges lists the edges (from, to) that leave the loop from a block other
// than the header (the header's own exit is the "sequence exhausted" exit).
func (l *Loop) ExitEdges(includeHeader bool) [][2]*ssa.BasicBlock {
	var out [][2]*ssa.BasicBlock
	for b := range l.Blocks {
		if b == l.Header && !includeHeader {
			continue
		}
		for _, s := range b.Succs {
			if !l.Blocks[s] {
				out = append(out, [2]*ssa.BasicBlock{b, s})
			}
		}
	}
	// deterministic order
	for i := 1; i < len(out); i++ {
		for j := i; j > 0 && (out[j][0].Index < out[j-1][0].Index || (out[j][0].Index == out[j-1][0].Index && out[j][1].Index < out[j-1][1].Index)); j-- {
			out[j], out[j-1] = out[j-1], out[j]
		}
	}
	return out
}

// LinearIndex rewrites v as base + off by peeling `x + c`, `c + x` and `x - c`
// with integer constants c. base is nil when v is itself a constant.
func LinearIndex(v ssa.Value) (base ssa.Value, off int64) {
	for {
		if c, ok := ConstInt(v); ok {
			return nil, off + c
		}
		b, ok := v.(*ssa.BinOp)
		if !ok {
			return v, off
		}
		switch b.Op {
		case token.ADD:
			if c, ok := ConstInt(b.Y); ok {
				off += c
				v = b.X
				continue
			}
			if c, ok := ConstInt(b.X); ok {
				off += c
				v = b.Y
				continue
			}
		case token.SUB:
			if c, ok := ConstInt(b.Y); ok {
				off -= c
				v = b.X
				continue
			}
		}
		return v, off
	}
}

// Induction recognises p = phi[init, p+step, p+step …] with a constant step:
// it returns the initial value (constant → initConst,true; otherwise the SSA
// value in initVal) and the step.
func Induction(p *ssa.Phi) (initVal ssa.Value, initConst int64, initIsConst bool, step int64, ok bool) {
	haveStep := false
	nInit := 0
	for _, e := range p.Edges {
		base, off := LinearIndex(e)
		if base == p {
			if haveStep && off != step {
				return nil, 0, false, 0, false
			}
			step, haveStep = off, true
			continue
		}
		nInit++
		if nInit > 1 {
			return nil, 0, false, 0, false
		}
		if base == nil {
			initConst, initIsConst = off, true
		} else {
			initVal = e
		}
	}
	if !haveStep || nInit != 1 || step == 0 {
		return nil, 0, false, 0, false
	}
	return initVal, initConst, initIsConst, step, true
}

// ReachesAvoiding reports whether `to` can be reached from the entry of fn on a
// path that crosses no instruction for which avoid holds.
func ReachesAvoiding(fn *ssa.Function, to ssa.Instruction, avoid func(ssa.Instruction) bool) bool {
	found := false
	WalkFromEntry(fn, func(in ssa.Instruction) bool {
		if found {
			return false
		}
		if in == to {
			found = true
			return false
		}
		return !avoid(in)
	})
	return found
}
