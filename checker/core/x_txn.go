package core

import (
	"go/token"
	"strings"

	"golang.org/x/tools/go/ssa"
)

// Helpers added for the transaction-skeleton rules (C01): edge-pruned
// reachability, backward data dependence, structural access paths.

// EdgeCut decides whether the CFG edge from→to is removed from a query.
type EdgeCut func(from, to *ssa.BasicBlock) bool

// WalkPruned visits the instructions reachable from b.Instrs[start:] in CFG
// order. visit returns false to cut the path after that instruction; edges for
// which cut returns true are not followed (cut may be nil). Every block is
// entered at most once from its top (the start block may be re-entered at 0).
func WalkPruned(b *ssa.BasicBlock, start int, visit func(ssa.Instruction) bool, cut EdgeCut) {
	seen := map[*ssa.BasicBlock]bool{}
	var walk func(b *ssa.BasicBlock, start int)
	walk = func(b *ssa.BasicBlock, start int) {
		for i := start; i < len(b.Instrs); i++ {
			if !visit(b.Instrs[i]) {
				return
			}
		}
		for _, s := range b.Succs {
			if cut != nil && cut(b, s) {
				continue
			}
			if !seen[s] {
				seen[s] = true
				walk(s, 0)
			}
		}
	}
	walk(b, start)
}

// ReachesFromEntry reports whether `target` can execute on some path from the
// function entry that crosses no `stop` instruction and no cut edge.
func ReachesFromEntry(fn *ssa.Function, target ssa.Instruction, stop func(ssa.Instruction) bool, cut EdgeCut) bool {
	if len(fn.Blocks) == 0 {
		return false
	}
	found := false
	WalkPruned(fn.Blocks[0], 0, func(in ssa.Instruction) bool {
		if in == target {
			found = true
			return false
		}
		if found || (stop != nil && stop(in)) {
			return false
		}
		return true
	}, cut)
	return found
}

// ReachesAfter reports whether `target` can execute after `from` (exclusive) on
// a path that crosses no `stop` instruction and no cut edge. target == from is
// answered by re-reaching from through a cycle.
func ReachesAfter(from, target ssa.Instruction, stop func(ssa.Instruction) bool, cut EdgeCut) bool {
	found := false
	WalkPruned(from.Block(), InstrIndex(from)+1, func(in ssa.Instruction) bool {
		if in == target {
			found = true
			return false
		}
		if found || (stop != nil && stop(in)) {
			return false
		}
		return true
	}, cut)
	return found
}

// ExitsAfter returns the Return/Panic instructions reachable after `from`
// without crossing a stop instruction or a cut edge.
func ExitsAfter(from ssa.Instruction, stop func(ssa.Instruction) bool, cut EdgeCut) []ssa.Instruction {
	return exitsFrom(from.Block(), InstrIndex(from)+1, stop, cut)
}

// ExitsFromEntry is ExitsAfter starting at the function entry.
func ExitsFromEntry(fn *ssa.Function, stop func(ssa.Instruction) bool, cut EdgeCut) []ssa.Instruction {
	if len(fn.Blocks) == 0 {
		return nil
	}
	return exitsFrom(fn.Blocks[0], 0, stop, cut)
}

func exitsFrom(b *ssa.BasicBlock, start int, stop func(ssa.Instruction) bool, cut EdgeCut) []ssa.Instruction {
	var out []ssa.Instruction
	WalkPruned(b, start, func(in ssa.Instruction) bool {
		if stop != nil && stop(in) {
			return false
		}
		switch in.(type) {
		case *ssa.Return, *ssa.Panic:
			out = append(out, in)
			return false
		}
		return true
	}, cut)
	return out
}

// DependsOn reports whether value v is computed from src: src occurs in the
// backward data-dependence slice of v through operands of instructions (Phi,
// Extract, field/index addressing and loads, conversions, calls, Next/Range,
// Lookup) and through the stores into local cells that v loads.
func DependsOn(v, src ssa.Value) bool {
	seen := map[ssa.Value]bool{}
	var walk func(v ssa.Value) bool
	walk = func(v ssa.Value) bool {
		if v == nil {
			return false
		}
		if v == src {
			return true
		}
		if seen[v] {
			return false
		}
		seen[v] = true
		switch x := v.(type) {
		case *ssa.Const, *ssa.Global, *ssa.Function, *ssa.Builtin, *ssa.Parameter, *ssa.FreeVar:
			return false
		case *ssa.Alloc:
			vals, _ := StoresTo(x)
			for _, s := range vals {
				if walk(s) {
					return true
				}
			}
			return false
		}
		in, ok := v.(ssa.Instruction)
		if !ok {
			return false
		}
		for _, op := range in.Operands(nil) {
			if op != nil && *op != nil && walk(*op) {
				return true
			}
		}
		return false
	}
	return walk(v)
}

// AccessPath renders a value as root·field·… when it is obtained from a root
// SSA value by field selections and pointer loads only ("t29.FileInfo.Handler");
// two values with the same path denote the same object as long as the fields on
// the path are not reassigned in between. ok=false for anything else.
func AccessPath(v ssa.Value) (root ssa.Value, path string, ok bool) {
	switch x := v.(type) {
	case *ssa.UnOp:
		if x.Op != token.MUL {
			return v, "", true
		}
		if fa, isFA := x.X.(*ssa.FieldAddr); isFA {
			r, p, k := AccessPath(fa.X)
			return r, p + "." + FieldName(fa), k
		}
		return v, "", true
	case *ssa.Field:
		r, p, k := AccessPath(x.X)
		return r, p + "." + FieldName(x), k
	case *ssa.ChangeInterface:
		return AccessPath(x.X)
	case *ssa.ChangeType:
		return AccessPath(x.X)
	}
	return v, "", true
}

// SamePath: both values are the same root followed by the same field path.
func SamePath(a, b ssa.Value) bool {
	ra, pa, oka := AccessPath(a)
	rb, pb, okb := AccessPath(b)
	return oka && okb && ra == rb && pa == pb
}

// BlockInstr returns the first instruction of a block (nil for an empty block).
func BlockInstr(b *ssa.BasicBlock) ssa.Instruction {
	if len(b.Instrs) == 0 {
		return nil
	}
	return b.Instrs[0]
}

// IfOf returns the If terminating block b, or nil.
func IfOf(b *ssa.BasicBlock) *ssa.If {
	if len(b.Instrs) == 0 {
		return nil
	}
	iff, _ := b.Instrs[len(b.Instrs)-1].(*ssa.If)
	if iff == nil || len(b.Succs) != 2 || b.Succs[0] == b.Succs[1] {
		return nil
	}
	return iff
}

// CondEdge classifies the edge from→to of a block ending in `If cond`:
// returns (cond, true) when the edge is taken iff cond holds, (cond, false)
// when it is taken iff cond does not hold, ok=false when from has no If.
func CondEdge(from, to *ssa.BasicBlock) (cond ssa.Value, holds bool, ok bool) {
	iff := IfOf(from)
	if iff == nil {
		return nil, false, false
	}
	if from.Succs[0] == to {
		return iff.Cond, true, true
	}
	if from.Succs[1] == to {
		return iff.Cond, false, true
	}
	return nil, false, false
}

// UnNot peels `!x` off a condition: returns (x, true) if negated.
func UnNot(v ssa.Value) (ssa.Value, bool) {
	neg := false
	for {
		u, ok := v.(*ssa.UnOp)
		if !ok || u.Op != token.NOT {
			return v, neg
		}
		v = u.X
		neg = !neg
	}
}

// CanReach computes, by one backward search over the call graph, the set of
// functions from which a function named in names is reachable (the named
// functions included). Functions named in barrier are members when they reach
// a target, but the search does not continue to their callers: "f reaches X"
// then means "without passing through a barrier function" (used to keep
// generic interpreters such as ExecuteStatement from making everything reach
// everything). Closures count as callable from the function that creates them,
// as in ReachSet. Results are memoised per (program, names, barrier).
func (p *Prog) CanReach(names []string, barrier []string) map[*ssa.Function]bool {
	key := strings.Join(names, ",") + "|" + strings.Join(barrier, ",")
	memo := canReachMemo[p]
	if memo == nil {
		memo = map[string]map[*ssa.Function]bool{}
		canReachMemo[p] = memo
	}
	if m, ok := memo[key]; ok {
		return m
	}
	cg := p.CG()
	isTarget := p.NameIs(names...)
	isBarrier := p.NameIs(barrier...)
	set := map[*ssa.Function]bool{}
	var stack []*ssa.Function
	for f := range cg.Nodes {
		if f != nil && isTarget(f) {
			set[f] = true
			stack = append(stack, f)
		}
	}
	for len(stack) > 0 {
		f := stack[len(stack)-1]
		stack = stack[:len(stack)-1]
		if len(barrier) > 0 && isBarrier(f) && !isTarget(f) {
			continue
		}
		if n := cg.Nodes[f]; n != nil {
			for _, e := range n.In {
				g := e.Caller.Func
				if !set[g] {
					set[g] = true
					stack = append(stack, g)
				}
			}
		}
		if par := f.Parent(); par != nil && !set[par] {
			set[par] = true
			stack = append(stack, par)
		}
	}
	memo[key] = set
	return set
}

var canReachMemo = map[*Prog]map[string]map[*ssa.Function]bool{}

// CallIn reports whether the call site may invoke a member of set (directly,
// through the call graph for dynamic calls, or through a closure passed as an
// argument).
func (p *Prog) CallIn(c ssa.CallInstruction, set map[*ssa.Function]bool) bool {
	for _, f := range p.Callees(c) {
		if set[f] {
			return true
		}
	}
	for _, a := range c.Common().Args {
		if mc, ok := a.(*ssa.MakeClosure); ok {
			if f, ok := mc.Fn.(*ssa.Function); ok && set[f] {
				return true
			}
		}
	}
	return false
}
