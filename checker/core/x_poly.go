package core

// Engine E11: a linear/polynomial normaliser for integer SSA expressions.
//
// An expression built from atoms (named by the caller: parameters, field loads),
// integer constants, + − * and opaque quotients is rewritten to a polynomial
// normal form with int64 coefficients. Two expressions are equal iff their normal
// forms are; substitution of an atom by a polynomial is exact. No solver is
// involved; what does not normalise is reported as such (ok=false).

import (
	"go/token"
	"sort"
	"strconv"
	"strings"

	"golang.org/x/tools/go/ssa"
)

// Poly maps a monomial (its atoms, sorted, joined by "·"; "" is the constant
// monomial) to a non-zero coefficient.
type Poly map[string]int64

const polySep = "·"

func PolyConst(k int64) Poly {
	if k == 0 {
		return Poly{}
	}
	return Poly{"": k}
}

func PolyAtom(name string) Poly { return Poly{name: 1} }

func (p Poly) clean() Poly {
	for k, v := range p {
		if v == 0 {
			delete(p, k)
		}
	}
	return p
}

func (p Poly) Add(q Poly) Poly {
	r := Poly{}
	for k, v := range p {
		r[k] += v
	}
	for k, v := range q {
		r[k] += v
	}
	return r.clean()
}

func (p Poly) Neg() Poly {
	r := Poly{}
	for k, v := range p {
		r[k] = -v
	}
	return r
}

func (p Poly) Sub(q Poly) Poly { return p.Add(q.Neg()) }

func monoMul(a, b string) string {
	if a == "" {
		return b
	}
	if b == "" {
		return a
	}
	xs := append(strings.Split(a, polySep), strings.Split(b, polySep)...)
	sort.Strings(xs)
	return strings.Join(xs, polySep)
}

func (p Poly) Mul(q Poly) Poly {
	r := Poly{}
	for k1, v1 := range p {
		for k2, v2 := range q {
			r[monoMul(k1, k2)] += v1 * v2
		}
	}
	return r.clean()
}

func (p Poly) Equal(q Poly) bool { return len(p.Sub(q)) == 0 }

func (p Poly) IsZero() bool { return len(p) == 0 }

// Const reports the value of a constant polynomial.
func (p Poly) Const() (int64, bool) {
	switch len(p) {
	case 0:
		return 0, true
	case 1:
		if v, ok := p[""]; ok {
			return v, true
		}
	}
	return 0, false
}

// Subst replaces every occurrence of atom by q.
func (p Poly) Subst(atom string, q Poly) Poly {
	r := Poly{}
	for k, v := range p {
		term := PolyConst(v)
		if k != "" {
			for _, a := range strings.Split(k, polySep) {
				if a == atom {
					term = term.Mul(q)
				} else {
					term = term.Mul(PolyAtom(a))
				}
			}
		}
		r = r.Add(term)
	}
	return r
}

func (p Poly) String() string {
	if len(p) == 0 {
		return "0"
	}
	var ks []string
	for k := range p {
		ks = append(ks, k)
	}
	sort.Strings(ks)
	var sb strings.Builder
	for i, k := range ks {
		v := p[k]
		switch {
		case i > 0 && v >= 0:
			sb.WriteString(" + ")
		case i > 0:
			sb.WriteString(" - ")
			v = -v
		case v < 0:
			sb.WriteString("-")
			v = -v
		}
		switch {
		case k == "":
			sb.WriteString(strconv.FormatInt(v, 10))
		case v == 1:
			sb.WriteString(k)
		default:
			sb.WriteString(strconv.FormatInt(v, 10) + polySep + k)
		}
	}
	return sb.String()
}

// PolyNorm normalises v. atom names the leaves (parameters, loads …); resolve, when
// non-nil, is applied first to every value (path-sensitive resolution of phis).
func PolyNorm(v ssa.Value, atom func(ssa.Value) (string, bool), resolve func(ssa.Value) ssa.Value) (Poly, bool) {
	return polyNorm(v, atom, resolve, 0)
}

func polyNorm(v ssa.Value, atom func(ssa.Value) (string, bool), resolve func(ssa.Value) ssa.Value, depth int) (Poly, bool) {
	if depth > 24 {
		return nil, false
	}
	if resolve != nil {
		v = resolve(v)
	}
	if k, ok := ConstInt(v); ok {
		return PolyConst(k), true
	}
	if name, ok := atom(v); ok {
		return PolyAtom(name), true
	}
	switch x := v.(type) {
	case *ssa.BinOp:
		a, ok1 := polyNorm(x.X, atom, resolve, depth+1)
		b, ok2 := polyNorm(x.Y, atom, resolve, depth+1)
		if !ok1 || !ok2 {
			return nil, false
		}
		switch x.Op {
		case token.ADD:
			return a.Add(b), true
		case token.SUB:
			return a.Sub(b), true
		case token.MUL:
			return a.Mul(b), true
		case token.QUO:
			if k, isConst := b.Const(); isConst && k == 1 {
				return a, true
			}
			return PolyAtom(strings.ReplaceAll("("+a.String()+")/("+b.String()+")", polySep, "*")), true
		}
	case *ssa.Convert:
		return polyNorm(x.X, atom, resolve, depth+1)
	}
	return nil, false
}
