// Package core loads /repo's current working tree as a type-checked program,
// builds its SSA form and a VTA call graph, and offers the primitives the
// rules are written with (anchors, call resolution, CFG reachability,
// dominance, branch facts, value origins).
package core

import (
	"fmt"
	"go/ast"
	"go/token"
	"go/types"
	"os"
	"path/filepath"
	"sort"
	"strings"
	"sync"

	"golang.org/x/tools/go/callgraph"
	"golang.org/x/tools/go/callgraph/cha"
	"golang.org/x/tools/go/callgraph/vta"
	"golang.org/x/tools/go/packages"
	"golang.org/x/tools/go/ssa"
	"golang.org/x/tools/go/ssa/ssautil"
)

const ModPath = "github.com/mithrandie/csvq"

// ControlPkg is the import path suffix of the overlay package that holds the
// positive controls (tiny deliberately-violating functions).
const ControlPkg = "lib/zzverifpositive"

// MinPackages is the number of csvq packages confirmed by hand (main + 13 lib
// packages); fewer means the load was incomplete.
const MinPackages = 14

type Prog struct {
	Repo    string
	GOOS    string
	GOARCH  string
	Fset    *token.FileSet
	Pkgs    []*packages.Package // csvq packages (incl. the control package)
	ByPath  map[string]*packages.Package
	SSA     *ssa.Program
	SSAPkgs map[string]*ssa.Package // by short path ("lib/query")

	funcs     map[string]*ssa.Function // by short name
	funcNames map[*ssa.Function]string
	srcFuncs  []*ssa.Function

	cgOnce sync.Once
	cg     *callgraph.Graph

	reachMemo map[*ssa.Function]map[*ssa.Function]bool
}

// Short returns the package path relative to the module ("lib/query", "" for main).
func Short(path string) string {
	if path == ModPath {
		return "main"
	}
	return strings.TrimPrefix(path, ModPath+"/")
}

// Load type-checks ./... of repo (plus the overlay files) and builds SSA.
func Load(repo string, overlay map[string][]byte, goos, goarch string) (*Prog, error) {
	env := []string{}
	for _, e := range os.Environ() {
		if strings.HasPrefix(e, "GOFLAGS=") || strings.HasPrefix(e, "GOPROXY=") ||
			strings.HasPrefix(e, "GOSUMDB=") || strings.HasPrefix(e, "GOTOOLCHAIN=") ||
			strings.HasPrefix(e, "GOWORK=") || strings.HasPrefix(e, "GOOS=") ||
			strings.HasPrefix(e, "GOARCH=") || strings.HasPrefix(e, "CGO_ENABLED=") {
			continue
		}
		env = append(env, e)
	}
	env = append(env, "GOFLAGS=-mod=mod", "GOPROXY=off", "GOSUMDB=off", "GOTOOLCHAIN=local", "GOWORK=off", "CGO_ENABLED=0")
	if goos != "" {
		env = append(env, "GOOS="+goos)
	}
	if goarch != "" {
		env = append(env, "GOARCH="+goarch)
	}
	fset := token.NewFileSet()
	cfg := &packages.Config{
		Mode:    packages.LoadAllSyntax,
		Dir:     repo,
		Env:     env,
		Fset:    fset,
		Tests:   false,
		Overlay: overlay,
	}
	pkgs, err := packages.Load(cfg, "./...")
	if err != nil {
		return nil, fmt.Errorf("packages.Load: %v", err)
	}
	var errs []string
	packages.Visit(pkgs, nil, func(p *packages.Package) {
		for _, e := range p.Errors {
			errs = append(errs, e.Error())
		}
	})
	if len(errs) > 0 {
		sort.Strings(errs)
		if len(errs) > 10 {
			errs = errs[:10]
		}
		return nil, fmt.Errorf("type/load errors: %s", strings.Join(errs, "; "))
	}
	p := &Prog{Repo: repo, GOOS: goos, GOARCH: goarch, Fset: fset,
		ByPath: map[string]*packages.Package{}, SSAPkgs: map[string]*ssa.Package{},
		funcs: map[string]*ssa.Function{}, funcNames: map[*ssa.Function]string{},
		reachMemo: map[*ssa.Function]map[*ssa.Function]bool{}}
	n := 0
	for _, pk := range pkgs {
		if pk.PkgPath == ModPath || strings.HasPrefix(pk.PkgPath, ModPath+"/") {
			p.Pkgs = append(p.Pkgs, pk)
			p.ByPath[Short(pk.PkgPath)] = pk
			if !strings.HasSuffix(pk.PkgPath, ControlPkg) {
				n++
			}
		}
	}
	if n < MinPackages && goos == "" {
		return nil, fmt.Errorf("only %d csvq packages loaded from %s (expected >= %d)", n, repo, MinPackages)
	}
	sort.Slice(p.Pkgs, func(i, j int) bool { return p.Pkgs[i].PkgPath < p.Pkgs[j].PkgPath })
	prog, spkgs := ssautil.AllPackages(pkgs, ssa.InstantiateGenerics)
	_ = spkgs
	prog.Build()
	p.SSA = prog
	for _, sp := range prog.AllPackages() {
		path := sp.Pkg.Path()
		if path == ModPath || strings.HasPrefix(path, ModPath+"/") {
			p.SSAPkgs[Short(path)] = sp
		}
	}
	all := ssautil.AllFunctions(prog)
	for fn := range all {
		if fn.Pkg == nil && fn.Parent() == nil {
			continue
		}
		pk := FnPkg(fn)
		if pk == nil {
			continue
		}
		path := pk.Pkg.Path()
		if !(path == ModPath || strings.HasPrefix(path, ModPath+"/")) {
			continue
		}
		if fn.Synthetic != "" && fn.Parent() == nil {
			// wrappers, thunks, bound methods, init: keep only package init out
			continue
		}
		name := Short(path) + "." + fn.RelString(pk.Pkg)
		p.funcs[name] = fn
		p.funcNames[fn] = name
		if fn.Blocks != nil {
			p.srcFuncs = append(p.srcFuncs, fn)
		}
	}
	sort.Slice(p.srcFuncs, func(i, j int) bool { return p.funcNames[p.srcFuncs[i]] < p.funcNames[p.srcFuncs[j]] })
	return p, nil
}

// FnPkg returns the package a function (or its outermost parent) belongs to.
func FnPkg(fn *ssa.Function) *ssa.Package {
	for fn != nil {
		if fn.Pkg != nil {
			return fn.Pkg
		}
		if fn.Parent() == nil {
			if o := fn.Origin(); o != nil && o != fn {
				fn = o
				continue
			}
			return nil
		}
		fn = fn.Parent()
	}
	return nil
}

// Func resolves an anchor such as "lib/query.(*Transaction).Commit"; nil if absent.
func (p *Prog) Func(name string) *ssa.Function { return p.funcs[name] }

// Name is the short name of a csvq function ("" for foreign functions).
func (p *Prog) Name(fn *ssa.Function) string {
	if n, ok := p.funcNames[fn]; ok {
		return n
	}
	if fn == nil {
		return "<nil>"
	}
	return fn.String()
}

// SrcFuncs returns every csvq function that has a body (incl. anonymous
// functions and the control package), sorted by name.
func (p *Prog) SrcFuncs() []*ssa.Function { return p.srcFuncs }

// IsControl reports whether fn belongs to the positive-control overlay package.
func (p *Prog) IsControl(fn *ssa.Function) bool {
	pk := FnPkg(fn)
	return pk != nil && strings.HasSuffix(pk.Pkg.Path(), ControlPkg)
}

// InPkg reports whether fn belongs to one of the given short package paths.
func (p *Prog) InPkg(fn *ssa.Function, short ...string) bool {
	pk := FnPkg(fn)
	if pk == nil {
		return false
	}
	s := Short(pk.Pkg.Path())
	for _, x := range short {
		if s == x {
			return true
		}
	}
	return false
}

// FuncsIn returns the source functions of the given packages (plus control
// package functions when withControls).
func (p *Prog) FuncsIn(withControls bool, short ...string) []*ssa.Function {
	var out []*ssa.Function
	for _, fn := range p.srcFuncs {
		if p.InPkg(fn, short...) || (withControls && p.IsControl(fn)) {
			out = append(out, fn)
		}
	}
	return out
}

// Pos formats a position relative to the repository root.
func (p *Prog) Pos(pos token.Pos) string {
	if !pos.IsValid() {
		return "-"
	}
	ps := p.Fset.Position(pos)
	f := ps.Filename
	if rel, err := filepath.Rel(p.Repo, f); err == nil && !strings.HasPrefix(rel, "..") {
		f = rel
	}
	return fmt.Sprintf("%s:%d", f, ps.Line)
}

// InstrPos gives the best position known for an instruction.
func (p *Prog) InstrPos(in ssa.Instruction) string {
	if in == nil {
		return "-"
	}
	if in.Pos().IsValid() {
		return p.Pos(in.Pos())
	}
	// fall back to the nearest positioned instruction of the block, then the function
	if b := in.Block(); b != nil {
		for _, x := range b.Instrs {
			if x.Pos().IsValid() {
				return p.Pos(x.Pos())
			}
		}
	}
	if in.Parent() != nil {
		return p.Pos(in.Parent().Pos())
	}
	return "-"
}

// CG builds (once) the VTA call graph refined from CHA.
func (p *Prog) CG() *callgraph.Graph {
	p.cgOnce.Do(func() {
		all := ssautil.AllFunctions(p.SSA)
		p.cg = vta.CallGraph(all, cha.CallGraph(p.SSA))
	})
	return p.cg
}

// Type looks up a named type, e.g. ("lib/query", "View").
func (p *Prog) Type(short, name string) types.Type {
	pk := p.ByPath[short]
	if pk == nil {
		return nil
	}
	o := pk.Types.Scope().Lookup(name)
	if o == nil {
		return nil
	}
	return o.Type()
}

// Syntax returns the parsed files of a csvq package.
func (p *Prog) Syntax(short string) []*ast.File {
	pk := p.ByPath[short]
	if pk == nil {
		return nil
	}
	return pk.Syntax
}

// Info returns the types.Info of a csvq package.
func (p *Prog) Info(short string) *types.Info {
	pk := p.ByPath[short]
	if pk == nil {
		return nil
	}
	return pk.TypesInfo
}
