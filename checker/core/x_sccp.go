package core

// Partial evaluation of a function under hypotheses — sparse conditional
// constant propagation over go/ssa, interprocedural by descent into chosen
// callees (engine used by R-FMT-10).
//
// Lattice per SSA value: ⊥ (not computed on any executable path) < a constant /
// an interface value of a known dynamic type / a tuple of such < ⊤ (depends on
// something the hypotheses do not fix). Branches whose condition is a constant
// make only one successor executable; a φ joins the operands of its executable
// edges only. The fixpoint is the classical optimistic one (Wegman–Zadeck): the
// result "constant c" for a value means that on EVERY execution compatible with
// the hypotheses the value is c — whatever the values that stayed ⊤ are.
//
// Besides the lattice value every abstract value carries a mark: "computed from
// a marked value" (operands, call arguments, receivers). Rules use it to tell
// which values derive from the hypothesised input.

import (
	"fmt"
	"go/constant"
	"go/token"
	"go/types"
	"strings"

	"golang.org/x/tools/go/ssa"
)

type PKind int

const (
	PBot PKind = iota
	PConst
	PDyn   // interface value whose dynamic type is T (content unknown)
	PTuple // results of a call
	PTop
)

// PV is an abstract value of the partial evaluator.
type PV struct {
	K    PKind
	C    constant.Value // PConst
	T    types.Type     // PDyn
	Els  []PV           // PTuple
	Mark bool
}

func PVConst(c constant.Value) PV { return PV{K: PConst, C: c} }
func PVBool(b bool) PV            { return PV{K: PConst, C: constant.MakeBool(b)} }
func PVTop(mark bool) PV          { return PV{K: PTop, Mark: mark} }
func PVDyn(t types.Type, mark bool) PV {
	return PV{K: PDyn, T: t, Mark: mark}
}

// Bool returns the value of a boolean constant.
func (v PV) Bool() (val, known bool) {
	if v.K == PConst && v.C != nil && v.C.Kind() == constant.Bool {
		return constant.BoolVal(v.C), true
	}
	return false, false
}

// Str returns the value of a string constant.
func (v PV) Str() (string, bool) {
	if v.K == PConst && v.C != nil && v.C.Kind() == constant.String {
		return constant.StringVal(v.C), true
	}
	return "", false
}

func (v PV) String() string {
	m := ""
	if v.Mark {
		m = "*"
	}
	switch v.K {
	case PBot:
		return "⊥" + m
	case PConst:
		if v.C == nil {
			return "nil" + m
		}
		return v.C.ExactString() + m
	case PDyn:
		return "dyn(" + types.TypeString(v.T, nil) + ")" + m
	case PTuple:
		parts := make([]string, len(v.Els))
		for i, e := range v.Els {
			parts[i] = e.String()
		}
		return "(" + strings.Join(parts, ", ") + ")" + m
	}
	return "⊤" + m
}

func pvEqual(a, b PV) bool {
	if a.K != b.K || a.Mark != b.Mark {
		return false
	}
	switch a.K {
	case PConst:
		if a.C == nil || b.C == nil {
			return a.C == nil && b.C == nil
		}
		return a.C.Kind() == b.C.Kind() && constant.Compare(a.C, token.EQL, b.C)
	case PDyn:
		return types.Identical(a.T, b.T)
	case PTuple:
		if len(a.Els) != len(b.Els) {
			return false
		}
		for i := range a.Els {
			if !pvEqual(a.Els[i], b.Els[i]) {
				return false
			}
		}
	}
	return true
}

// PVJoin is the least upper bound.
func PVJoin(a, b PV) PV {
	mark := a.Mark || b.Mark
	if a.K == PBot {
		b.Mark = mark
		return b
	}
	if b.K == PBot {
		a.Mark = mark
		return a
	}
	if a.K == PTuple && b.K == PTuple && len(a.Els) == len(b.Els) {
		els := make([]PV, len(a.Els))
		for i := range els {
			els[i] = PVJoin(a.Els[i], b.Els[i])
		}
		return PV{K: PTuple, Els: els, Mark: mark}
	}
	x, y := a, b
	x.Mark, y.Mark = false, false
	if x.K != PTop && y.K != PTop && pvEqual(x, y) {
		a.Mark = mark
		return a
	}
	return PV{K: PTop, Mark: mark}
}

// PEval is one partial evaluation (a set of hypotheses).
type PEval struct {
	P *Prog
	// Refine may replace a value the transfer functions leave at ⊤ (a field of
	// the options, the hypothesised input …); ok=false keeps ⊤.
	Refine func(fn *ssa.Function, v ssa.Value) (PV, bool)
	// Enter: descend into this static callee (it has a body).
	Enter func(callee *ssa.Function) bool
	// MaxDepth bounds the descent (default 6); a call beyond it yields ⊤ and is
	// recorded in Skipped.
	MaxDepth int
	Skipped  []ssa.CallInstruction

	memo map[string]*PFrame
	busy map[*ssa.Function]int
}

// PFrame is the fixpoint of one function for one vector of arguments.
type PFrame struct {
	Fn     *ssa.Function
	Args   []PV
	Result PV // join of the executable returns (PTuple for several results)
	vals   map[ssa.Value]PV
	reach  map[*ssa.BasicBlock]bool
	edge   map[[2]int]bool
	ev     *PEval
	depth  int
}

// Val is the abstract value of v in the frame (constants evaluate to themselves).
func (f *PFrame) Val(v ssa.Value) PV { return f.get(v) }

// Executable reports whether the block can be entered under the hypotheses.
func (f *PFrame) Executable(b *ssa.BasicBlock) bool { return f.reach[b] }

func (f *PFrame) get(v ssa.Value) PV {
	switch x := v.(type) {
	case *ssa.Const:
		if x.Value == nil {
			return PV{K: PTop} // nil / zero value of a non-basic type
		}
		return PVConst(x.Value)
	case *ssa.Function, *ssa.Builtin, *ssa.Global:
		return PV{K: PTop}
	}
	return f.vals[v]
}

func pvKey(fn *ssa.Function, args []PV) string {
	var sb strings.Builder
	fmt.Fprintf(&sb, "%p", fn)
	for _, a := range args {
		sb.WriteString("|")
		sb.WriteString(a.String())
	}
	return sb.String()
}

// Run evaluates fn on args (missing arguments are ⊤, then refined).
func (e *PEval) Run(fn *ssa.Function, args []PV) *PFrame { return e.run(fn, args, 0) }

func (e *PEval) run(fn *ssa.Function, args []PV, depth int) *PFrame {
	if e.memo == nil {
		e.memo = map[string]*PFrame{}
		e.busy = map[*ssa.Function]int{}
	}
	if e.MaxDepth == 0 {
		e.MaxDepth = 6
	}
	key := pvKey(fn, args)
	if f, ok := e.memo[key]; ok {
		return f
	}
	f := &PFrame{Fn: fn, Args: args, vals: map[ssa.Value]PV{}, reach: map[*ssa.BasicBlock]bool{}, edge: map[[2]int]bool{}, ev: e, depth: depth}
	for i, p := range fn.Params {
		var pv PV
		if i < len(args) {
			pv = args[i]
		} else {
			pv = PV{K: PTop}
		}
		f.vals[p] = f.refine(p, pv)
	}
	for _, fv := range fn.FreeVars {
		f.vals[fv] = f.refine(fv, PV{K: PTop})
	}
	e.busy[fn]++
	f.solve()
	e.busy[fn]--
	e.memo[key] = f
	return f
}

func (f *PFrame) refine(v ssa.Value, pv PV) PV {
	if pv.K == PTop && f.ev.Refine != nil {
		if r, ok := f.ev.Refine(f.Fn, v); ok {
			r.Mark = r.Mark || pv.Mark
			return r
		}
	}
	return pv
}

func (f *PFrame) solve() {
	fn := f.Fn
	if len(fn.Blocks) == 0 {
		f.Result = PV{K: PTop}
		return
	}
	f.reach[fn.Blocks[0]] = true
	for changed := true; changed; {
		changed = false
		for _, b := range fn.Blocks {
			if !f.reach[b] {
				continue
			}
			for _, in := range b.Instrs {
				switch x := in.(type) {
				case *ssa.If:
					c := f.get(x.Cond)
					t, known := c.Bool()
					for i, s := range b.Succs {
						live := false
						switch {
						case c.K == PBot:
						case known:
							live = (i == 0) == t
						default:
							live = true
						}
						if live && !f.edge[[2]int{b.Index, s.Index}] {
							f.edge[[2]int{b.Index, s.Index}] = true
							f.reach[s] = true
							changed = true
						}
					}
				case *ssa.Jump:
					s := b.Succs[0]
					if !f.edge[[2]int{b.Index, s.Index}] {
						f.edge[[2]int{b.Index, s.Index}] = true
						f.reach[s] = true
						changed = true
					}
				case *ssa.Return:
					var r PV
					if len(x.Results) == 1 {
						r = f.get(x.Results[0])
					} else {
						r = PV{K: PTuple, Els: make([]PV, len(x.Results))}
						for i, rv := range x.Results {
							r.Els[i] = f.get(rv)
						}
					}
					j := PVJoin(f.Result, r)
					if !pvEqual(j, f.Result) {
						f.Result = j
						changed = true
					}
				default:
					v, ok := in.(ssa.Value)
					if !ok {
						continue
					}
					nv := PVJoin(f.vals[v], f.refine(v, f.transfer(v)))
					if !pvEqual(nv, f.vals[v]) {
						f.vals[v] = nv
						changed = true
					}
				}
			}
		}
	}
}

func (f *PFrame) marks(in ssa.Instruction) bool {
	for _, op := range in.Operands(nil) {
		if op != nil && *op != nil && f.get(*op).Mark {
			return true
		}
	}
	return false
}

func (f *PFrame) transfer(v ssa.Value) PV {
	in := v.(ssa.Instruction)
	top := func() PV { return PV{K: PTop, Mark: f.marks(in)} }
	switch x := v.(type) {
	case *ssa.Phi:
		var out PV
		b := x.Block()
		for i, p := range b.Preds {
			if f.edge[[2]int{p.Index, b.Index}] {
				out = PVJoin(out, f.get(x.Edges[i]))
			}
		}
		return out
	case *ssa.BinOp:
		a, b := f.get(x.X), f.get(x.Y)
		if a.K == PBot || b.K == PBot {
			return PV{K: PBot, Mark: a.Mark || b.Mark}
		}
		if a.K == PConst && b.K == PConst && a.C != nil && b.C != nil {
			if r, ok := pvFold(x.Op, a.C, b.C); ok {
				return PV{K: PConst, C: r, Mark: a.Mark || b.Mark}
			}
		}
		return top()
	case *ssa.UnOp:
		a := f.get(x.X)
		if a.K == PBot {
			return a
		}
		if a.K == PConst && a.C != nil {
			switch {
			case x.Op == token.NOT && a.C.Kind() == constant.Bool:
				return PV{K: PConst, C: constant.MakeBool(!constant.BoolVal(a.C)), Mark: a.Mark}
			case x.Op == token.SUB && a.C.Kind() == constant.Int:
				return PV{K: PConst, C: constant.UnaryOp(token.SUB, a.C, 0), Mark: a.Mark}
			}
		}
		return top()
	case *ssa.Extract:
		t := f.get(x.Tuple)
		switch t.K {
		case PBot:
			return t
		case PTuple:
			if x.Index < len(t.Els) {
				r := t.Els[x.Index]
				r.Mark = r.Mark || t.Mark
				return r
			}
		}
		return PV{K: PTop, Mark: t.Mark}
	case *ssa.MakeInterface:
		a := f.get(x.X)
		if a.K == PBot {
			return a
		}
		return PVDyn(x.X.Type(), a.Mark)
	case *ssa.ChangeInterface:
		return f.get(x.X)
	case *ssa.ChangeType:
		return f.get(x.X)
	case *ssa.TypeAssert:
		a := f.get(x.X)
		if a.K == PBot {
			return a
		}
		if a.K != PDyn {
			if x.CommaOk {
				return PV{K: PTuple, Els: []PV{{K: PTop, Mark: a.Mark}, {K: PTop, Mark: a.Mark}}, Mark: a.Mark}
			}
			return PV{K: PTop, Mark: a.Mark}
		}
		var ok bool
		if it, isI := x.AssertedType.Underlying().(*types.Interface); isI {
			ok = types.Implements(a.T, it)
		} else {
			ok = types.Identical(a.T, x.AssertedType)
		}
		res := PV{K: PTop, Mark: a.Mark}
		if _, isI := x.AssertedType.Underlying().(*types.Interface); isI && ok {
			res = PVDyn(a.T, a.Mark)
		}
		if x.CommaOk {
			return PV{K: PTuple, Els: []PV{res, {K: PConst, C: constant.MakeBool(ok), Mark: a.Mark}}, Mark: a.Mark}
		}
		return res
	case *ssa.Call:
		return f.call(x)
	}
	return top()
}

func pvFold(op token.Token, a, b constant.Value) (constant.Value, bool) {
	switch op {
	case token.EQL, token.NEQ:
		if a.Kind() != b.Kind() {
			return nil, false
		}
		return constant.MakeBool(constant.Compare(a, op, b)), true
	case token.LSS, token.LEQ, token.GTR, token.GEQ:
		if a.Kind() != b.Kind() || a.Kind() == constant.Bool {
			return nil, false
		}
		return constant.MakeBool(constant.Compare(a, op, b)), true
	case token.ADD:
		if a.Kind() == constant.String && b.Kind() == constant.String {
			return constant.BinaryOp(a, op, b), true
		}
	}
	return nil, false
}

func (f *PFrame) call(x *ssa.Call) PV {
	com := x.Common()
	mark := false
	args := make([]PV, len(com.Args))
	for i, a := range com.Args {
		args[i] = f.get(a)
		if args[i].K == PBot {
			return PV{K: PBot}
		}
		mark = mark || args[i].Mark
	}
	if com.IsInvoke() {
		r := f.get(com.Value)
		if r.K == PBot {
			return r
		}
		return PV{K: PTop, Mark: mark || r.Mark}
	}
	if b, ok := com.Value.(*ssa.Builtin); ok {
		if b.Name() == "len" && len(args) == 1 {
			if s, isS := args[0].Str(); isS {
				return PV{K: PConst, C: constant.MakeInt64(int64(len(s))), Mark: mark}
			}
		}
		return PV{K: PTop, Mark: mark}
	}
	callee := com.StaticCallee()
	if callee == nil {
		return PV{K: PTop, Mark: mark || f.get(com.Value).Mark}
	}
	if mc, ok := com.Value.(*ssa.MakeClosure); ok {
		for _, b := range mc.Bindings {
			mark = mark || f.get(b).Mark
		}
	}
	if callee.Blocks == nil || f.ev.Enter == nil || !f.ev.Enter(callee) {
		return PV{K: PTop, Mark: mark}
	}
	if f.ev.busy[callee] > 0 || f.depth+1 > f.ev.MaxDepth {
		f.ev.Skipped = append(f.ev.Skipped, x)
		return PV{K: PTop, Mark: mark}
	}
	sub := f.ev.run(callee, args, f.depth+1)
	r := sub.Result
	if r.K == PBot {
		// the callee never returns under the hypotheses (panics / loops)
		return PV{K: PBot, Mark: mark}
	}
	r.Mark = r.Mark || mark
	if r.K == PTuple {
		els := make([]PV, len(r.Els))
		for i, e := range r.Els {
			e.Mark = e.Mark || mark
			els[i] = e
		}
		r.Els = els
	}
	return r
}

// Visit calls fn for every instruction of the executable blocks of the frame and,
// recursively, of the frames of the callees that were entered from it with the
// final (fixpoint) arguments. Each (function, arguments) frame is visited once.
func (f *PFrame) Visit(visit func(fr *PFrame, in ssa.Instruction)) {
	f.visit(visit, map[*PFrame]bool{})
}

func (f *PFrame) visit(visit func(fr *PFrame, in ssa.Instruction), seen map[*PFrame]bool) {
	if seen[f] {
		return
	}
	seen[f] = true
	for _, b := range f.Fn.Blocks {
		if !f.reach[b] {
			continue
		}
		for _, in := range b.Instrs {
			visit(f, in)
			call, ok := in.(*ssa.Call)
			if !ok || call.Common().IsInvoke() {
				continue
			}
			callee := call.Common().StaticCallee()
			if callee == nil || callee.Blocks == nil || f.ev.Enter == nil || !f.ev.Enter(callee) {
				continue
			}
			args := make([]PV, len(call.Common().Args))
			bot := false
			for i, a := range call.Common().Args {
				args[i] = f.get(a)
				bot = bot || args[i].K == PBot
			}
			if bot {
				continue
			}
			if sub, ok := f.ev.memo[pvKey(callee, args)]; ok {
				sub.visit(visit, seen)
			}
		}
	}
}
