package core

import (
	"sort"
	"strings"

	"golang.org/x/tools/go/ssa"
)

// Reachers returns the set of functions from which a function satisfying pred
// is transitively callable (the targets included): one backward traversal of the
// call graph instead of one forward ReachSet per call site. Closures count as
// callable from the function that defines them (as in ReachSet).
func (p *Prog) Reachers(pred func(*ssa.Function) bool) map[*ssa.Function]bool {
	cg := p.CG()
	set := map[*ssa.Function]bool{}
	var stack []*ssa.Function
	push := func(f *ssa.Function) {
		if f != nil && !set[f] {
			set[f] = true
			stack = append(stack, f)
		}
	}
	for f := range cg.Nodes {
		if f != nil && pred(f) {
			push(f)
		}
	}
	for len(stack) > 0 {
		f := stack[len(stack)-1]
		stack = stack[:len(stack)-1]
		if n := cg.Nodes[f]; n != nil {
			for _, e := range n.In {
				push(e.Caller.Func)
			}
		}
		if par := f.Parent(); par != nil {
			push(par)
		}
	}
	return set
}

var reachersMemo = map[*Prog]map[string]map[*ssa.Function]bool{}

// ReachersOfNames is Reachers for FnRef names, memoised per program.
func (p *Prog) ReachersOfNames(names ...string) map[*ssa.Function]bool {
	sorted := append([]string(nil), names...)
	sort.Strings(sorted)
	key := strings.Join(sorted, "|")
	if reachersMemo[p] == nil {
		reachersMemo[p] = map[string]map[*ssa.Function]bool{}
	}
	if s, ok := reachersMemo[p][key]; ok {
		return s
	}
	idx := p.refIndex()
	want := map[*ssa.Function]bool{}
	for _, n := range names {
		for _, f := range idx[n] {
			want[f] = true
		}
	}
	s := p.Reachers(func(f *ssa.Function) bool { return want[f] })
	reachersMemo[p][key] = s
	return s
}

var refIndexMemo = map[*Prog]map[string][]*ssa.Function{}

// refIndex maps FnRef names to the call-graph functions bearing them (built once).
func (p *Prog) refIndex() map[string][]*ssa.Function {
	if m, ok := refIndexMemo[p]; ok {
		return m
	}
	m := map[string][]*ssa.Function{}
	for f := range p.CG().Nodes {
		if f != nil {
			n := p.FnRef(f)
			m[n] = append(m[n], f)
		}
	}
	refIndexMemo[p] = m
	return m
}

// CallMayReach reports whether the call site may (transitively) invoke a
// function of the set computed by Reachers (same semantics as CallReaches).
func (p *Prog) CallMayReach(c ssa.CallInstruction, set map[*ssa.Function]bool) bool {
	for _, f := range p.Callees(c) {
		if set[f] {
			return true
		}
	}
	for _, a := range c.Common().Args {
		if mc, ok := a.(*ssa.MakeClosure); ok {
			if f, ok := mc.Fn.(*ssa.Function); ok && set[f] {
				return true
			}
		}
	}
	return false
}
