package core

import (
	"go/token"
	"go/types"

	"golang.org/x/tools/go/ssa"
)

// ---------------------------------------------------------------------------
// Path queries (DESIGN Appendix B.3)

// EscapeWithout returns an exit instruction (Return/Panic) reachable from just
// after `from` on a path that crosses no instruction satisfying isTarget, or
// nil if every path to an exit passes a target. Blocks refuted by `prune`
// (optional: returns true for an edge from→to that cannot be taken) are skipped.
func EscapeWithout(from ssa.Instruction, isTarget func(ssa.Instruction) bool, prune func(from, to *ssa.BasicBlock) bool) ssa.Instruction {
	return escape(from.Block(), InstrIndex(from)+1, isTarget, prune)
}

// EscapeFromEntry is EscapeWithout starting at the function entry.
func EscapeFromEntry(fn *ssa.Function, isTarget func(ssa.Instruction) bool, prune func(from, to *ssa.BasicBlock) bool) ssa.Instruction {
	if len(fn.Blocks) == 0 {
		return nil
	}
	return escape(fn.Blocks[0], 0, isTarget, prune)
}

func escape(b *ssa.BasicBlock, start int, isTarget func(ssa.Instruction) bool, prune func(from, to *ssa.BasicBlock) bool) ssa.Instruction {
	seen := map[*ssa.BasicBlock]bool{}
	var found ssa.Instruction
	var walk func(b *ssa.BasicBlock, start int)
	walk = func(b *ssa.BasicBlock, start int) {
		if found != nil {
			return
		}
		for i := start; i < len(b.Instrs); i++ {
			in := b.Instrs[i]
			if isTarget(in) {
				return
			}
			switch in.(type) {
			case *ssa.Return, *ssa.Panic:
				found = in
				return
			}
		}
		for _, s := range b.Succs {
			if prune != nil && prune(b, s) {
				continue
			}
			if !seen[s] {
				seen[s] = true
				walk(s, 0)
			}
		}
	}
	walk(b, start)
	return found
}

// ReachableInstrs returns every instruction reachable after `from` without
// crossing a `stop` instruction (stop instructions themselves are included).
func ReachableInstrs(from ssa.Instruction, stop func(ssa.Instruction) bool) []ssa.Instruction {
	var out []ssa.Instruction
	WalkFrom(from, func(in ssa.Instruction) bool {
		out = append(out, in)
		return stop == nil || !stop(in)
	})
	return out
}

// CallsWhere lists the call instructions of fn (not descending into closures)
// for which pred holds.
func CallsWhere(fn *ssa.Function, pred func(ssa.CallInstruction) bool) []ssa.CallInstruction {
	var out []ssa.CallInstruction
	for _, c := range Calls(fn) {
		if pred(c) {
			out = append(out, c)
		}
	}
	return out
}

// CallsNamed lists the call sites in fn whose static callee / invoked method
// has one of the given CalleeName names.
func (p *Prog) CallsNamed(fn *ssa.Function, names ...string) []ssa.CallInstruction {
	set := map[string]bool{}
	for _, n := range names {
		set[n] = true
	}
	return CallsWhere(fn, func(c ssa.CallInstruction) bool { return set[p.CalleeName(c)] })
}

// CallsReaching lists the call sites of fn that may transitively invoke a
// function named in names (direct calls included).
func (p *Prog) CallsReaching(fn *ssa.Function, names ...string) []ssa.CallInstruction {
	pred := p.NameIs(names...)
	return CallsWhere(fn, func(c ssa.CallInstruction) bool { return p.CallReaches(c, pred) })
}

// ---------------------------------------------------------------------------
// Returned values with defer-spilled result cells (Appendix B.2)

// ReturnOperand returns the possible values of result #idx at return r, reading
// through a result cell when the function spills results (defer). The set is
// computed by a backward search for the stores to the cell that reach r.
func ReturnOperand(r *ssa.Return, idx int) []ssa.Value {
	if idx >= len(r.Results) {
		return nil
	}
	v := r.Results[idx]
	u, ok := v.(*ssa.UnOp)
	if !ok || u.Op != token.MUL {
		return []ssa.Value{v}
	}
	al, ok := u.X.(*ssa.Alloc)
	if !ok {
		return []ssa.Value{v}
	}
	return ReachingStores(al, u)
}

// ReachingStores returns the values of the stores to cell that may be the most
// recent one when `at` executes (backward CFG search). If the function entry
// is reached without a store, the zero value is represented by a nil entry.
func ReachingStores(cell *ssa.Alloc, at ssa.Instruction) []ssa.Value {
	var out []ssa.Value
	seenVal := map[ssa.Value]bool{}
	seen := map[*ssa.BasicBlock]bool{}
	var back func(b *ssa.BasicBlock, from int)
	back = func(b *ssa.BasicBlock, from int) {
		for i := from; i >= 0; i-- {
			if st, ok := b.Instrs[i].(*ssa.Store); ok && st.Addr == cell {
				if !seenVal[st.Val] {
					seenVal[st.Val] = true
					out = append(out, st.Val)
				}
				return
			}
		}
		if len(b.Preds) == 0 {
			if !seenVal[nil] {
				seenVal[nil] = true
				out = append(out, nil)
			}
			return
		}
		for _, p := range b.Preds {
			if !seen[p] {
				seen[p] = true
				back(p, len(p.Instrs)-1)
			}
		}
	}
	back(at.Block(), InstrIndex(at)-1)
	return out
}

// ErrorResultIndex returns the index of the last result if it is of type error.
func ErrorResultIndex(fn *ssa.Function) int {
	res := fn.Signature.Results()
	if res.Len() == 0 {
		return -1
	}
	if IsErrorType(res.At(res.Len() - 1).Type()) {
		return res.Len() - 1
	}
	return -1
}

func IsErrorType(t types.Type) bool {
	return types.Identical(t, types.Universe.Lookup("error").Type())
}

// NilKind classifies an error value at an instruction.
type NilKind int

const (
	MaybeNil NilKind = iota
	IsNil
	NonNil
)

// alwaysNonNil: every return's error result is a freshly built non-nil value.
var nonNilMemo = map[*ssa.Function]int{}

// AlwaysNonNil reports whether result #idx of fn is non-nil on every return
// (an allocation converted to an interface, or the result of such a function).
func AlwaysNonNil(fn *ssa.Function, idx int) bool {
	if fn == nil || fn.Blocks == nil {
		return false
	}
	switch nonNilMemo[fn] {
	case 1:
		return true // optimistic for recursion
	case 2:
		return true
	case 3:
		return false
	}
	nonNilMemo[fn] = 1
	ok := true
	rets := Returns(fn)
	if len(rets) == 0 {
		ok = false
	}
	for _, r := range rets {
		for _, v := range ReturnOperand(r, idx) {
			if v == nil || ClassifyNil(v, r) != NonNil {
				ok = false
			}
		}
	}
	if ok {
		nonNilMemo[fn] = 2
	} else {
		nonNilMemo[fn] = 3
	}
	return ok
}

// ClassifyNil decides whether value v is nil / non-nil at instruction `at`.
func ClassifyNil(v ssa.Value, at ssa.Instruction) NilKind {
	if v == nil {
		return IsNil // zero value of a result cell
	}
	if IsNilConst(v) {
		return IsNil
	}
	sawNon, sawNil, sawMaybe := false, false, false
	for _, o := range nilOrigins(v) {
		switch x := o.(type) {
		case *ssa.Const:
			if x.Value == nil {
				sawNil = true
			} else {
				sawNon = true
			}
		case *ssa.MakeInterface, *ssa.Alloc:
			sawNon = true // an interface holding a concrete value is non-nil
		case *ssa.Call:
			if f := StaticCallee(x); f != nil && AlwaysNonNil(f, resultIndexFor(f, x)) {
				sawNon = true
			} else {
				sawMaybe = true
			}
		case *ssa.Extract:
			if c, ok := x.Tuple.(*ssa.Call); ok {
				if f := StaticCallee(c); f != nil && AlwaysNonNil(f, x.Index) {
					sawNon = true
					continue
				}
			}
			sawMaybe = true
		case *ssa.MakeClosure, *ssa.Function, *ssa.MakeSlice, *ssa.MakeMap, *ssa.MakeChan:
			sawNon = true
		default:
			sawMaybe = true
		}
	}
	if at != nil {
		if NonNilAt(v, at) {
			return NonNil
		}
		if NilAt(v, at) {
			return IsNil
		}
	}
	switch {
	case sawMaybe || (sawNon && sawNil):
		return MaybeNil
	case sawNon:
		return NonNil
	case sawNil:
		return IsNil
	}
	return MaybeNil
}

func resultIndexFor(f *ssa.Function, c *ssa.Call) int {
	if f.Signature.Results().Len() == 1 {
		return 0
	}
	return f.Signature.Results().Len() - 1
}

// ---------------------------------------------------------------------------
// Values on the paths that start at a given block

// RegionFrom returns the blocks reachable from start (inclusive).
func RegionFrom(start *ssa.BasicBlock) map[*ssa.BasicBlock]bool {
	r := map[*ssa.BasicBlock]bool{start: true}
	st := []*ssa.BasicBlock{start}
	for len(st) > 0 {
		b := st[len(st)-1]
		st = st[:len(st)-1]
		for _, s := range b.Succs {
			if !r[s] {
				r[s] = true
				st = append(st, s)
			}
		}
	}
	return r
}

// ValuesOnPathsFrom returns the values v can have at instruction `at` on
// executions that pass through block `start` before reaching `at`: Phi nodes
// located in the region are restricted to the incoming edges that lie in the
// region (or that come from `startPred`, the block whose edge leads into start), and local cells are
// read through the stores that reach `at` along such paths. A nil entry stands
// for the zero value of a cell that was never stored.
func ValuesOnPathsFrom(startPred, start *ssa.BasicBlock, v ssa.Value, at ssa.Instruction) []ssa.Value {
	region := RegionFrom(start)
	var out []ssa.Value
	seen := map[ssa.Value]bool{}
	var walk func(v ssa.Value, at ssa.Instruction)
	walk = func(v ssa.Value, at ssa.Instruction) {
		if v == nil {
			out = append(out, nil)
			return
		}
		if seen[v] {
			return
		}
		seen[v] = true
		switch x := v.(type) {
		case *ssa.Phi:
			b := x.Block()
			if region[b] {
				any := false
				for i, e := range x.Edges {
					p := b.Preds[i]
					if region[p] || (b == start && p == startPred) {
						any = true
						walk(e, at)
					}
				}
				if any {
					return
				}
			}
			for _, e := range x.Edges {
				walk(e, at)
			}
		case *ssa.ChangeInterface:
			walk(x.X, at)
		case *ssa.MakeInterface:
			out = append(out, v) // keep: a MakeInterface of a pointer is a non-nil interface
		case *ssa.UnOp:
			if al, ok := x.X.(*ssa.Alloc); ok && x.Op == token.MUL {
				for _, s := range reachingStoresRegion(al, x, region, startPred, start) {
					walk(s, x)
				}
				return
			}
			out = append(out, v)
		default:
			out = append(out, v)
		}
	}
	walk(v, at)
	return out
}

// reachingStoresRegion: backward search from `at` for stores to cell along
// paths that stay in the region until they reach `start`, from where the search
// continues unrestricted through startPred.
func reachingStoresRegion(cell *ssa.Alloc, at ssa.Instruction, region map[*ssa.BasicBlock]bool, startPred, start *ssa.BasicBlock) []ssa.Value {
	var out []ssa.Value
	seenVal := map[ssa.Value]bool{}
	type key struct {
		b    *ssa.BasicBlock
		free bool
	}
	seen := map[key]bool{}
	add := func(v ssa.Value) {
		if !seenVal[v] {
			seenVal[v] = true
			out = append(out, v)
		}
	}
	var back func(b *ssa.BasicBlock, from int, free bool)
	back = func(b *ssa.BasicBlock, from int, free bool) {
		for i := from; i >= 0; i-- {
			if st, ok := b.Instrs[i].(*ssa.Store); ok && st.Addr == cell {
				add(st.Val)
				return
			}
			// a call that may write the cell through a closure is an unknown store
			if c, ok := b.Instrs[i].(ssa.CallInstruction); ok {
				if cv, isCall := c.(*ssa.Call); isCall && addrEscapes(cell) && callMayWrite(c, cell) {
					add(cv)
					return
				}
			}
		}
		if len(b.Preds) == 0 {
			add(nil)
			return
		}
		for _, p := range b.Preds {
			nfree := free
			if !free {
				if b == start && p == startPred {
					nfree = true
				} else if !region[p] {
					continue
				}
			}
			k := key{p, nfree}
			if !seen[k] {
				seen[k] = true
				back(p, len(p.Instrs)-1, nfree)
			}
		}
	}
	if !region[at.Block()] {
		return ReachingStores(cell, at)
	}
	back(at.Block(), InstrIndex(at)-1, false)
	return out
}

// nilOrigins is Origins that stops at MakeInterface (non-nil by construction).
func nilOrigins(v ssa.Value) []ssa.Value {
	var out []ssa.Value
	seen := map[ssa.Value]bool{}
	var walk func(v ssa.Value)
	walk = func(v ssa.Value) {
		if v == nil || seen[v] {
			return
		}
		seen[v] = true
		switch x := v.(type) {
		case *ssa.Phi:
			for _, e := range x.Edges {
				walk(e)
			}
		case *ssa.ChangeInterface:
			walk(x.X)
		case *ssa.ChangeType:
			walk(x.X)
		case *ssa.UnOp:
			if x.Op == token.MUL {
				switch c := x.X.(type) {
				case *ssa.Alloc, *ssa.FreeVar:
					vals, complete := StoresTo(c)
					if complete && len(vals) > 0 {
						for _, s := range vals {
							walk(s)
						}
						return
					}
				}
			}
			out = append(out, v)
		default:
			out = append(out, v)
		}
	}
	walk(v)
	return out
}
