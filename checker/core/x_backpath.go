package core

// Backward path enumeration (used by the token-number rules R-SCAN-3/4).
//
// A BackPath is a control-flow path written forwards: Blocks[len-1] is the block
// in which a value is used, Blocks[0] is either the entry block of the function
// (Complete) or the block at which the enumeration was cut: a path is never
// extended over a back edge (an edge p→q with q dominating p) nor into a block it
// already contains. Branch facts collected along such a path all hold when its
// last block is reached through it: walking an execution backwards from the use,
// every block of the path is taken at its LAST execution, and an SSA value tested
// at the end of Blocks[i] cannot be redefined in Blocks[i+1..] unless one of these
// is its defining block — which would make Blocks[i]→Blocks[i+1] a back edge or a
// revisit.

import (
	"golang.org/x/tools/go/ssa"
)

type BackPath struct {
	Blocks   []*ssa.BasicBlock
	Complete bool
}

// Index returns the position of b on the path, -1 if absent.
func (p BackPath) Index(b *ssa.BasicBlock) int {
	for i, x := range p.Blocks {
		if x == b {
			return i
		}
	}
	return -1
}

// PathFact is the outcome of the conditional branch that ends Blocks[Step] on the way to Blocks[Step+1].
type PathFact struct {
	Step int
	If   *ssa.If
	Neg  bool // the false edge was taken
}

// Facts lists the branch outcomes along the path.
func (p BackPath) Facts() []PathFact {
	var out []PathFact
	for i := 0; i+1 < len(p.Blocks); i++ {
		b := p.Blocks[i]
		if len(b.Instrs) == 0 || len(b.Succs) != 2 || b.Succs[0] == b.Succs[1] {
			continue
		}
		iff, ok := b.Instrs[len(b.Instrs)-1].(*ssa.If)
		if !ok {
			continue
		}
		out = append(out, PathFact{Step: i, If: iff, Neg: b.Succs[1] == p.Blocks[i+1]})
	}
	return out
}

// BackPaths enumerates the paths that end in block `end`; when via != nil only
// those that enter `end` through its predecessor via (the edge of a phi). ok is
// false when there are more than limit paths.
func BackPaths(end, via *ssa.BasicBlock, limit int) (paths []BackPath, ok bool) {
	ok = true
	var rev []*ssa.BasicBlock
	on := map[*ssa.BasicBlock]bool{}
	emit := func(complete bool) {
		if len(paths) >= limit {
			ok = false
			return
		}
		bl := make([]*ssa.BasicBlock, len(rev))
		for i, b := range rev {
			bl[len(rev)-1-i] = b
		}
		paths = append(paths, BackPath{Blocks: bl, Complete: complete})
	}
	var walk func(b *ssa.BasicBlock, only *ssa.BasicBlock)
	walk = func(b *ssa.BasicBlock, only *ssa.BasicBlock) {
		if !ok {
			return
		}
		rev = append(rev, b)
		on[b] = true
		defer func() {
			rev = rev[:len(rev)-1]
			delete(on, b)
		}()
		if len(b.Preds) == 0 {
			emit(true)
			return
		}
		cut := false
		seen := map[*ssa.BasicBlock]bool{}
		for _, p := range b.Preds {
			if only != nil && p != only {
				continue
			}
			if seen[p] {
				continue
			}
			seen[p] = true
			if on[p] || b.Dominates(p) {
				cut = true
				continue
			}
			walk(p, nil)
		}
		if cut {
			emit(false)
		}
	}
	walk(end, via)
	return paths, ok
}

// SameAddrDeep: two address expressions denote the same cell (same field /
// element chain over the same base value).
func SameAddrDeep(a, b ssa.Value) bool { return sameAddrDeep(a, b, 0) }
