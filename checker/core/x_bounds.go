package core

// Demand-driven interval evaluation of integer, length and float64 SSA values
// (used by the panic-source rules R-ERR-5/7/9/10).
//
// An abstract value is a closed interval [Lo,Hi] with endpoints in float64
// (±Inf = unbounded / "may be ±Inf" for floats) plus a NaN flag for floats.
// Integer endpoints beyond ±2^53 are widened to ±Inf, and an integer operation
// whose result could leave the int64 range yields Top (wrap-around), so nothing
// is ever concluded from arithmetic on values of unknown magnitude: those need a
// dominating comparison of the value itself.
//
// Sources of bounds: constants; len/cap ∈ [0, LenMax]; branch facts that
// dominate the point of use (comparisons with anything evaluable, math.IsNaN,
// math.IsInf); Phi (join over edges with the edge's facts; loops by
// guess-and-verify, never optimistically); static callees (evaluated per call
// with the actual arguments, bounded depth); parameters at the root (join over
// all call-graph callers); struct fields (join over every store in the program,
// plus the zero value when an allocation leaves the field unset).
//
// Trusted assumptions (stated in the rules' Doc): lengths and loop trip counts
// stay below 2^47; runtime.NumCPU() ≥ 1.

import (
	"fmt"
	"go/constant"
	"go/token"
	"go/types"
	"math"

	"golang.org/x/tools/go/callgraph"
	"golang.org/x/tools/go/ssa"
	"golang.org/x/tools/go/ssa/ssautil"
)

const LenMax = float64(1 << 47)

// CounterMax is the assumed ceiling of counters (values that grow from a
// bounded start by bounded steps: loop variables, position fields).
const CounterMax = float64(1 << 50)
const counterStep = float64(1 << 31)

// stable: c2 (re-evaluated under assumption c) stays within c; a counter ceiling
// tolerates one more bounded step.
func stable(c2, c AV) bool {
	if c2.Leq(c) {
		return true
	}
	if c.Hi == CounterMax && !c2.Bot && !c.Bot {
		d := c2
		if d.Hi <= CounterMax+counterStep {
			d.Hi = c.Hi
		}
		return d.Leq(c)
	}
	return false
}

// widen the sides of c that c2 shows unstable.
func widen(c, c2 AV, k Kind) AV {
	w := c
	if c2.Lo < c.Lo {
		w.Lo = TopAV(k).Lo
	}
	if c2.Hi > c.Hi {
		w.Hi = TopAV(k).Hi
		if k == KInt && c2.Hi <= c.Hi+counterStep && c.Hi < CounterMax {
			w.Hi = CounterMax
		}
	}
	w.NaN = c.NaN || c2.NaN
	w.NZ = false
	return w
}

const exactInt = float64(1 << 53)

type Kind int

const (
	KInt Kind = iota
	KLen      // length of a slice / string / map value
	KFloat
)

// AV is an abstract numeric value.
type AV struct {
	Bot    bool
	Lo, Hi float64
	NaN    bool
	NZ     bool // known to differ from 0 (from a dominating `!= 0` test)
}

func TopAV(k Kind) AV {
	switch k {
	case KLen:
		return AV{Lo: 0, Hi: LenMax}
	case KFloat:
		return AV{Lo: math.Inf(-1), Hi: math.Inf(1), NaN: true}
	}
	return AV{Lo: math.Inf(-1), Hi: math.Inf(1)}
}

func BotAV() AV            { return AV{Bot: true} }
func ExactAV(x float64) AV { return AV{Lo: x, Hi: x} }

func (a AV) IsTop() bool { return !a.Bot && math.IsInf(a.Lo, -1) && math.IsInf(a.Hi, 1) }

// Finite: both endpoints finite and no NaN.
func (a AV) Finite() bool {
	return !a.Bot && !a.NaN && !math.IsInf(a.Lo, 0) && !math.IsInf(a.Hi, 0)
}

// ExcludesZero: 0 is not in the interval (NaN is not zero either).
func (a AV) ExcludesZero() bool { return a.Bot || a.NZ || a.Lo > 0 || a.Hi < 0 }

func (a AV) Join(b AV) AV {
	if a.Bot {
		return b
	}
	if b.Bot {
		return a
	}
	return AV{Lo: math.Min(a.Lo, b.Lo), Hi: math.Max(a.Hi, b.Hi), NaN: a.NaN || b.NaN, NZ: a.ExcludesZero() && b.ExcludesZero()}
}

// Leq: a ⊆ b.
func (a AV) Leq(b AV) bool {
	if a.Bot {
		return true
	}
	if b.Bot {
		return false
	}
	return a.Lo >= b.Lo && a.Hi <= b.Hi && (!a.NaN || b.NaN) && (!b.NZ || a.ExcludesZero())
}

func (a AV) Meet(lo, hi float64) AV {
	if a.Bot {
		return a
	}
	if lo > a.Lo {
		a.Lo = lo
	}
	if hi < a.Hi {
		a.Hi = hi
	}
	if a.Lo > a.Hi {
		if a.NaN {
			// only NaN remains; keep an (arbitrary) empty-ish interval but not Bot
			return AV{Lo: math.Inf(1), Hi: math.Inf(-1), NaN: true}
		}
		return BotAV()
	}
	return a
}

func (a AV) empty() bool { return !a.Bot && a.Lo > a.Hi }

// normInt widens inexact endpoints.
func normInt(a AV) AV {
	if a.Bot {
		return a
	}
	if a.Lo < -exactInt {
		a.Lo = math.Inf(-1)
	}
	if a.Hi > exactInt {
		a.Hi = math.Inf(1)
	}
	a.NaN = false
	return a
}

// intArith: result of an int operation given candidate endpoints; any unbounded
// endpoint means the machine operation may wrap → Top.
func intArith(cands ...float64) AV {
	lo, hi := math.Inf(1), math.Inf(-1)
	for _, c := range cands {
		if math.IsNaN(c) || math.Abs(c) > exactInt {
			return TopAV(KInt)
		}
		lo = math.Min(lo, c)
		hi = math.Max(hi, c)
	}
	return AV{Lo: lo, Hi: hi}
}

// frame is the calling context of the function being evaluated (nil = root:
// parameters are joined over all callers).
type frame struct {
	fn     *ssa.Function
	site   ssa.CallInstruction // call site in the caller
	args   []ssa.Value         // actual arguments aligned with fn.Params
	caller *frame
	depth  int
	up     int // how many times we went from a root parameter up to callers
}

type busyKey struct {
	v  ssa.Value
	b  *ssa.BasicBlock
	fr *frame
	k  Kind
}

type phiKey struct {
	ph *ssa.Phi
	fr *frame
}

type paramKey struct {
	p  *ssa.Parameter
	k  Kind
	up int
}

type bndFieldKey struct {
	f *types.Var
	k Kind
}

// Bounds is the evaluator. One instance per rule run.
type Bounds struct {
	P      *Prog
	Steps  int
	budget int

	assume map[phiKey]AV
	busy   map[busyKey]bool

	fieldMemo   map[bndFieldKey]AV
	fieldAssume map[bndFieldKey]AV
	fieldIdx    map[*types.Var][]*ssa.Store // stores to FieldAddr of the field
	allocs      map[*types.Named][]*ssa.Alloc
	zeroed      map[*types.Named]string // struct types that may appear zero-valued outside an Alloc (reason)
	indexed     bool

	depth int
	Trace func(string)
	size  *sizeState
	taint *taintState
	// TaintFieldOK (optional) limits the struct fields through which Tainted follows a value.
	TaintFieldOK func(*types.Var) bool

	globalMemo map[bndGlobalKey]AV

	serial    int
	depMin    int // smallest serial of an assumption consulted since the last reset
	phiSerial map[phiKey]int
	fldSerial map[bndFieldKey]int
	paramMemo map[paramKey]AV
	// Exhausted is set when an evaluation ran out of budget (results are Top, not wrong).
	Exhausted bool

	paramBusy map[*ssa.Parameter]bool
	// Notes collects human-readable premises used (field invariants, models).
	Notes map[string]bool
}

func NewBounds(p *Prog) *Bounds {
	return &Bounds{P: p, assume: map[phiKey]AV{}, fieldAssume: map[bndFieldKey]AV{}, busy: map[busyKey]bool{},
		fieldMemo: map[bndFieldKey]AV{},
		paramBusy: map[*ssa.Parameter]bool{}, Notes: map[string]bool{},
		phiSerial: map[phiKey]int{}, fldSerial: map[bndFieldKey]int{}, paramMemo: map[paramKey]AV{}, depMin: noDep}
}

const noDep = int(^uint(0) >> 1)

const (
	maxDepth  = 6
	maxUp     = 3
	maxSteps  = 30000
	maxCaller = 40
	maxStores = 12
	subSteps  = 6000
)

// subBudget runs f with its own step budget; when f exhausts it the result is
// Top for kind k (pessimistic, hence cacheable) and the outer evaluation goes on.
func (e *Bounds) subBudget(k Kind, n int, f func() AV) (AV, bool) {
	outer := e.budget
	wasEx := e.Exhausted
	if e.Steps+n < e.budget {
		e.budget = e.Steps + n
	}
	r := f()
	exhausted := e.Steps > e.budget
	e.budget = outer
	if exhausted {
		r = TopAV(k)
		e.Exhausted = wasEx || e.Steps > e.budget
	}
	return r, exhausted
}

// Eval evaluates v as used at instruction `at` (same function as v).
func (e *Bounds) Eval(v ssa.Value, at ssa.Instruction, k Kind) AV {
	e.budget = e.Steps + maxSteps
	e.Exhausted = false
	e.depMin = noDep
	return e.eval(v, at, nil, k)
}

// EvalLen evaluates len(v).
func (e *Bounds) EvalLen(v ssa.Value, at ssa.Instruction) AV { return e.Eval(v, at, KLen) }

func kindOfType(t types.Type) (Kind, bool) {
	if b, ok := t.Underlying().(*types.Basic); ok {
		if b.Info()&types.IsInteger != 0 {
			return KInt, true
		}
		if b.Info()&types.IsFloat != 0 {
			return KFloat, true
		}
	}
	return KInt, false
}

func (e *Bounds) eval(v ssa.Value, at ssa.Instruction, fr *frame, k Kind) AV {
	if c, ok := v.(*ssa.Const); ok {
		return constAV(c, k)
	}
	e.Steps++
	if e.Steps > e.budget {
		e.Exhausted = true
		return TopAV(k)
	}
	var blk *ssa.BasicBlock
	if at != nil {
		blk = at.Block()
	}
	if ph, ok := v.(*ssa.Phi); ok {
		if a, ok := e.assume[phiKey{ph, fr}]; ok {
			if sn := e.phiSerial[phiKey{ph, fr}]; sn < e.depMin {
				e.depMin = sn
			}
			if at != nil && !a.Bot {
				k2 := busyKey{v, blk, fr, k + 100}
				if !e.busy[k2] {
					e.busy[k2] = true
					a = e.refine(v, at, fr, k, a)
					delete(e.busy, k2)
				}
			}
			return a
		}
	}
	// every cycle of pure SSA values passes through a Phi (cut by its assumption);
	// cycles through memory, calls and parameters are cut here
	switch v.(type) {
	case *ssa.BinOp, *ssa.Convert, *ssa.ChangeType:
	default:
		key := busyKey{v, blk, fr, k}
		if e.busy[key] {
			return TopAV(k)
		}
		e.busy[key] = true
		defer delete(e.busy, key)
	}

	e.depth++
	a := e.structural(v, at, fr, k)
	if k == KInt {
		nz := a.NZ
		a = clipType(normInt(a), v.Type())
		a.NZ = nz
	}
	s := a
	if at != nil && !a.Bot {
		a = e.refine(v, at, fr, k, a)
	}
	e.depth--
	if e.Trace != nil {
		e.Trace(fmt.Sprintf("%*s%s %s = %v kind=%d struct=%+v refined=%+v @%s", e.depth*2, "", v.Name(), v.String(), v.Type(), k, s, a, e.P.InstrPos(at)))
	}
	return a
}

// clipType intersects with the range of the integer type; an interval that may
// lie outside the range is replaced by the whole range (conversion wraps).
func clipType(a AV, t types.Type) AV {
	if a.Bot {
		return a
	}
	b, ok := t.Underlying().(*types.Basic)
	if !ok {
		return a
	}
	var lo, hi float64
	switch b.Kind() {
	case types.Int8:
		lo, hi = -128, 127
	case types.Int16:
		lo, hi = -32768, 32767
	case types.Int32:
		lo, hi = -(1 << 31), 1<<31-1
	case types.Uint8:
		lo, hi = 0, 255
	case types.Uint16:
		lo, hi = 0, 65535
	case types.Uint32:
		lo, hi = 0, 1<<32-1
	case types.Uint, types.Uint64, types.Uintptr:
		lo, hi = 0, math.Inf(1)
	default:
		return a
	}
	if a.Lo < lo || a.Hi > hi {
		return AV{Lo: lo, Hi: hi}
	}
	return a
}

func constAV(c *ssa.Const, k Kind) AV {
	if c.Value == nil {
		if k == KLen {
			return ExactAV(0) // nil slice / map, "" is not nil-valued but zero Const has Value==nil only for non-basic
		}
		return ExactAV(0)
	}
	switch k {
	case KLen:
		if c.Value.Kind() == constant.String {
			return ExactAV(float64(len(constant.StringVal(c.Value))))
		}
		return TopAV(KLen)
	case KFloat:
		f, _ := constant.Float64Val(constant.ToFloat(c.Value))
		if math.IsNaN(f) {
			return AV{Lo: math.Inf(1), Hi: math.Inf(-1), NaN: true}
		}
		return ExactAV(f)
	default:
		if c.Value.Kind() != constant.Int {
			return TopAV(KInt)
		}
		f, _ := constant.Float64Val(c.Value)
		return normInt(ExactAV(f))
	}
}

func (e *Bounds) structural(v ssa.Value, at ssa.Instruction, fr *frame, k Kind) AV {
	switch x := v.(type) {
	case *ssa.Const:
		return constAV(x, k)
	case *ssa.Parameter:
		return e.param(x, fr, k)
	case *ssa.Phi:
		return e.phi(x, fr, k)
	case *ssa.ChangeType:
		return e.eval(x.X, x, fr, k)
	case *ssa.MakeInterface, *ssa.ChangeInterface:
		return TopAV(k)
	case *ssa.Convert:
		return e.convert(x, fr, k)
	case *ssa.BinOp:
		if k == KLen {
			if x.Op == token.ADD { // string concatenation
				a, b := e.eval(x.X, x, fr, KLen), e.eval(x.Y, x, fr, KLen)
				if a.Bot || b.Bot {
					return BotAV()
				}
				return AV{Lo: a.Lo + b.Lo, Hi: math.Min(LenMax, a.Hi+b.Hi)}
			}
			return TopAV(k)
		}
		return e.binop(x, fr, k)
	case *ssa.UnOp:
		switch x.Op {
		case token.SUB:
			a := e.eval(x.X, x, fr, k)
			if a.Bot {
				return a
			}
			r := AV{Lo: -a.Hi, Hi: -a.Lo, NaN: a.NaN}
			if k == KInt && (math.IsInf(r.Lo, 0) || math.IsInf(r.Hi, 0)) {
				return TopAV(k)
			}
			return r
		case token.MUL:
			return e.load(x, fr, k)
		}
		return TopAV(k)
	case *ssa.Call:
		return e.call(x, 0, false, fr, k, at)
	case *ssa.Extract:
		if c, ok := x.Tuple.(*ssa.Call); ok {
			return e.call(c, x.Index, true, fr, k, at)
		}
		return TopAV(k)
	case *ssa.Field:
		if f := fieldVar(x.X.Type(), x.Field); f != nil {
			return e.field(f, k)
		}
		return TopAV(k)
	case *ssa.MakeSlice:
		if k == KLen {
			a := e.eval(x.Len, x, fr, KInt)
			return a.Meet(0, LenMax)
		}
	case *ssa.MakeMap:
		if k == KLen {
			return ExactAV(0)
		}
	case *ssa.Slice:
		if k == KLen {
			return e.sliceLen(x, fr)
		}
	}
	return TopAV(k)
}

func (e *Bounds) sliceLen(x *ssa.Slice, fr *frame) AV {
	// slice of a fresh array: the composite-literal idiom `[]T{a,b}` → new [2]T, slice
	if x.Low == nil && x.High == nil {
		if al, ok := x.X.(*ssa.Alloc); ok {
			if p, ok := al.Type().Underlying().(*types.Pointer); ok {
				if arr, ok := p.Elem().Underlying().(*types.Array); ok {
					return ExactAV(float64(arr.Len()))
				}
			}
		}
		if _, isPtr := x.X.Type().Underlying().(*types.Pointer); !isPtr {
			return e.eval(x.X, x, fr, KLen)
		}
		return TopAV(KLen)
	}
	lo := ExactAV(0)
	if x.Low != nil {
		lo = e.eval(x.Low, x, fr, KInt)
	}
	var hi AV
	if x.High != nil {
		hi = e.eval(x.High, x, fr, KInt)
	} else if _, isPtr := x.X.Type().Underlying().(*types.Pointer); !isPtr {
		hi = e.eval(x.X, x, fr, KLen)
	} else {
		return TopAV(KLen)
	}
	if lo.Bot || hi.Bot {
		return BotAV()
	}
	// the slice expression did not panic, so 0 ≤ low ≤ high
	r := AV{Lo: hi.Lo - lo.Hi, Hi: hi.Hi - lo.Lo}
	if math.IsNaN(r.Lo) || math.IsNaN(r.Hi) {
		return TopAV(KLen)
	}
	return r.Meet(0, LenMax)
}

func fieldVar(t types.Type, idx int) *types.Var {
	if p, ok := t.Underlying().(*types.Pointer); ok {
		t = p.Elem()
	}
	st, ok := t.Underlying().(*types.Struct)
	if !ok || idx >= st.NumFields() {
		return nil
	}
	return st.Field(idx)
}

// ---------------------------------------------------------------------------
// conversions and arithmetic

func (e *Bounds) convert(x *ssa.Convert, fr *frame, k Kind) AV {
	sk, sok := kindOfType(x.X.Type())
	switch k {
	case KLen:
		// string(bytes) / []byte(s) keep the length; []rune(s) shrinks; string(runes) grows ≤ 4×
		a := e.eval(x.X, x, fr, KLen)
		if a.Bot {
			return a
		}
		from, to := x.X.Type().Underlying(), x.Type().Underlying()
		if isByteSeq(from) && isByteSeq(to) {
			return a
		}
		if isRuneSlice(to) { // from string
			lo := 0.0
			if a.Lo > 0 {
				lo = 1
			}
			return AV{Lo: lo, Hi: a.Hi}
		}
		if isRuneSlice(from) {
			return AV{Lo: a.Lo, Hi: math.Min(LenMax, a.Hi*4)}
		}
		return TopAV(KLen)
	case KInt:
		if !sok {
			return TopAV(k)
		}
		if sk == KInt {
			return e.eval(x.X, x, fr, KInt) // clipType at the caller handles narrowing
		}
		a := e.eval(x.X, x, fr, KFloat)
		if a.Bot {
			return a
		}
		if !a.Finite() || a.empty() {
			return TopAV(k)
		}
		// a float whose integral part is not an int64 converts to an implementation-defined
		// integer (MinInt64 on amd64): nothing is known about the result. 2^63 itself — what
		// float64(MaxInt64) rounds to — is already outside.
		if a.Lo < -math.Ldexp(1, 63) || a.Hi >= math.Ldexp(1, 63) {
			return TopAV(k)
		}
		return normInt(AV{Lo: math.Trunc(a.Lo), Hi: math.Trunc(a.Hi)})
	case KFloat:
		if !sok {
			return TopAV(k)
		}
		if sk == KFloat {
			return e.eval(x.X, x, fr, KFloat)
		}
		a := e.eval(x.X, x, fr, KInt)
		if a.Bot {
			return a
		}
		// any int64/uint64 converts to a finite float
		lo, hi := a.Lo, a.Hi
		if math.IsInf(lo, -1) {
			lo = -math.Ldexp(1, 63)
		}
		if math.IsInf(hi, 1) {
			hi = math.Ldexp(1, 64)
			if b, ok := x.X.Type().Underlying().(*types.Basic); ok && b.Info()&types.IsUnsigned == 0 {
				hi = math.Ldexp(1, 63) // float64(MaxInt64) rounds up to 2^63
			}
		}
		return AV{Lo: lo, Hi: hi}
	}
	return TopAV(k)
}

func isByteSeq(t types.Type) bool {
	if b, ok := t.(*types.Basic); ok {
		return b.Info()&types.IsString != 0
	}
	if s, ok := t.(*types.Slice); ok {
		if b, ok := s.Elem().Underlying().(*types.Basic); ok {
			return b.Kind() == types.Uint8
		}
	}
	return false
}

func isRuneSlice(t types.Type) bool {
	if s, ok := t.(*types.Slice); ok {
		if b, ok := s.Elem().Underlying().(*types.Basic); ok {
			return b.Kind() == types.Int32
		}
	}
	return false
}

func (e *Bounds) binop(x *ssa.BinOp, fr *frame, k Kind) AV {
	if _, ok := kindOfType(x.Type()); !ok {
		return TopAV(k)
	}
	a := e.eval(x.X, x, fr, k)
	yk := k
	if x.Op == token.SHL || x.Op == token.SHR {
		yk = KInt
	}
	b := e.eval(x.Y, x, fr, yk)
	if a.Bot || b.Bot {
		return BotAV()
	}
	if k == KFloat {
		return floatArith(x.Op, a, b)
	}
	if a.empty() || b.empty() {
		return TopAV(k)
	}
	pinf, ninf := math.Inf(1), math.Inf(-1)
	switch x.Op {
	case token.ADD:
		// a side that is unbounded stays sound only if the other operand cannot push it over the edge of int64
		if (a.Hi == pinf && b.Hi > 0) || (b.Hi == pinf && a.Hi > 0) || (a.Lo == ninf && b.Lo < 0) || (b.Lo == ninf && a.Lo < 0) {
			return TopAV(k)
		}
		return normInt(AV{Lo: a.Lo + b.Lo, Hi: a.Hi + b.Hi})
	case token.SUB:
		// relational: a dominating `y < x` (or `y <= x`) with y ≥ 0 gives x - y ≥ 1 (≥ 0) without overflow
		if b.Lo >= 0 {
			if min, ok := e.orderedBy(x.X, x.Y, x); ok {
				hi := a.Hi - b.Lo
				return normInt(AV{Lo: min, Hi: hi})
			}
		}
		if (a.Hi == pinf && b.Lo < 0) || (b.Lo == ninf && a.Hi >= 0) || (a.Lo == ninf && b.Hi > 0) || (b.Hi == pinf && a.Lo < 0) {
			return TopAV(k)
		}
		return normInt(AV{Lo: a.Lo - b.Hi, Hi: a.Hi - b.Lo})
	case token.MUL:
		if math.IsInf(a.Lo, 0) || math.IsInf(a.Hi, 0) || math.IsInf(b.Lo, 0) || math.IsInf(b.Hi, 0) {
			return TopAV(k)
		}
		return intArith(a.Lo*b.Lo, a.Lo*b.Hi, a.Hi*b.Lo, a.Hi*b.Hi)
	case token.QUO:
		// the division itself is R-ERR-5's obligation; here: bounds of the quotient
		if !b.ExcludesZero() {
			b2 := b
			// x / 0 panics, so the result exists only for y ≠ 0
			if b.Lo == 0 {
				b2.Lo = 1
			}
			if b.Hi == 0 {
				b2.Hi = -1
			}
			if !b2.ExcludesZero() {
				m := math.Max(math.Abs(a.Lo), math.Abs(a.Hi))
				if math.IsInf(m, 0) {
					return TopAV(k)
				}
				return AV{Lo: -m, Hi: m}
			}
			b = b2
		}
		if math.IsInf(a.Lo, 0) || math.IsInf(a.Hi, 0) {
			// |x / y| ≤ |x| (y ≠ 0); MinInt64 / -1 wraps to MinInt64 which is still within int64
			lo, hi := a.Lo, a.Hi
			if b.Lo < 0 { // sign may flip
				return TopAV(k)
			}
			if lo < 0 {
				lo = a.Lo
			} else {
				lo = 0
			}
			if hi < 0 {
				hi = 0
			}
			return AV{Lo: lo, Hi: hi}
		}
		bl, bh := b.Lo, b.Hi
		if math.IsInf(bl, 0) || math.IsInf(bh, 0) {
			m := math.Max(math.Abs(a.Lo), math.Abs(a.Hi))
			return AV{Lo: -m, Hi: m}
		}
		c := []float64{math.Trunc(a.Lo / bl), math.Trunc(a.Lo / bh), math.Trunc(a.Hi / bl), math.Trunc(a.Hi / bh)}
		return intArith(c...)
	case token.REM:
		// |x % y| < |y| and sign follows x
		m := math.Max(math.Abs(b.Lo), math.Abs(b.Hi)) - 1
		if math.IsInf(m, 0) || m < 0 {
			m = math.Inf(1)
		}
		lo, hi := -m, m
		if a.Lo >= 0 {
			lo = 0
			if a.Hi < hi {
				hi = a.Hi
			}
		}
		if a.Hi <= 0 {
			hi = 0
		}
		return AV{Lo: lo, Hi: hi}
	case token.AND:
		if a.Lo >= 0 && b.Lo >= 0 {
			return AV{Lo: 0, Hi: math.Min(a.Hi, b.Hi)}
		}
		if b.Lo >= 0 {
			return AV{Lo: 0, Hi: b.Hi}
		}
		if a.Lo >= 0 {
			return AV{Lo: 0, Hi: a.Hi}
		}
	case token.SHR:
		if a.Lo >= 0 {
			return AV{Lo: 0, Hi: a.Hi}
		}
	}
	return TopAV(k)
}

// orderedBy: a fact dominating `at` states y < x (returns 1) or y <= x (returns 0).
func (e *Bounds) orderedBy(x, y ssa.Value, at ssa.Instruction) (float64, bool) {
	best, found := 0.0, false
	for _, f := range FactsAt(at.Block()) {
		c, ok := f.Cond.(*ssa.BinOp)
		if !ok {
			continue
		}
		op := c.Op
		switch {
		case SameVal(c.X, y) && SameVal(c.Y, x):
		case SameVal(c.X, x) && SameVal(c.Y, y):
			op = flipCmp(op)
		default:
			continue
		}
		if f.Neg {
			op = negCmp(op)
		}
		// now: y op x
		switch op {
		case token.LSS:
			best, found = 1, true
		case token.LEQ, token.EQL:
			if !found {
				best, found = 0, true
			}
		}
	}
	return best, found
}

func mayPosInf(a AV) bool { return math.IsInf(a.Hi, 1) }
func mayNegInf(a AV) bool { return math.IsInf(a.Lo, -1) }
func hasZero(a AV) bool   { return !a.empty() && a.Lo <= 0 && a.Hi >= 0 }

func floatArith(op token.Token, a, b AV) AV {
	nan := a.NaN || b.NaN
	if a.empty() || b.empty() { // only NaN
		return AV{Lo: math.Inf(1), Hi: math.Inf(-1), NaN: true}
	}
	corners := func(f func(x, y float64) float64) AV {
		lo, hi := math.Inf(1), math.Inf(-1)
		for _, x := range []float64{a.Lo, a.Hi} {
			for _, y := range []float64{b.Lo, b.Hi} {
				r := f(x, y)
				if math.IsNaN(r) {
					nan = true
					continue
				}
				lo, hi = math.Min(lo, r), math.Max(hi, r)
			}
		}
		if lo > hi { // every corner NaN
			return AV{Lo: math.Inf(-1), Hi: math.Inf(1), NaN: true}
		}
		return AV{Lo: lo, Hi: hi, NaN: nan}
	}
	switch op {
	case token.ADD:
		return corners(func(x, y float64) float64 { return x + y })
	case token.SUB:
		return corners(func(x, y float64) float64 { return x - y })
	case token.MUL:
		if (hasZero(a) && (mayPosInf(b) || mayNegInf(b))) || (hasZero(b) && (mayPosInf(a) || mayNegInf(a))) {
			nan = true
		}
		r := corners(func(x, y float64) float64 { return x * y })
		r.NaN = r.NaN || nan
		return r
	case token.QUO:
		if hasZero(b) {
			// x/0 = ±Inf, 0/0 = NaN
			return AV{Lo: math.Inf(-1), Hi: math.Inf(1), NaN: nan || hasZero(a)}
		}
		if (mayPosInf(a) || mayNegInf(a)) && (mayPosInf(b) || mayNegInf(b)) {
			nan = true
		}
		r := corners(func(x, y float64) float64 { return x / y })
		r.NaN = r.NaN || nan
		return r
	}
	return TopAV(KFloat)
}

// ---------------------------------------------------------------------------
// Phi: guess and verify

func (e *Bounds) phi(ph *ssa.Phi, fr *frame, k Kind) AV {
	evalEdges := func() AV {
		r := BotAV()
		for i, ev := range ph.Edges {
			pred := ph.Block().Preds[i]
			a := e.evalEdge(ev, pred, ph.Block(), fr, k)
			r = r.Join(a)
		}
		return r
	}
	pk := phiKey{ph, fr}
	e.serial++
	e.phiSerial[pk] = e.serial
	defer delete(e.phiSerial, pk)
	e.assume[pk] = BotAV()
	c := evalEdges()
	if c.Bot {
		delete(e.assume, pk)
		return TopAV(k)
	}
	for round := 0; round < 4; round++ {
		e.assume[pk] = c
		c2 := evalEdges()
		if stable(c2, c) {
			delete(e.assume, pk)
			return c
		}
		c = widen(c, c2, k)
	}
	delete(e.assume, pk)
	return TopAV(k)
}

// evalEdge evaluates the value flowing along pred→blk, using the facts of that edge.
func (e *Bounds) evalEdge(v ssa.Value, pred, blk *ssa.BasicBlock, fr *frame, k Kind) AV {
	// evaluate at the end of pred, then add the edge's own fact
	last := pred.Instrs[len(pred.Instrs)-1]
	a := e.eval(v, last, fr, k)
	if a.Bot {
		return a
	}
	if iff, ok := last.(*ssa.If); ok && len(pred.Succs) == 2 && pred.Succs[0] != pred.Succs[1] {
		neg := pred.Succs[1] == blk
		a = e.applyFact(Fact{Cond: iff.Cond, Neg: neg, If: iff}, v, fr, k, a)
	}
	return a
}

// ---------------------------------------------------------------------------
// facts

func (e *Bounds) refine(v ssa.Value, at ssa.Instruction, fr *frame, k Kind, a AV) AV {
	if _, isConst := v.(*ssa.Const); isConst {
		return a
	}
	for _, f := range FactsAt(at.Block()) {
		a = e.applyFact(f, v, fr, k, a)
		if a.Bot {
			return a
		}
	}
	return a
}

// matches: does operand `side` of a condition denote v (for KLen: len(v))?
func (e *Bounds) matches(side, v ssa.Value, k Kind) bool {
	if k == KLen {
		c, ok := side.(*ssa.Call)
		if !ok {
			return false
		}
		b, ok := c.Common().Value.(*ssa.Builtin)
		if !ok || b.Name() != "len" {
			return false
		}
		return SameVal(c.Common().Args[0], v)
	}
	return SameVal(side, v)
}

func (e *Bounds) applyFact(f Fact, v ssa.Value, fr *frame, k Kind, a AV) AV {
	cond := f.Cond
	neg := f.Neg
	for {
		u, ok := cond.(*ssa.UnOp)
		if !ok || u.Op != token.NOT {
			break
		}
		cond = u.X
		neg = !neg
	}
	switch c := cond.(type) {
	case *ssa.BinOp:
		if k != KFloat {
			if r, ok := e.parityFact(c, neg, v, k, a); ok {
				return r
			}
		}
		var other ssa.Value
		op := c.Op
		switch {
		case e.matches(c.X, v, k):
			other = c.Y
		case e.matches(c.Y, v, k):
			other = c.X
			op = flipCmp(op)
		default:
			return a
		}
		switch op {
		case token.LSS, token.LEQ, token.GTR, token.GEQ, token.EQL, token.NEQ:
		default:
			return a
		}
		ok2 := k
		if k == KLen {
			ok2 = KInt
		}
		if kk, ok := kindOfType(other.Type()); !ok || (kk == KFloat) != (ok2 == KFloat) {
			return a
		}
		o := e.eval(other, f.If, fr, ok2)
		if o.Bot {
			return a
		}
		return applyCmp(a, op, neg, o, k)
	case *ssa.Call:
		if k != KFloat {
			return a
		}
		switch e.P.CalleeName(c) {
		case "math.IsNaN":
			if SameVal(c.Common().Args[0], v) {
				if neg {
					a.NaN = false
					if a.empty() {
						return BotAV()
					}
				} else {
					return AV{Lo: math.Inf(1), Hi: math.Inf(-1), NaN: true}
				}
			}
		case "math.IsInf":
			if SameVal(c.Common().Args[0], v) {
				sign, okc := ConstInt(c.Common().Args[1])
				if okc && neg {
					if sign >= 0 && math.IsInf(a.Hi, 1) {
						a.Hi = math.MaxFloat64
					}
					if sign <= 0 && math.IsInf(a.Lo, -1) {
						a.Lo = -math.MaxFloat64
					}
				}
			}
		}
	}
	return a
}

// parityFact: `x % 2 == r` / `!= r` (r ∈ {0,1}) with x denoting v (or len(v))
// and v ≥ 0 fixes the parity of v; the bounds move to the nearest such number.
func (e *Bounds) parityFact(c *ssa.BinOp, neg bool, v ssa.Value, k Kind, a AV) (AV, bool) {
	if c.Op != token.EQL && c.Op != token.NEQ {
		return a, false
	}
	rem, rv := c.X, c.Y
	if _, ok := rem.(*ssa.BinOp); !ok {
		rem, rv = c.Y, c.X
	}
	rb, ok := rem.(*ssa.BinOp)
	if !ok || rb.Op != token.REM {
		return a, false
	}
	if m, ok := ConstInt(rb.Y); !ok || m != 2 {
		return a, false
	}
	r, ok := ConstInt(rv)
	if !ok || (r != 0 && r != 1) {
		return a, false
	}
	if !e.matches(rb.X, v, k) {
		return a, false
	}
	if a.Bot || a.Lo < 0 || math.IsInf(a.Lo, 0) {
		return a, true
	}
	eq := c.Op == token.EQL
	if neg {
		eq = !eq
	}
	par := float64(r)
	if !eq {
		par = 1 - par
	}
	if math.Mod(a.Lo, 2) != par {
		a.Lo++
	}
	if !math.IsInf(a.Hi, 0) && a.Hi < exactInt && math.Mod(a.Hi, 2) != par {
		a.Hi--
	}
	if a.Lo > a.Hi {
		return BotAV(), true
	}
	return a, true
}

func flipCmp(op token.Token) token.Token {
	switch op {
	case token.LSS:
		return token.GTR
	case token.LEQ:
		return token.GEQ
	case token.GTR:
		return token.LSS
	case token.GEQ:
		return token.LEQ
	}
	return op
}

func negCmp(op token.Token) token.Token {
	switch op {
	case token.LSS:
		return token.GEQ
	case token.LEQ:
		return token.GTR
	case token.GTR:
		return token.LEQ
	case token.GEQ:
		return token.LSS
	case token.EQL:
		return token.NEQ
	case token.NEQ:
		return token.EQL
	}
	return op
}

// applyCmp refines a with the knowledge that "v op o" holds (neg=false) or does
// not hold (neg=true). Floats: a true ordered comparison or equality excludes
// NaN; a false one is also explained by NaN (of either side).
func applyCmp(a AV, op token.Token, neg bool, o AV, k Kind) AV {
	isFloat := k == KFloat
	if o.empty() { // the other side is NaN only: nothing to learn
		return a
	}
	holds := !neg
	ordered := op != token.NEQ
	var rel token.Token
	dropNaN := false
	switch {
	case holds && ordered:
		rel, dropNaN = op, true
	case holds && !ordered: // v != o
		rel = token.NEQ
	case !holds && op == token.NEQ: // v == o
		rel, dropNaN = token.EQL, true
	case !holds && op == token.EQL: // v != o (or NaN)
		rel = token.NEQ
	default: // !holds, ordered inequality: NaN or the complementary relation
		if isFloat && o.NaN {
			return a
		}
		rel = negCmp(op)
	}
	hadNaN := a.NaN
	step := 1.0
	if isFloat {
		step = 0
	}
	r := a
	r.NaN = false
	switch rel {
	case token.LSS:
		r = r.Meet(math.Inf(-1), o.Hi-step)
		if isFloat && !r.Bot && r.Hi == o.Hi && !math.IsInf(o.Hi, 0) {
			r.Hi = math.Nextafter(o.Hi, math.Inf(-1))
		}
	case token.LEQ:
		r = r.Meet(math.Inf(-1), o.Hi)
	case token.GTR:
		r = r.Meet(o.Lo+step, math.Inf(1))
		if isFloat && !r.Bot && r.Lo == o.Lo && !math.IsInf(o.Lo, 0) {
			r.Lo = math.Nextafter(o.Lo, math.Inf(1))
		}
	case token.GEQ:
		r = r.Meet(o.Lo, math.Inf(1))
	case token.EQL:
		r = r.Meet(o.Lo, o.Hi)
	case token.NEQ:
		if o.Lo == 0 && o.Hi == 0 && !o.NaN {
			r.NZ = true
		}
		if o.Lo == o.Hi && !isFloat {
			if r.Lo == o.Lo {
				r = r.Meet(o.Lo+1, math.Inf(1))
			} else if r.Hi == o.Lo {
				r = r.Meet(math.Inf(-1), o.Lo-1)
			}
		}
	}
	keepNaN := hadNaN && !dropNaN
	if r.Bot || r.empty() {
		if keepNaN {
			return AV{Lo: math.Inf(1), Hi: math.Inf(-1), NaN: true}
		}
		return BotAV()
	}
	r.NaN = keepNaN
	return r
}

// ---------------------------------------------------------------------------
// value identity

// SameVal: two SSA values denote the same run-time value: identical, or equal
// pure expressions (len/cap of the same value, conversions, field selections,
// calls of side-effect-free getters with the same arguments, loads of the same
// cell with no store in between).
func SameVal(a, b ssa.Value) bool { return sameVal(a, b, 0) }

func sameVal(a, b ssa.Value, d int) bool {
	if a == b {
		return true
	}
	if d > 6 {
		return false
	}
	switch x := a.(type) {
	case *ssa.Const:
		y, ok := b.(*ssa.Const)
		if !ok || !types.Identical(x.Type(), y.Type()) {
			return false
		}
		if x.Value == nil || y.Value == nil {
			return x.Value == nil && y.Value == nil
		}
		return constant.Compare(x.Value, token.EQL, y.Value)
	case *ssa.Call:
		y, ok := b.(*ssa.Call)
		if !ok || len(x.Common().Args) != len(y.Common().Args) {
			return false
		}
		if bx, ok := x.Common().Value.(*ssa.Builtin); ok {
			by, ok := y.Common().Value.(*ssa.Builtin)
			if !ok || bx.Name() != by.Name() || (bx.Name() != "len" && bx.Name() != "cap") {
				return false
			}
		} else {
			fx, fy := x.Common().StaticCallee(), y.Common().StaticCallee()
			if fx == nil || fx != fy || !IsPureGetter(fx) {
				return false
			}
		}
		for i := range x.Common().Args {
			if !sameVal(x.Common().Args[i], y.Common().Args[i], d+1) {
				return false
			}
		}
		return true
	case *ssa.Convert:
		y, ok := b.(*ssa.Convert)
		return ok && types.Identical(x.Type(), y.Type()) && sameVal(x.X, y.X, d+1)
	case *ssa.ChangeType:
		y, ok := b.(*ssa.ChangeType)
		return ok && types.Identical(x.Type(), y.Type()) && sameVal(x.X, y.X, d+1)
	case *ssa.MakeInterface:
		y, ok := b.(*ssa.MakeInterface)
		return ok && sameVal(x.X, y.X, d+1)
	case *ssa.Field:
		y, ok := b.(*ssa.Field)
		return ok && x.Field == y.Field && sameVal(x.X, y.X, d+1)
	case *ssa.UnOp:
		y, ok := b.(*ssa.UnOp)
		if !ok || x.Op != y.Op {
			return false
		}
		if x.Op != token.MUL {
			return sameVal(x.X, y.X, d+1)
		}
		if !sameAddrDeep(x.X, y.X, d+1) {
			return false
		}
		if x.Parent() != y.Parent() {
			return false
		}
		first, second := ssa.Instruction(x), ssa.Instruction(y)
		if !Dominates(first, second) {
			first, second = second, first
			if !Dominates(first, second) {
				return false
			}
		}
		return !storeBetween(x.X, first, second)
	}
	return false
}

func sameAddrDeep(a, b ssa.Value, d int) bool {
	if a == b {
		return true
	}
	switch x := a.(type) {
	case *ssa.FieldAddr:
		y, ok := b.(*ssa.FieldAddr)
		// x.X is a pointer value (p.f) or itself the address of an enclosing struct (s.a.f)
		return ok && x.Field == y.Field && (sameVal(x.X, y.X, d+1) || sameAddrDeep(x.X, y.X, d+1))
	case *ssa.IndexAddr:
		y, ok := b.(*ssa.IndexAddr)
		return ok && sameVal(x.X, y.X, d+1) && sameVal(x.Index, y.Index, d+1)
	}
	return false
}

var pureMemo = map[*ssa.Function]bool{}

// IsPureGetter: a single-block function that only loads, computes (no calls but getters, no writes) and returns.
func IsPureGetter(fn *ssa.Function) bool {
	if v, ok := pureMemo[fn]; ok {
		return v
	}
	ok := len(fn.Blocks) == 1
	if ok {
		for _, in := range fn.Blocks[0].Instrs {
			switch x := in.(type) {
			case *ssa.FieldAddr, *ssa.Field, *ssa.Return, *ssa.DebugRef, *ssa.ChangeType, *ssa.Convert, *ssa.Alloc, *ssa.BinOp:
			case *ssa.Store:
				if al, isAl := x.Addr.(*ssa.Alloc); !isAl || al.Heap {
					ok = false
				}
			case *ssa.UnOp:
				if x.Op != token.MUL {
					ok = false
				}
			case *ssa.Call:
				f := x.Common().StaticCallee()
				if f == nil || f == fn {
					if b, isB := x.Common().Value.(*ssa.Builtin); !isB || (b.Name() != "len" && b.Name() != "cap") {
						ok = false
					}
				} else {
					pureMemo[fn] = false
					if !IsPureGetter(f) {
						ok = false
					}
				}
			default:
				ok = false
			}
		}
	}
	pureMemo[fn] = ok
	return ok
}

// ---------------------------------------------------------------------------
// loads

func (e *Bounds) load(x *ssa.UnOp, fr *frame, k Kind) AV {
	switch a := x.X.(type) {
	case *ssa.Alloc, *ssa.FreeVar:
		vals, complete := StoresTo(a)
		if !complete || len(vals) == 0 {
			return TopAV(k)
		}
		r := BotAV()
		for _, s := range vals {
			si, ok := s.(ssa.Instruction)
			var at ssa.Instruction
			var sfr *frame
			if ok {
				at = si
			}
			if sv := s; sv.Parent() == x.Parent() {
				sfr = fr
				if at == nil {
					at = x
				}
			} else {
				// stored by another function (closure / parent): evaluate there at root
				sfr = e.frameFor(sv.Parent(), fr)
			}
			if _, isParam := s.(*ssa.Parameter); isParam && at == nil {
				if len(s.Parent().Blocks) > 0 {
					at = s.Parent().Blocks[0].Instrs[0]
				}
			}
			if at == nil {
				if _, isC := s.(*ssa.Const); isC {
					r = r.Join(constAV(s.(*ssa.Const), k))
					continue
				}
				return TopAV(k)
			}
			// a store inside a loop may feed itself (x = x + 1 through the cell)
			v := e.eval(s, at, sfr, k)
			r = r.Join(v)
		}
		if al, ok := a.(*ssa.Alloc); ok && !allocInitialised(al) {
			r = r.Join(ExactAV(0))
		}
		if r.Bot {
			return TopAV(k)
		}
		return r
	case *ssa.FieldAddr:
		if f := fieldVar(a.X.Type(), a.Field); f != nil {
			if av, ok := e.fieldAt(f, a.X, x, fr, k); ok {
				return av
			}
			return e.field(f, k)
		}
	case *ssa.Global:
		return e.global(a, k)
	}
	return TopAV(k)
}

// global: join over every store to a package-level variable of csvq (its
// initialiser lives in the package's init function); Top when its address is
// used for anything but loads and stores.
func (e *Bounds) global(g *ssa.Global, k Kind) AV {
	if e.globalMemo == nil {
		e.globalMemo = map[bndGlobalKey]AV{}
	}
	key := bndGlobalKey{g, k}
	if a, ok := e.globalMemo[key]; ok {
		return a
	}
	e.globalMemo[key] = TopAV(k) // recursion guard
	if g.Pkg == nil || !isOwnPkg(g.Pkg.Pkg.Path()) {
		return TopAV(k)
	}
	fns := []*ssa.Function{}
	if init := g.Pkg.Func("init"); init != nil {
		fns = append(fns, init)
	}
	for _, fn := range e.P.SrcFuncs() {
		if !e.P.IsControl(fn) {
			fns = append(fns, fn)
		}
	}
	r := BotAV()
	for _, fn := range fns {
		for _, b := range fn.Blocks {
			for _, in := range b.Instrs {
				var ops []*ssa.Value
				for _, op := range in.Operands(ops) {
					if *op != g {
						continue
					}
					switch x := in.(type) {
					case *ssa.Store:
						if x.Addr == g {
							r = r.Join(e.evalUp(x.Val, x, 0, k))
							continue
						}
						return TopAV(k)
					case *ssa.UnOp:
						if x.Op == token.MUL {
							continue
						}
						return TopAV(k)
					case *ssa.DebugRef:
						continue
					default:
						return TopAV(k)
					}
				}
			}
		}
	}
	if r.Bot {
		r = ExactAV(0)
	}
	e.globalMemo[key] = r
	return r
}

type bndGlobalKey struct {
	g *ssa.Global
	k Kind
}

func isOwnPkg(path string) bool {
	return path == ModPath || (len(path) > len(ModPath) && path[:len(ModPath)+1] == ModPath+"/")
}

// frameFor finds the frame of function fn among the callers of fr (closures
// evaluated inside their parent's context), else root.
func (e *Bounds) frameFor(fn *ssa.Function, fr *frame) *frame {
	for f := fr; f != nil; f = f.caller {
		if f.fn == fn {
			return f
		}
	}
	return nil
}

// allocInitialised: a store to the cell dominates every load, approximated by:
// there is a store in the cell's own block after the Alloc, or the cell is a
// parameter spill. Otherwise the zero value may be observed.
func allocInitialised(al *ssa.Alloc) bool {
	refs := al.Referrers()
	if refs == nil {
		return false
	}
	for _, r := range *refs {
		if st, ok := r.(*ssa.Store); ok && st.Addr == al && st.Block() == al.Block() {
			return true
		}
	}
	return false
}

// ---------------------------------------------------------------------------
// calls

func builtinName(c *ssa.Call) string {
	if b, ok := c.Common().Value.(*ssa.Builtin); ok {
		return b.Name()
	}
	return ""
}

func (e *Bounds) call(c *ssa.Call, idx int, tuple bool, fr *frame, k Kind, use ssa.Instruction) AV {
	com := c.Common()
	switch builtinName(c) {
	case "len":
		if k != KInt {
			return TopAV(k)
		}
		return e.eval(com.Args[0], c, fr, KLen)
	case "cap":
		if k != KInt {
			return TopAV(k)
		}
		a := e.eval(com.Args[0], c, fr, KLen)
		if a.Bot {
			return a
		}
		return AV{Lo: a.Lo, Hi: LenMax}
	case "append":
		if k != KLen {
			return TopAV(k)
		}
		a := e.eval(com.Args[0], c, fr, KLen)
		b := ExactAV(0)
		if len(com.Args) > 1 {
			b = e.eval(com.Args[1], c, fr, KLen)
		}
		if a.Bot || b.Bot {
			return BotAV()
		}
		return AV{Lo: a.Lo + b.Lo, Hi: math.Min(LenMax, a.Hi+b.Hi)}
	case "min", "max":
		r := BotAV()
		first := true
		for _, arg := range com.Args {
			a := e.eval(arg, c, fr, k)
			if a.Bot {
				return a
			}
			if first {
				r, first = a, false
				continue
			}
			if builtinName(c) == "min" {
				r = AV{Lo: math.Min(r.Lo, a.Lo), Hi: math.Min(r.Hi, a.Hi), NaN: r.NaN || a.NaN}
			} else {
				r = AV{Lo: math.Max(r.Lo, a.Lo), Hi: math.Max(r.Hi, a.Hi), NaN: r.NaN || a.NaN}
			}
		}
		return r
	case "":
	default:
		return TopAV(k)
	}
	name := e.P.CalleeName(c)
	if a, ok := e.model(name, c, fr, k); ok {
		return a
	}
	var callees []*ssa.Function
	if f := com.StaticCallee(); f != nil {
		callees = []*ssa.Function{f}
	} else {
		callees = e.P.Callees(c)
		if len(callees) == 0 || len(callees) > 8 {
			return TopAV(k)
		}
	}
	depth := 0
	if fr != nil {
		depth = fr.depth
	}
	if depth >= maxDepth {
		return TopAV(k)
	}
	r := BotAV()
	for _, f := range callees {
		if f.Blocks == nil {
			return TopAV(k)
		}
		if !e.P.isOwn(f) && len(f.Blocks) > 1 {
			return TopAV(k) // library function with control flow: not evaluated (model it if needed)
		}
		for p := fr; p != nil; p = p.caller {
			if p.fn == f {
				return TopAV(k) // recursion
			}
		}
		args := com.Args
		if com.IsInvoke() {
			args = append([]ssa.Value{com.Value}, com.Args...)
		}
		nf := &frame{fn: f, site: c, args: args, caller: fr, depth: depth + 1}
		if fr != nil {
			nf.up = fr.up
		}
		rets := Returns(f)
		if len(rets) == 0 {
			return TopAV(k)
		}
		for _, ret := range rets {
			if idx >= len(ret.Results) {
				return TopAV(k)
			}
			if ret.Block() == f.Recover && !mayRecover(f) {
				continue // go/ssa's recover block: reached only if a deferred call recovers
			}
			// a return that reports failure (non-nil error / false as last result) does not
			// contribute where the caller is known to have seen success
			if tuple && idx != len(ret.Results)-1 && FailureReturn(f, ret) && use != nil && SuccessKnown(c, use) {
				continue
			}
			for _, rv := range ReturnOperand(ret, idx) {
				if rv == nil {
					r = r.Join(ExactAV(0))
					continue
				}
				at := ssa.Instruction(ret)
				if ri, ok := rv.(ssa.Instruction); ok && ri.Block() != ret.Block() {
					// value spilled into a result cell: facts of the storing block apply
					if st := storeOf(rv, ret, idx); st != nil {
						at = st
					}
				}
				r = r.Join(e.eval(rv, at, nf, k))
			}
		}
	}
	if r.Bot {
		return TopAV(k)
	}
	return r
}

// storeOf finds the store instruction that spilled value v into result cell idx.
func storeOf(v ssa.Value, ret *ssa.Return, idx int) ssa.Instruction {
	u, ok := ret.Results[idx].(*ssa.UnOp)
	if !ok {
		return nil
	}
	al, ok := u.X.(*ssa.Alloc)
	if !ok {
		return nil
	}
	for _, r := range *al.Referrers() {
		if st, ok := r.(*ssa.Store); ok && st.Addr == al && st.Val == v {
			return st
		}
	}
	return nil
}

// model gives the abstract result of library functions whose bodies are not
// evaluated (assembly stubs, bit tricks).
func (e *Bounds) model(name string, c *ssa.Call, fr *frame, k Kind) (AV, bool) {
	args := c.Common().Args
	mono := func(f func(float64) float64) (AV, bool) {
		if k != KFloat {
			return TopAV(k), true
		}
		a := e.eval(args[0], c, fr, KFloat)
		if a.Bot || a.empty() {
			return a, true
		}
		return AV{Lo: f(a.Lo), Hi: f(a.Hi), NaN: a.NaN}, true
	}
	switch name {
	case "math.Floor":
		return mono(math.Floor)
	case "math.Ceil":
		return mono(math.Ceil)
	case "math.Trunc":
		return mono(math.Trunc)
	case "math.Round":
		return mono(math.Round)
	case "math.RoundToEven":
		return mono(math.RoundToEven)
	case "math.Abs":
		if k != KFloat {
			return TopAV(k), true
		}
		a := e.eval(args[0], c, fr, KFloat)
		if a.Bot || a.empty() {
			return a, true
		}
		lo := 0.0
		if a.Lo > 0 {
			lo = a.Lo
		} else if a.Hi < 0 {
			lo = -a.Hi
		}
		return AV{Lo: lo, Hi: math.Max(math.Abs(a.Lo), math.Abs(a.Hi)), NaN: a.NaN}, true
	case "math.Min", "math.Max":
		if k != KFloat {
			return TopAV(k), true
		}
		a, b := e.eval(args[0], c, fr, KFloat), e.eval(args[1], c, fr, KFloat)
		if a.Bot || b.Bot {
			return BotAV(), true
		}
		if a.empty() || b.empty() {
			return AV{Lo: math.Inf(1), Hi: math.Inf(-1), NaN: true}, true
		}
		if name == "math.Min" {
			return AV{Lo: math.Min(a.Lo, b.Lo), Hi: math.Min(a.Hi, b.Hi), NaN: a.NaN || b.NaN}, true
		}
		return AV{Lo: math.Max(a.Lo, b.Lo), Hi: math.Max(a.Hi, b.Hi), NaN: a.NaN || b.NaN}, true
	case "math.Pow":
		if k != KFloat {
			return TopAV(k), true
		}
		a, b := e.eval(args[0], c, fr, KFloat), e.eval(args[1], c, fr, KFloat)
		if a.Finite() && b.Finite() && a.Lo == a.Hi && b.Lo == b.Hi {
			r := math.Pow(a.Lo, b.Lo)
			if !math.IsNaN(r) {
				return ExactAV(r), true
			}
		}
		return TopAV(KFloat), true
	case "math.NaN":
		return AV{Lo: math.Inf(1), Hi: math.Inf(-1), NaN: true}, true
	case "math.Inf":
		return TopAV(KFloat), true
	case "runtime.NumCPU":
		e.Notes["runtime.NumCPU() ≥ 1"] = true
		return AV{Lo: 1, Hi: 1 << 20}, true
	case "unicode/utf8.RuneCountInString", "unicode/utf8.RuneCount":
		if k != KInt {
			return TopAV(k), true
		}
		a := e.eval(args[0], c, fr, KLen)
		if a.Bot {
			return a, true
		}
		lo := 0.0
		if a.Lo > 0 {
			lo = 1
		}
		return AV{Lo: lo, Hi: a.Hi}, true
	case "unicode/utf8.RuneLen", "unicode/utf8.RuneError":
		return AV{Lo: -1, Hi: 4}, true
	case "strings.Repeat", "bytes.Repeat":
		if k == KLen {
			return TopAV(KLen), true
		}
	case "strings.Split", "strings.SplitAfter", "strings.SplitN", "strings.SplitAfterN":
		// with a non-empty separator the result has at least one element (the whole string)
		if k == KLen {
			r := TopAV(KLen)
			sep := e.eval(args[1], c, fr, KLen)
			nonEmptySep := !sep.Bot && sep.Lo >= 1
			if len(args) == 3 {
				n := e.eval(args[2], c, fr, KInt)
				if n.Bot {
					return n, true
				}
				if n.Lo >= 1 {
					r.Hi = math.Min(r.Hi, n.Hi)
					if nonEmptySep {
						r.Lo = 1
					}
				} else if n.Hi < 0 && nonEmptySep {
					r.Lo = 1
				}
			} else if nonEmptySep {
				r.Lo = 1
			}
			return r, true
		}
	case "github.com/mithrandie/go-text.Width", "github.com/mithrandie/go-text.ByteSize", "github.com/mithrandie/go-text.RuneWidth", "github.com/mithrandie/go-text.RuneByteSize":
		if k == KInt {
			return AV{Lo: 0, Hi: LenMax}, true
		}
	case "(time.Time).Nanosecond":
		return AV{Lo: 0, Hi: 999999999}, true
	case "(time.Time).Second", "(time.Time).Minute":
		return AV{Lo: 0, Hi: 59}, true
	case "(time.Time).Hour":
		return AV{Lo: 0, Hi: 23}, true
	}
	return AV{}, false
}

// ---------------------------------------------------------------------------
// parameters

func (e *Bounds) param(p *ssa.Parameter, fr *frame, k Kind) AV {
	fn := p.Parent()
	idx := -1
	for i, q := range fn.Params {
		if q == p {
			idx = i
		}
	}
	if idx < 0 {
		return TopAV(k)
	}
	// bound by an enclosing evaluation?
	for f := fr; f != nil; f = f.caller {
		if f.fn == fn {
			if idx >= len(f.args) || f.site == nil {
				return TopAV(k)
			}
			return e.eval(f.args[idx], f.site.(ssa.Instruction), f.caller, k)
		}
	}
	// root: join over all callers
	up := 0
	if fr != nil {
		up = fr.up
	}
	if up >= maxUp || e.paramBusy[p] {
		return TopAV(k)
	}
	edges := e.P.RealCallers(fn)
	if len(edges) == 0 || len(edges) > maxCaller {
		return TopAV(k)
	}
	pkey := paramKey{p, k, up}
	if a, ok := e.paramMemo[pkey]; ok {
		return a
	}
	e.paramBusy[p] = true
	defer delete(e.paramBusy, p)
	e.serial++
	my := e.serial
	saved := e.depMin
	e.depMin = noDep
	defer func() {
		dep := e.depMin
		e.depMin = saved
		if dep < my && dep < e.depMin {
			e.depMin = dep
		}
	}()
	memo := func(a AV) AV {
		if a.IsTop() || (e.depMin >= my && !e.Exhausted) {
			e.paramMemo[pkey] = a
		}
		return a
	}
	res, exhausted := e.subBudget(k, subSteps, func() AV { return e.paramFromCallers(fn, idx, edges, up, k) })
	if exhausted {
		e.paramMemo[pkey] = res
		return res
	}
	return memo(res)
}

func (e *Bounds) paramFromCallers(fn *ssa.Function, idx int, edges []*callgraph.Edge, up int, k Kind) AV {
	r := BotAV()
	for _, ed := range edges {
		site := ed.Site
		if site == nil || ed.Caller == nil || ed.Caller.Func == nil {
			return TopAV(k)
		}
		com := site.Common()
		args := com.Args
		if com.IsInvoke() {
			args = append([]ssa.Value{com.Value}, com.Args...)
		}
		if com.StaticCallee() != fn && !com.IsInvoke() {
			// call through a func value: VTA edge; arguments align with params only
			// when the callee has no receiver/free-var shift — true for go/ssa
			if len(args) != len(fn.Params) {
				return TopAV(k)
			}
		}
		if idx >= len(args) {
			return TopAV(k)
		}
		si, ok := site.(ssa.Instruction)
		if !ok || si.Parent() == nil || si.Block() == nil {
			return TopAV(k)
		}
		// synthetic wrappers (bound-method thunks) have no useful context
		if si.Parent().Synthetic != "" {
			return TopAV(k)
		}
		a := e.evalUp(args[idx], si, up+1, k)
		r = r.Join(a)
		if r.IsTop() {
			return r
		}
	}
	if r.Bot {
		return TopAV(k)
	}
	return r
}

// evalUp evaluates an argument in a caller at root context, remembering how far
// up we already went.
func (e *Bounds) evalUp(v ssa.Value, at ssa.Instruction, up int, k Kind) AV {
	root := &frame{fn: nil, up: up}
	return e.eval(v, at, root, k)
}

// ---------------------------------------------------------------------------
// struct fields: join over all stores in the program

func (e *Bounds) buildIndex() {
	if e.indexed {
		return
	}
	e.indexed = true
	e.fieldIdx = map[*types.Var][]*ssa.Store{}
	e.allocs = map[*types.Named][]*ssa.Alloc{}
	e.zeroed = map[*types.Named]string{}
	noteZero := func(t types.Type, why string, self bool) {
		// record every named struct reachable by value from t (t itself only when self)
		var walk func(t types.Type, top bool, d int)
		walk = func(t types.Type, top bool, d int) {
			if d > 4 {
				return
			}
			if n, ok := t.(*types.Named); ok {
				if _, isS := n.Underlying().(*types.Struct); isS && (!top || self) {
					if _, dup := e.zeroed[n]; !dup {
						e.zeroed[n] = why
					}
				}
			}
			switch u := t.Underlying().(type) {
			case *types.Struct:
				for i := 0; i < u.NumFields(); i++ {
					walk(u.Field(i).Type(), false, d+1)
				}
			case *types.Array:
				walk(u.Elem(), false, d+1)
			}
		}
		walk(t, true, 0)
	}
	for _, fn := range e.P.SrcFuncs() {
		ctl := e.P.IsControl(fn)
		for _, b := range fn.Blocks {
			for _, in := range b.Instrs {
				switch x := in.(type) {
				case *ssa.Store:
					if fa, ok := x.Addr.(*ssa.FieldAddr); ok {
						if f := fieldVar(fa.X.Type(), fa.Field); f != nil {
							if ctl && (f.Pkg() == nil || !isControlPkg(f.Pkg().Path())) {
								continue
							}
							e.fieldIdx[f] = append(e.fieldIdx[f], x)
						}
					}
					if c, ok := x.Val.(*ssa.Const); ok && !ctl {
						noteZero(c.Type(), "zero value stored at "+e.P.InstrPos(x), true)
					}
				case *ssa.Alloc:
					if ctl {
						continue
					}
					el := x.Type().Underlying().(*types.Pointer).Elem()
					if n, ok := el.(*types.Named); ok {
						if _, isS := n.Underlying().(*types.Struct); isS {
							e.allocs[n] = append(e.allocs[n], x)
						}
					}
					noteZero(el, "embedded by value in an allocation at "+e.P.InstrPos(x), false)
				case *ssa.MakeSlice:
					if !ctl {
						noteZero(x.Type().Underlying().(*types.Slice).Elem(), "element of make([]T) at "+e.P.InstrPos(x), true)
					}
				case *ssa.MakeMap:
					if !ctl {
						if m, ok := x.Type().Underlying().(*types.Map); ok {
							noteZero(m.Elem(), "map element (missing key yields zero) at "+e.P.InstrPos(x), true)
						}
					}
				}
			}
		}
	}
}

func isControlPkg(path string) bool {
	return len(path) >= len(ControlPkg) && path[len(path)-len(ControlPkg):] == ControlPkg
}

// field returns the invariant of struct field f for kind k (len for KLen): the
// join of every value stored into the field anywhere in csvq, plus the zero
// value when some allocation of the owning struct leaves the field unset. A
// store that depends on the field itself (x.f = x.f + 1, copies) is handled by
// guess-and-verify, never optimistically.
func (e *Bounds) field(f *types.Var, k Kind) AV {
	e.buildIndex()
	key := bndFieldKey{f, k}
	if a, ok := e.fieldMemo[key]; ok {
		return a
	}
	if a, ok := e.fieldAssume[key]; ok {
		if sn := e.fldSerial[key]; sn < e.depMin {
			e.depMin = sn
		}
		return a
	}
	owner := fieldOwnerNamed(f)
	if owner == nil {
		return TopAV(k)
	}
	stores := e.fieldIdx[f]
	if len(stores) == 0 || len(stores) > maxStores {
		e.fieldMemo[key] = TopAV(k)
		return TopAV(k) // never stored explicitly in csvq, or too many writers to be an invariant worth computing — no claim
	}
	base := BotAV()
	if why, z := e.zeroed[owner]; z {
		base = base.Join(ExactAV(0))
		e.Notes["zero value of "+owner.Obj().Name()+"."+f.Name()+": "+why] = true
	}
	for _, al := range e.allocs[owner] {
		set := false
		for _, ref := range *al.Referrers() {
			switch x := ref.(type) {
			case *ssa.FieldAddr:
				if fieldVar(x.X.Type(), x.Field) == f {
					for _, r2 := range *x.Referrers() {
						if st, ok := r2.(*ssa.Store); ok && st.Addr == x {
							set = true
						}
					}
				}
			case *ssa.Store:
				if x.Addr == al {
					// whole-struct store of an existing instance keeps the invariant
					if u, ok := x.Val.(*ssa.UnOp); ok && u.Op == token.MUL {
						set = true
					}
					if _, ok := x.Val.(*ssa.Parameter); ok {
						set = true
					}
				}
			}
		}
		if !set {
			base = base.Join(ExactAV(0))
			e.Notes["zero value of "+owner.Obj().Name()+"."+f.Name()+": allocation at "+e.P.InstrPos(al)+" leaves the field unset"] = true
		}
	}
	storeFns := map[*ssa.Function]bool{}
	var fnOrder []*ssa.Function
	for _, st := range stores {
		if !storeFns[st.Parent()] {
			storeFns[st.Parent()] = true
			fnOrder = append(fnOrder, st.Parent())
		}
	}
	// what other functions observe is the field's value when a storing function
	// returns (a raw store followed by a clamp in the same function counts clamped)
	evalStores := func() AV {
		r := base
		for _, fn := range fnOrder {
			exits := 0
			for _, ret := range Returns(fn) {
				if ret.Block() == fn.Recover && !mayRecover(fn) {
					continue
				}
				exits++
				av, _ := e.fieldAt(f, nil, ret, &frame{fn: nil, up: 0}, k)
				r = r.Join(av)
			}
			if exits == 0 {
				for _, st := range stores {
					if st.Parent() == fn {
						r = r.Join(e.evalUp(st.Val, st, 0, k))
					}
				}
			}
			if r.IsTop() {
				break
			}
		}
		return r
	}
	e.serial++
	my := e.serial
	e.fldSerial[key] = my
	saved := e.depMin
	e.depMin = noDep
	result, exhausted := e.subBudget(k, subSteps, func() AV {
		e.fieldAssume[key] = BotAV()
		c := evalStores()
		result := TopAV(k)
		if !c.Bot {
			for round := 0; round < 4; round++ {
				e.fieldAssume[key] = c
				c2 := evalStores()
				if stable(c2, c) {
					result = c
					break
				}
				c = widen(c, c2, k)
			}
		}
		return result
	})
	delete(e.fieldAssume, key)
	delete(e.fldSerial, key)
	// cache only results that did not depend on an assumption opened before this one
	dep := e.depMin
	if exhausted || (dep >= my && !e.Exhausted) {
		e.fieldMemo[key] = result
	}
	e.depMin = saved
	if dep < my && dep < e.depMin {
		e.depMin = dep
	}
	return result
}

// fieldOwnerNamed finds the named struct type declaring f.
func fieldOwnerNamed(f *types.Var) *types.Named {
	if f.Pkg() == nil {
		return nil
	}
	sc := f.Pkg().Scope()
	for _, n := range sc.Names() {
		tn, ok := sc.Lookup(n).(*types.TypeName)
		if !ok {
			continue
		}
		named, ok := tn.Type().(*types.Named)
		if !ok {
			continue
		}
		st, ok := named.Underlying().(*types.Struct)
		if !ok {
			continue
		}
		for i := 0; i < st.NumFields(); i++ {
			if st.Field(i) == f {
				return named
			}
		}
	}
	return nil
}

// isOwn: f is a csvq function (not a dependency or the standard library).
func (p *Prog) isOwn(f *ssa.Function) bool {
	for f != nil {
		if _, ok := p.funcNames[f]; ok {
			return true
		}
		if f.Parent() != nil {
			f = f.Parent()
			continue
		}
		if o := f.Origin(); o != nil && o != f {
			f = o
			continue
		}
		return false
	}
	return false
}

var mayRecoverMemo = map[*ssa.Function]bool{}

// mayRecover: some deferred call of f can call recover() (directly in the
// deferred function; unresolved deferred callees count as "may").
func mayRecover(f *ssa.Function) bool {
	if v, ok := mayRecoverMemo[f]; ok {
		return v
	}
	res := false
	for _, b := range f.Blocks {
		for _, in := range b.Instrs {
			d, ok := in.(*ssa.Defer)
			if !ok {
				continue
			}
			callee := d.Common().StaticCallee()
			if callee == nil {
				if _, isB := d.Common().Value.(*ssa.Builtin); !isB {
					res = true
				}
				continue
			}
			for _, cb := range callee.Blocks {
				for _, ci := range cb.Instrs {
					if c, ok := ci.(ssa.CallInstruction); ok {
						if bi, ok := c.Common().Value.(*ssa.Builtin); ok && bi.Name() == "recover" {
							res = true
						}
					}
				}
			}
		}
	}
	mayRecoverMemo[f] = res
	return res
}

// ---------------------------------------------------------------------------
// Size-derived values (R-ERR-7's exemption): an expression all of whose leaves
// are constants, len/cap, counters, sizes reported by the runtime/library
// (rune counts, text widths, byte counts of Read/Write, file sizes) — combined
// with + - * / % min max and float rounding. Such a value carries no
// input-chosen magnitude.

type sizeEnv struct {
	fn     *ssa.Function
	args   []ssa.Value
	caller *sizeEnv
	depth  int
}

type sizeState struct {
	fail    ssa.Value // deepest value that was found not size-derived (diagnostics)
	memo    map[ssa.Value]bool
	busy    map[ssa.Value]bool
	hitBusy int
	fields  map[*types.Var]int // 0 unknown, 1 yes, 2 no, 3 busy
	allSt   map[*types.Var][]*ssa.Store
	params  map[*ssa.Parameter]int
}

var sizeLikeCallees = map[string]bool{
	"unicode/utf8.RuneCountInString": true, "unicode/utf8.RuneCount": true, "unicode/utf8.RuneLen": true,
	"unicode/utf8.DecodeRuneInString": true, "unicode/utf8.DecodeRune": true,
	"strings.Count": true, "strings.Index": true, "strings.LastIndex": true, "strings.IndexByte": true, "strings.IndexRune": true, "strings.IndexAny": true,
	"bytes.Count": true, "bytes.Index": true, "bytes.IndexByte": true,
	"runtime.NumCPU":                             true,
	"github.com/mithrandie/go-text.Width":        true,
	"github.com/mithrandie/go-text.RuneWidth":    true,
	"github.com/mithrandie/go-text.ByteSize":     true,
	"github.com/mithrandie/go-text.RuneByteSize": true,
	"(*bytes.Buffer).Len":                        true, "(*strings.Builder).Len": true, "(*bytes.Reader).Len": true,
}

// size-like interface methods (by name and result position 0 of integer type)
var sizeLikeMethods = map[string]bool{"Read": true, "Write": true, "WriteString": true, "Size": true, "Len": true, "ReadAt": true}

// SizeDerived reports whether v is built from sizes and constants only.
func (e *Bounds) SizeDerived(v ssa.Value, at ssa.Instruction) bool {
	if e.size == nil {
		e.size = &sizeState{memo: map[ssa.Value]bool{}, busy: map[ssa.Value]bool{}, fields: map[*types.Var]int{}, params: map[*ssa.Parameter]int{}}
	}
	e.size.fail = nil
	e.budget = e.Steps + maxSteps
	return e.sized(v, at, nil, 0)
}

// SizeFail names the first leaf that made the last SizeDerived query fail.
func (e *Bounds) SizeFail() ssa.Value {
	if e.size == nil {
		return nil
	}
	return e.size.fail
}

func (e *Bounds) sized(v ssa.Value, at ssa.Instruction, env *sizeEnv, up int) bool {
	st := e.size
	if _, ok := v.(*ssa.Const); ok {
		return true
	}
	if env == nil {
		if r, ok := st.memo[v]; ok {
			return r
		}
	}
	if st.busy[v] {
		st.hitBusy++
		return true // greatest fixpoint: a cycle adds no new leaves
	}
	st.busy[v] = true
	before := st.hitBusy
	r := e.sized1(v, at, env, up)
	byFacts := false
	if !r {
		// a value clamped by dominating tests (finite bounds of its own, or an upper
		// bound that is itself a size) is as good as a size
		if k, isNum := kindOfType(v.Type()); isNum && k == KInt && env == nil {
			use := at
			if use == nil {
				if in, ok := v.(ssa.Instruction); ok && in.Block() != nil {
					use = in
				}
			}
			if use != nil && e.clampedBySize(v, use, up) {
				r, byFacts = true, true
			}
		}
		if !r {
			switch x := v.(type) {
			case *ssa.Parameter, *ssa.Call, *ssa.Extract, *ssa.Lookup, *ssa.Field:
				st.fail = v // the nearest opaque source, not the leaf found behind it
			case *ssa.UnOp:
				if x.Op == token.MUL {
					st.fail = v
				} else if st.fail == nil {
					st.fail = v
				}
			default:
				if st.fail == nil {
					st.fail = v
				}
			}
		}
	}
	delete(st.busy, v)
	if env == nil && !byFacts && (!r || st.hitBusy == before) {
		st.memo[v] = r
	}
	return r
}

func (e *Bounds) sized1(v ssa.Value, at ssa.Instruction, env *sizeEnv, up int) bool {
	if b, ok := v.Type().Underlying().(*types.Basic); ok {
		switch b.Kind() {
		case types.Int8, types.Uint8, types.Int16, types.Uint16:
			return true // bounded by its type
		}
	}
	switch x := v.(type) {
	case *ssa.BinOp:
		switch x.Op {
		case token.ADD, token.SUB, token.MUL, token.QUO, token.REM, token.SHL, token.SHR, token.AND, token.OR:
			if _, ok := kindOfType(x.Type()); !ok {
				return false
			}
			return e.sized(x.X, x, env, up) && e.sized(x.Y, x, env, up)
		}
		return false
	case *ssa.UnOp:
		switch x.Op {
		case token.SUB:
			return e.sized(x.X, x, env, up)
		case token.MUL:
			return e.sizedLoad(x, env, up)
		}
		return false
	case *ssa.Phi:
		for i, ed := range x.Edges {
			pred := x.Block().Preds[i]
			if !e.sized(ed, pred.Instrs[len(pred.Instrs)-1], env, up) {
				return false
			}
		}
		return true
	case *ssa.Convert:
		if _, ok := kindOfType(x.X.Type()); !ok {
			return false
		}
		return e.sized(x.X, x, env, up)
	case *ssa.ChangeType:
		return e.sized(x.X, x, env, up)
	case *ssa.Parameter:
		return e.sizedParam(x, env, up)
	case *ssa.Call:
		return e.sizedCall(x, 0, env, up)
	case *ssa.Extract:
		switch t := x.Tuple.(type) {
		case *ssa.Call:
			return e.sizedCall(t, x.Index, env, up)
		case *ssa.Next:
			return x.Index == 1 && t.IsString // byte offset of a range over a string
		}
		return false
	case *ssa.Field:
		if f := fieldVar(x.X.Type(), x.Field); f != nil {
			return e.sizedField(f, up)
		}
	case *ssa.Lookup:
		if _, isMap := x.X.Type().Underlying().(*types.Map); isMap && !x.CommaOk {
			return e.sizedMapElems(x.X, env, up)
		}
	}
	return false
}

// sizedMapElems: every value stored into the map held by the same local cell
// (in the enclosing function and its closures) is size-derived.
func (e *Bounds) sizedMapElems(m ssa.Value, env *sizeEnv, up int) bool {
	cell := Addr(m)
	if cell == nil {
		// a map that lives in an SSA value of this function (never captured): made here,
		// every element stored into it (here or in closures) is a size
		os := Origins(m, false)
		if len(os) == 0 {
			return false
		}
		made := map[ssa.Value]bool{}
		var fn *ssa.Function
		for _, o := range os {
			mm, ok := o.(*ssa.MakeMap)
			if !ok {
				return false
			}
			made[mm] = true
			fn = mm.Parent()
		}
		found := false
		for _, b := range fn.Blocks {
			for _, in := range b.Instrs {
				mu, ok := in.(*ssa.MapUpdate)
				if !ok || !types.Identical(mu.Map.Type(), m.Type()) {
					continue
				}
				for _, o := range Origins(mu.Map, false) {
					if !made[o] {
						return false
					}
				}
				found = true
				if !e.sized(mu.Value, mu, nil, up) {
					return false
				}
			}
		}
		for _, o := range os {
			// the map must not be handed to code that could fill it differently
			for _, r := range *o.(*ssa.MakeMap).Referrers() {
				switch x := r.(type) {
				case *ssa.MapUpdate, *ssa.Lookup, *ssa.DebugRef, *ssa.Range, *ssa.Return, *ssa.Phi:
				case ssa.CallInstruction:
					if b, isB := x.Common().Value.(*ssa.Builtin); !isB || (b.Name() != "len" && b.Name() != "delete") {
						return false
					}
				default:
					return false
				}
			}
		}
		return found
	}
	root := rootCell(cell)
	al, ok := root.(*ssa.Alloc)
	if !ok {
		return false
	}
	vals, complete := StoresTo(al)
	if !complete {
		return false
	}
	found := false
	for _, v := range vals {
		if _, ok := v.(*ssa.MakeMap); ok {
			continue
		}
		// a map built and returned by a csvq helper: every element the helper stores must be a size
		if call, idx, ok := ExtractOf(v); ok {
			if f := call.Common().StaticCallee(); f != nil && f.Blocks != nil && e.P.isOwn(f) && e.sizedMapBuiltBy(f, idx, up) {
				found = true
				continue
			}
		}
		return false // the cell may hold a map built elsewhere
	}
	var visit func(fn *ssa.Function) bool
	visit = func(fn *ssa.Function) bool {
		for _, b := range fn.Blocks {
			for _, in := range b.Instrs {
				mu, ok := in.(*ssa.MapUpdate)
				if !ok {
					continue
				}
				c2 := Addr(mu.Map)
				if c2 == nil || rootCell(c2) != root {
					if types.Identical(mu.Map.Type(), m.Type()) && c2 == nil {
						return false // same map type updated through an untracked alias
					}
					continue
				}
				found = true
				if !e.sized(mu.Value, mu, nil, up) {
					return false
				}
			}
		}
		for _, af := range fn.AnonFuncs {
			if !visit(af) {
				return false
			}
		}
		return true
	}
	return visit(al.Parent()) && found
}

// sizedMapBuiltBy: result #idx of f is, on every return, a map made in f, and
// every element f stores into a map of that type goes into such a map and is size-derived.
func (e *Bounds) sizedMapBuiltBy(f *ssa.Function, idx int, up int) bool {
	made := map[ssa.Value]bool{}
	rets := Returns(f)
	if len(rets) == 0 {
		return false
	}
	var mapType types.Type
	for _, ret := range rets {
		if idx >= len(ret.Results) {
			return false
		}
		if ret.Block() == f.Recover && !mayRecover(f) {
			continue
		}
		for _, rv := range ReturnOperand(ret, idx) {
			if rv == nil {
				continue // nil map: no elements
			}
			for _, o := range Origins(rv, false) {
				mm, ok := o.(*ssa.MakeMap)
				if !ok || mm.Parent() != f {
					if IsNilConst(o) {
						continue
					}
					return false
				}
				made[mm] = true
				mapType = mm.Type()
			}
		}
	}
	if len(made) == 0 {
		return false
	}
	var fns []*ssa.Function
	var all func(g *ssa.Function)
	all = func(g *ssa.Function) {
		fns = append(fns, g)
		for _, af := range g.AnonFuncs {
			all(af)
		}
	}
	all(f)
	for _, g := range fns {
		for _, b := range g.Blocks {
			for _, in := range b.Instrs {
				mu, ok := in.(*ssa.MapUpdate)
				if !ok || !types.Identical(mu.Map.Type(), mapType) {
					continue
				}
				os := Origins(mu.Map, false)
				if len(os) == 0 {
					return false
				}
				for _, o := range os {
					if !made[o] {
						return false
					}
				}
				if !e.sized(mu.Value, mu, nil, up) {
					return false
				}
			}
		}
	}
	return true
}

func (e *Bounds) sizedLoad(x *ssa.UnOp, env *sizeEnv, up int) bool {
	switch a := x.X.(type) {
	case *ssa.Alloc, *ssa.FreeVar:
		vals, complete := StoresTo(a)
		if !complete {
			return false
		}
		for _, s := range vals {
			var senv *sizeEnv
			if s.Parent() == x.Parent() {
				senv = env
			} else {
				for f := env; f != nil; f = f.caller {
					if f.fn == s.Parent() {
						senv = f
					}
				}
			}
			if !e.sized(s, nil, senv, up) {
				return false
			}
		}
		return true
	case *ssa.FieldAddr:
		if f := fieldVar(a.X.Type(), a.Field); f != nil {
			return e.sizedField(f, up)
		}
	}
	return false
}

func (e *Bounds) sizedField(f *types.Var, up int) bool {
	st := e.size
	switch st.fields[f] {
	case 1, 3:
		return true
	case 2:
		return false
	}
	if _, ok := kindOfType(f.Type()); !ok {
		st.fields[f] = 2
		return false
	}
	if st.allSt == nil {
		st.allSt = map[*types.Var][]*ssa.Store{}
		for fn := range ssautilAll(e.P) {
			if e.P.IsControl(fn) {
				continue
			}
			for _, b := range fn.Blocks {
				for _, in := range b.Instrs {
					if s, ok := in.(*ssa.Store); ok {
						if fa, ok := s.Addr.(*ssa.FieldAddr); ok {
							if fv := fieldVar(fa.X.Type(), fa.Field); fv != nil {
								st.allSt[fv] = append(st.allSt[fv], s)
							}
						}
					}
				}
			}
		}
	}
	stores := st.allSt[f]
	if len(stores) > 3*maxStores {
		st.fields[f] = 2
		return false
	}
	st.fields[f] = 3
	for _, s := range stores {
		if !e.sized(s.Val, s, nil, up) {
			st.fields[f] = 2
			return false
		}
	}
	st.fields[f] = 1
	return true
}

func (e *Bounds) sizedCall(c *ssa.Call, idx int, env *sizeEnv, up int) bool {
	com := c.Common()
	switch builtinName(c) {
	case "len", "cap", "copy":
		return true
	case "min", "max":
		for _, a := range com.Args {
			if !e.sized(a, c, env, up) {
				return false
			}
		}
		return true
	case "":
	default:
		return false
	}
	if com.IsInvoke() {
		if idx == 0 && sizeLikeMethods[com.Method.Name()] {
			if res := com.Method.Type().(*types.Signature).Results(); res.Len() > 0 {
				if _, ok := kindOfType(res.At(0).Type()); ok {
					return true
				}
			}
		}
	}
	name := e.P.CalleeName(c)
	if sizeLikeCallees[name] {
		return true
	}
	switch name {
	case "math.Floor", "math.Ceil", "math.Trunc", "math.Round", "math.Abs", "math.Min", "math.Max":
		for _, a := range com.Args {
			if !e.sized(a, c, env, up) {
				return false
			}
		}
		return true
	}
	var callees []*ssa.Function
	if f := com.StaticCallee(); f != nil {
		callees = []*ssa.Function{f}
	} else {
		callees = e.P.Callees(c)
		if len(callees) == 0 || len(callees) > 8 {
			return false
		}
	}
	depth := 0
	if env != nil {
		depth = env.depth
	}
	if depth >= maxDepth {
		return false
	}
	for _, f := range callees {
		if f.Blocks == nil {
			return false
		}
		if !e.P.isOwn(f) && len(f.Blocks) > 3 {
			return false
		}
		args := com.Args
		if com.IsInvoke() {
			args = append([]ssa.Value{com.Value}, com.Args...)
		}
		recursive := false
		for p := env; p != nil; p = p.caller {
			if p.fn == f {
				recursive = true
			}
		}
		if recursive {
			// coinductive: the recursive activation has the same leaves, provided no
			// new numeric leaf enters through its arguments
			for _, a := range args {
				if _, num := kindOfType(a.Type()); num && !e.sized(a, c, env, up) {
					return false
				}
			}
			continue
		}
		nenv := &sizeEnv{fn: f, args: args, caller: env, depth: depth + 1}
		rets := Returns(f)
		if len(rets) == 0 {
			return false
		}
		for _, ret := range rets {
			if idx >= len(ret.Results) {
				return false
			}
			if ret.Block() == f.Recover && !mayRecover(f) {
				continue
			}
			for _, rv := range ReturnOperand(ret, idx) {
				if rv != nil && !e.sized(rv, ret, nenv, up) {
					return false
				}
			}
		}
	}
	return true
}

func (e *Bounds) sizedParam(p *ssa.Parameter, env *sizeEnv, up int) bool {
	fn := p.Parent()
	idx := -1
	for i, q := range fn.Params {
		if q == p {
			idx = i
		}
	}
	if idx < 0 {
		return false
	}
	for f := env; f != nil; f = f.caller {
		if f.fn == fn {
			if idx >= len(f.args) {
				return false
			}
			return e.sized(f.args[idx], nil, f.caller, up)
		}
	}
	st := e.size
	switch st.params[p] {
	case 1, 3:
		return true
	case 2:
		return false
	}
	if up >= maxUp {
		return false
	}
	edges := e.P.RealCallers(fn)
	if len(edges) == 0 || len(edges) > maxCaller {
		st.params[p] = 2
		return false
	}
	st.params[p] = 3
	for _, ed := range edges {
		if ed.Site == nil || ed.Caller == nil || ed.Caller.Func == nil || ed.Caller.Func.Synthetic != "" {
			st.params[p] = 2
			return false
		}
		com := ed.Site.Common()
		args := com.Args
		if com.IsInvoke() {
			args = append([]ssa.Value{com.Value}, com.Args...)
		}
		if idx >= len(args) || len(args) != len(fn.Params) || !e.sized(args[idx], ed.Site.(ssa.Instruction), nil, up+1) {
			st.params[p] = 2
			return false
		}
	}
	st.params[p] = 1
	return true
}

var allFnsMemo = map[*Prog]map[*ssa.Function]bool{}

func ssautilAll(p *Prog) map[*ssa.Function]bool {
	if m, ok := allFnsMemo[p]; ok {
		return m
	}
	m := ssautil.AllFunctions(p.SSA)
	allFnsMemo[p] = m
	return m
}

// clampedBySize: at the point of use, v has a finite lower bound and either a
// finite upper bound or a dominating test `v < S` / `v <= S` with S size-derived.
func (e *Bounds) clampedBySize(v ssa.Value, use ssa.Instruction, up int) bool {
	a := e.eval(v, use, nil, KInt)
	if a.Bot {
		return true
	}
	if math.IsInf(a.Lo, 0) || a.Lo < -4*LenMax {
		return false
	}
	if !math.IsInf(a.Hi, 0) {
		return a.Hi <= 4*CounterMax
	}
	for _, f := range FactsAt(use.Block()) {
		c, ok := f.Cond.(*ssa.BinOp)
		if !ok {
			continue
		}
		op := c.Op
		var other ssa.Value
		switch {
		case SameVal(c.X, v):
			other = c.Y
		case SameVal(c.Y, v):
			other = c.X
			op = flipCmp(op)
		default:
			continue
		}
		if f.Neg {
			op = negCmp(op)
		}
		if op != token.LSS && op != token.LEQ && op != token.EQL {
			continue
		}
		if e.sized(other, f.If, nil, up) {
			return true
		}
	}
	return false
}

// ---------------------------------------------------------------------------
// path-sensitive reaching stores of a struct field inside one function

// fieldAt returns the abstract value of field f (of the object `base`, or of
// any object when base is nil) just before instruction `at`, joined over the
// stores of the enclosing function that reach `at`. Each stored value is
// refined by the branch conditions on re-loads of the same field that lie on
// the path from the store to `at` (`x.f = raw; if x.f < 0 { x.f = 0 }`).
// ok=false when some path reaches the function entry without a store.
func (e *Bounds) fieldAt(f *types.Var, base ssa.Value, at ssa.Instruction, fr *frame, k Kind) (AV, bool) {
	type pf struct {
		fact Fact
		load *ssa.UnOp
	}
	isField := func(addr ssa.Value) bool {
		fa, ok := addr.(*ssa.FieldAddr)
		if !ok || fieldVar(fa.X.Type(), fa.Field) != f {
			return false
		}
		return base == nil || SameVal(fa.X, base)
	}
	fieldLoadIn := func(cond ssa.Value, blk *ssa.BasicBlock) *ssa.UnOp {
		b, ok := cond.(*ssa.BinOp)
		if !ok {
			return nil
		}
		for _, side := range []ssa.Value{b.X, b.Y} {
			if u, ok := side.(*ssa.UnOp); ok && u.Op == token.MUL && u.Block() == blk && isField(u.X) {
				return u
			}
		}
		return nil
	}
	factsIn := map[*ssa.BasicBlock][]pf{}
	seen := map[*ssa.BasicBlock]bool{}
	found := map[*ssa.Store][]pf{}
	complete := true
	type item struct {
		blk  *ssa.BasicBlock
		from int
	}
	intersect := func(a, b []pf) []pf {
		var out []pf
		for _, x := range a {
			for _, y := range b {
				if x.fact.If == y.fact.If && x.fact.Neg == y.fact.Neg {
					out = append(out, x)
					break
				}
			}
		}
		return out
	}
	startBlk := at.Block()
	work := []item{{startBlk, InstrIndex(at) - 1}}
	factsIn[startBlk] = nil
	steps := 0
	for len(work) > 0 {
		it := work[len(work)-1]
		work = work[:len(work)-1]
		steps++
		if steps > 400 {
			return TopAV(k), false
		}
		cur := factsIn[it.blk]
		stopped := false
		for i := it.from; i >= 0; i-- {
			st, ok := it.blk.Instrs[i].(*ssa.Store)
			if !ok || !isField(st.Addr) {
				continue
			}
			// facts whose load precedes the store in this block speak about the old value
			var valid []pf
			for _, x := range cur {
				if x.load.Block() == it.blk && InstrIndex(x.load) < i {
					continue
				}
				valid = append(valid, x)
			}
			if old, dup := found[st]; dup {
				valid = intersect(old, valid)
			}
			found[st] = valid
			stopped = true
			break
		}
		if stopped {
			continue
		}
		if len(it.blk.Preds) == 0 {
			complete = false
			continue
		}
		for _, p := range it.blk.Preds {
			next := append([]pf{}, cur...)
			if iff, ok := p.Instrs[len(p.Instrs)-1].(*ssa.If); ok && len(p.Succs) == 2 && p.Succs[0] != p.Succs[1] {
				if ld := fieldLoadIn(iff.Cond, p); ld != nil {
					next = append(next, pf{Fact{Cond: iff.Cond, Neg: p.Succs[1] == it.blk, If: iff}, ld})
				}
			}
			if seen[p] && !(p == startBlk && it.blk != startBlk && false) {
				merged := intersect(factsIn[p], next)
				if len(merged) == len(factsIn[p]) {
					continue
				}
				factsIn[p] = merged
			} else {
				seen[p] = true
				factsIn[p] = next
			}
			work = append(work, item{p, len(p.Instrs) - 1})
		}
	}
	if len(found) == 0 {
		return BotAV(), complete
	}
	r := BotAV()
	for st, fs := range found {
		a := e.eval(st.Val, st, fr, k)
		for _, x := range fs {
			if a.Bot {
				break
			}
			a = e.applyFact(x.fact, x.load, fr, k, a)
		}
		// the stored SSA value is immutable: what dominates `at` and speaks about it
		// (a test of the local the field was stored from) also bounds the field there
		if !a.Bot && st.Block() != at.Block() {
			a = e.refine(st.Val, at, fr, k, a)
		}
		r = r.Join(a)
	}
	return r, complete
}

// ---------------------------------------------------------------------------
// success / failure of a multi-result call

// FailureReturn: the last result of this return of f is a failure marker — a
// provably non-nil error or the constant false.
func FailureReturn(f *ssa.Function, ret *ssa.Return) bool {
	n := len(ret.Results)
	if n < 2 {
		return false
	}
	last := f.Signature.Results().At(n - 1).Type()
	ops := ReturnOperand(ret, n-1)
	if len(ops) == 0 {
		return false
	}
	for _, v := range ops {
		if v == nil {
			return false
		}
		if IsErrorType(last) {
			if ClassifyNil(v, ret) != NonNil {
				return false
			}
			continue
		}
		if b, ok := ConstBool(v); !ok || b {
			return false
		}
	}
	return true
}

// SuccessKnown: where `at` executes, the call's last result is known to signal
// success: the error result is nil (tested directly or through the variable it
// was assigned to), or the bool result is true.
func SuccessKnown(call *ssa.Call, at ssa.Instruction) bool {
	tup, ok := call.Type().(*types.Tuple)
	if !ok || tup.Len() < 2 || call.Referrers() == nil {
		return false
	}
	var last *ssa.Extract
	for _, r := range *call.Referrers() {
		if ex, ok := r.(*ssa.Extract); ok && ex.Index == tup.Len()-1 {
			last = ex
		}
	}
	if last == nil {
		return false
	}
	if IsErrorType(last.Type()) {
		return ErrKnownNilAt(last, at)
	}
	for _, f := range FactsAt(at.Block()) {
		cond, neg := f.Cond, f.Neg
		for {
			u, ok := cond.(*ssa.UnOp)
			if !ok || u.Op != token.NOT {
				break
			}
			cond, neg = u.X, !neg
		}
		if cond == last && !neg {
			return true
		}
		// ok stored in a variable: a load of that cell
		if ld, ok := cond.(*ssa.UnOp); ok && ld.Op == token.MUL && !neg {
			for _, st := range cellStoresOf(last) {
				if ld.X == st.Addr && Dominates(st, ld) && !otherStoreBetween(st, ld) {
					return true
				}
			}
		}
	}
	return false
}

func cellStoresOf(v ssa.Value) []*ssa.Store {
	var out []*ssa.Store
	if v.Referrers() == nil {
		return nil
	}
	for _, r := range *v.Referrers() {
		if st, ok := r.(*ssa.Store); ok && st.Val == v {
			switch st.Addr.(type) {
			case *ssa.Alloc, *ssa.FreeVar:
				out = append(out, st)
			}
		}
	}
	return out
}

func otherStoreBetween(st *ssa.Store, ld ssa.Instruction) bool {
	for _, b := range st.Parent().Blocks {
		for _, in := range b.Instrs {
			s2, ok := in.(*ssa.Store)
			if !ok || s2 == st || s2.Addr != st.Addr {
				continue
			}
			if Reachable(st, s2, func(i ssa.Instruction) bool { return i == ld }) && Reachable(s2, ld, nil) {
				return true
			}
		}
	}
	return false
}

// ErrKnownNilAt: the error value is known nil at `at` — by a dominating test of
// the value itself or of the local variable it was assigned to.
func ErrKnownNilAt(errV ssa.Value, at ssa.Instruction) bool {
	if NilAt(errV, at) {
		return true
	}
	for _, f := range FactsAt(at.Block()) {
		x, neq, ok := NilCmp(f.Cond)
		if !ok || neq != f.Neg {
			continue
		}
		ld, isLd := x.(*ssa.UnOp)
		if !isLd {
			continue
		}
		for _, st := range cellStoresOf(errV) {
			if ld.X == st.Addr && Dominates(st, ld) && !otherStoreBetween(st, ld) {
				return true
			}
		}
	}
	return false
}
