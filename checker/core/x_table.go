package core

import (
	"go/constant"
	"go/token"
	"go/types"
	"sort"

	"golang.org/x/tools/go/ssa"
)

// ---------------------------------------------------------------------------
// Table extraction (DESIGN E6 "table extraction" mode).
//
// A *dispatch* is a chain of equality tests of one key value against
// constants: go/ssa compiles `switch k { case A, B: … default: … }` and
// `if k == A || k == B { … } else if k == C { … } else { … }` to the same
// shape — a test block ending in `If k == const` whose false successor is the
// next test of the same key. Map literals (`var T = map[K]V{…}`) and slice
// literals are read from the MakeMap/MapUpdate (Alloc/IndexAddr/Store)
// sequence of the function or package initialiser that builds them.

// Arm is one arm of a dispatch: the constants that select it (none for the
// default arm) and the first block of its body.
type Arm struct {
	Keys    []*ssa.Const
	Default bool
	Block   *ssa.BasicBlock
	From    *ssa.BasicBlock // a test block whose edge enters the arm
}

// Dispatch is one chain of equality tests on Key.
type Dispatch struct {
	Fn    *ssa.Function
	Key   ssa.Value
	Head  *ssa.BasicBlock
	Tests map[*ssa.BasicBlock]bool
	Arms  []*Arm // in source order of their first key; default last
}

// eqTest decomposes the terminating If of b into (key, const, armSucc, nextSucc).
func eqTest(b *ssa.BasicBlock) (key ssa.Value, c *ssa.Const, arm, next *ssa.BasicBlock, ok bool) {
	if len(b.Instrs) == 0 || len(b.Succs) != 2 {
		return
	}
	iff, isIf := b.Instrs[len(b.Instrs)-1].(*ssa.If)
	if !isIf {
		return
	}
	bin, isBin := iff.Cond.(*ssa.BinOp)
	if !isBin || (bin.Op != token.EQL && bin.Op != token.NEQ) {
		return
	}
	x, y := bin.X, bin.Y
	if cx, isC := x.(*ssa.Const); isC {
		if _, both := y.(*ssa.Const); both {
			return
		}
		x, y = y, cx
	}
	cy, isC := y.(*ssa.Const)
	if !isC || cy.Value == nil {
		return // comparisons with nil are not table cells
	}
	switch cy.Value.Kind() {
	case constant.Int, constant.String, constant.Bool:
	default:
		return
	}
	if bin.Op == token.EQL {
		return x, cy, b.Succs[0], b.Succs[1], true
	}
	return x, cy, b.Succs[1], b.Succs[0], true
}

// sameKey: the same SSA value, or loads of the same variable/field.
func sameKey(a, b ssa.Value) bool {
	if a == b || SameCell(a, b) {
		return true
	}
	// conversions of the same key (rune(x) == 'a')
	ca, ok1 := a.(*ssa.Convert)
	cb, ok2 := b.(*ssa.Convert)
	if ok1 && ok2 {
		return sameKey(ca.X, cb.X)
	}
	return false
}

// pureTestBlock: a follow-up test block may only recompute the key (loads,
// field addresses, conversions, the comparison itself).
func pureTestBlock(b *ssa.BasicBlock) bool {
	for _, in := range b.Instrs {
		switch in.(type) {
		case *ssa.UnOp, *ssa.FieldAddr, *ssa.Field, *ssa.BinOp, *ssa.Convert, *ssa.ChangeType, *ssa.If, *ssa.DebugRef, *ssa.IndexAddr, *ssa.Index:
		default:
			return false
		}
	}
	return true
}

// Dispatches returns every equality-test chain of fn (chains of length one
// included), heads in block order.
func Dispatches(fn *ssa.Function) []*Dispatch {
	type test struct {
		key       ssa.Value
		c         *ssa.Const
		arm, next *ssa.BasicBlock
	}
	tests := map[*ssa.BasicBlock]test{}
	for _, b := range fn.Blocks {
		if k, c, a, n, ok := eqTest(b); ok {
			tests[b] = test{k, c, a, n}
		}
	}
	// a block continues a chain when it is the `next` of a test on the same key,
	// has that block as its only predecessor and computes nothing else
	cont := map[*ssa.BasicBlock]bool{}
	for b, t := range tests {
		if nt, ok := tests[t.next]; ok && t.next != b && len(t.next.Preds) == 1 && sameKey(t.key, nt.key) && pureTestBlock(t.next) {
			cont[t.next] = true
		}
	}
	var out []*Dispatch
	for _, b := range fn.Blocks {
		t, ok := tests[b]
		if !ok || cont[b] {
			continue
		}
		d := &Dispatch{Fn: fn, Key: t.key, Head: b, Tests: map[*ssa.BasicBlock]bool{}}
		byBlock := map[*ssa.BasicBlock]*Arm{}
		cur := b
		for {
			ct := tests[cur]
			d.Tests[cur] = true
			a := byBlock[ct.arm]
			if a == nil {
				a = &Arm{Block: ct.arm, From: cur}
				byBlock[ct.arm] = a
				d.Arms = append(d.Arms, a)
			}
			a.Keys = append(a.Keys, ct.c)
			if !cont[ct.next] {
				// ct.next is the default arm (possibly the join block when there is no default)
				if da := byBlock[ct.next]; da != nil {
					da.Default = true
				} else {
					d.Arms = append(d.Arms, &Arm{Default: true, Block: ct.next, From: cur})
				}
				break
			}
			cur = ct.next
		}
		out = append(out, d)
	}
	return out
}

// ArmFor returns the arm selected by constant value v (the default arm when no
// case matches).
func (d *Dispatch) ArmFor(v constant.Value) *Arm {
	var def *Arm
	for _, a := range d.Arms {
		for _, k := range a.Keys {
			if constant.Compare(k.Value, token.EQL, v) {
				return a
			}
		}
		if a.Default {
			def = a
		}
	}
	return def
}

// Region returns the blocks that belong to arm a: reachable from its first
// block without re-entering the chain and without crossing the join block of the
// dispatch (the immediate post-dominator of its head). A `fallthrough` target
// belongs to both arms that reach it.
func (d *Dispatch) Region(a *Arm) map[*ssa.BasicBlock]bool {
	join := ImmediatePostDominator(d.Head)
	out := map[*ssa.BasicBlock]bool{}
	if d.Tests[a.Block] || a.Block == join {
		return out
	}
	out[a.Block] = true
	st := []*ssa.BasicBlock{a.Block}
	for len(st) > 0 {
		b := st[len(st)-1]
		st = st[:len(st)-1]
		for _, s := range b.Succs {
			if !out[s] && !d.Tests[s] && s != join {
				out[s] = true
				st = append(st, s)
			}
		}
	}
	return out
}

// ImmediatePostDominator returns the closest block every path from b to a
// function exit passes through (nil when that is the exit itself).
func ImmediatePostDominator(b *ssa.BasicBlock) *ssa.BasicBlock {
	fn := b.Parent()
	n := len(fn.Blocks)
	// pdom[i] as bitset over n+1 nodes (n = virtual exit)
	words := (n + 1 + 63) / 64
	full := make([]uint64, words)
	for i := 0; i <= n; i++ {
		full[i/64] |= 1 << uint(i%64)
	}
	pdom := make([][]uint64, n+1)
	for i := 0; i <= n; i++ {
		pdom[i] = append([]uint64(nil), full...)
	}
	exit := make([]uint64, words)
	exit[n/64] |= 1 << uint(n%64)
	pdom[n] = exit
	changed := true
	for changed {
		changed = false
		for i := n - 1; i >= 0; i-- {
			blk := fn.Blocks[i]
			cur := append([]uint64(nil), full...)
			if len(blk.Succs) == 0 {
				copy(cur, pdom[n])
			} else {
				for _, s := range blk.Succs {
					for w := range cur {
						cur[w] &= pdom[s.Index][w]
					}
				}
			}
			cur[i/64] |= 1 << uint(i%64)
			for w := range cur {
				if cur[w] != pdom[i][w] {
					changed = true
				}
			}
			pdom[i] = cur
		}
	}
	count := func(s []uint64) int {
		c := 0
		for _, w := range s {
			for ; w != 0; w &= w - 1 {
				c++
			}
		}
		return c
	}
	best, bestN := -1, -1
	for i := 0; i < n; i++ {
		if i == b.Index || pdom[b.Index][i/64]&(1<<uint(i%64)) == 0 {
			continue
		}
		if c := count(pdom[i]); c > bestN {
			best, bestN = i, c
		}
	}
	if best < 0 {
		return nil
	}
	return fn.Blocks[best]
}

// RegionInstrs lists the instructions of an arm's region in block order.
func (d *Dispatch) RegionInstrs(a *Arm) []ssa.Instruction {
	reg := d.Region(a)
	var out []ssa.Instruction
	for _, b := range d.Fn.Blocks {
		if reg[b] {
			out = append(out, b.Instrs...)
		}
	}
	return out
}

// ---------------------------------------------------------------------------
// Literals

// MapEntry is one `key: value` of a map literal.
type MapEntry struct {
	Key *ssa.Const
	Val ssa.Value
	At  ssa.Instruction
}

// MapLiteralOf returns the entries written into the map created by mk (the
// MapUpdate instructions on that MakeMap value in its function).
func MapLiteralOf(mk *ssa.MakeMap) []MapEntry {
	var out []MapEntry
	if mk.Referrers() == nil {
		return nil
	}
	for _, r := range *mk.Referrers() {
		if mu, ok := r.(*ssa.MapUpdate); ok && mu.Map == mk {
			if k, ok := mu.Key.(*ssa.Const); ok {
				out = append(out, MapEntry{k, mu.Value, mu})
			} else {
				out = append(out, MapEntry{nil, mu.Value, mu})
			}
		}
	}
	return out
}

// GlobalInit returns the values stored into package-level variable g by the
// package initialiser.
func GlobalInit(g *ssa.Global) []ssa.Value {
	var out []ssa.Value
	if g.Pkg == nil {
		return nil
	}
	init := g.Pkg.Func("init")
	if init == nil {
		return nil
	}
	for _, b := range init.Blocks {
		for _, in := range b.Instrs {
			if st, ok := in.(*ssa.Store); ok && st.Addr == g {
				out = append(out, st.Val)
			}
		}
	}
	return out
}

// GlobalMapLiteral reads `var g = map[K]V{…}`.
func GlobalMapLiteral(g *ssa.Global) ([]MapEntry, bool) {
	vals := GlobalInit(g)
	if len(vals) != 1 {
		return nil, false
	}
	mk, ok := vals[0].(*ssa.MakeMap)
	if !ok {
		return nil, false
	}
	return MapLiteralOf(mk), true
}

// SliceLiteral reads a slice value built from an array literal:
// `slice (new [N]T)[:]` with one Store per element through IndexAddr.
func SliceLiteral(v ssa.Value) ([]ssa.Value, bool) {
	sl, ok := v.(*ssa.Slice)
	if !ok {
		return nil, false
	}
	al, ok := sl.X.(*ssa.Alloc)
	if !ok || al.Referrers() == nil {
		return nil, false
	}
	byIdx := map[int64]ssa.Value{}
	for _, r := range *al.Referrers() {
		ia, ok := r.(*ssa.IndexAddr)
		if !ok {
			continue
		}
		idx, ok := ConstInt(ia.Index)
		if !ok || ia.Referrers() == nil {
			return nil, false
		}
		for _, rr := range *ia.Referrers() {
			if st, ok := rr.(*ssa.Store); ok && st.Addr == ia {
				byIdx[idx] = st.Val
			}
		}
	}
	idxs := make([]int64, 0, len(byIdx))
	for i := range byIdx {
		idxs = append(idxs, i)
	}
	sort.Slice(idxs, func(i, j int) bool { return idxs[i] < idxs[j] })
	out := make([]ssa.Value, 0, len(idxs))
	for _, i := range idxs {
		out = append(out, byIdx[i])
	}
	return out, true
}

// GlobalStringSlice reads `var g = []string{…}`.
func GlobalStringSlice(g *ssa.Global) ([]string, bool) {
	vals := GlobalInit(g)
	if len(vals) != 1 {
		return nil, false
	}
	elems, ok := SliceLiteral(vals[0])
	if !ok {
		return nil, false
	}
	var out []string
	for _, e := range elems {
		s, ok := ConstString(e)
		if !ok {
			return nil, false
		}
		out = append(out, s)
	}
	return out, true
}

// EnumConsts lists the declared constants of a named type in its package,
// sorted by value.
func EnumConsts(t types.Type) []*types.Const {
	n, ok := t.(*types.Named)
	if !ok || n.Obj().Pkg() == nil {
		return nil
	}
	sc := n.Obj().Pkg().Scope()
	var out []*types.Const
	for _, name := range sc.Names() {
		if c, ok := sc.Lookup(name).(*types.Const); ok && types.Identical(c.Type(), t) {
			out = append(out, c)
		}
	}
	sort.Slice(out, func(i, j int) bool {
		return constant.Compare(out[i].Val(), token.LSS, out[j].Val())
	})
	return out
}

// ConstRune returns the integer value of a rune/int constant.
func ConstRune(v ssa.Value) (rune, bool) {
	i, ok := ConstInt(v)
	return rune(i), ok
}
