package core

// Engine E16, part 2: dynamic-type flow through the syntax tree.
//
// For every interface-typed field of a struct declared in csvq, every interface-typed
// union slot of a grammar symbol, every interface-typed parameter and result, the engine
// computes the set of dynamic types the place can hold (least fixpoint of the stores,
// composite literals, grammar actions and calls of the whole program), and for slices of
// interfaces the set of dynamic types of the elements. "?" in a set means "anything"
// (a source the engine does not follow); nil is not tracked (a nil operand is the business
// of the nil rules).
//
// The grammar actions live in the generated parser, whose positions are in parser.y
// coordinates (//line directives): `yyDollar[k].slot` read in the action of a production is
// the value of the production's k-th right-side symbol, a store to `yyVAL.slot` is the value
// of its left side; a production whose action does not assign `$$` (or that has no action)
// passes `$1` on.

import (
	"go/token"
	"os"
	"go/types"
	"sort"
	"strings"

	"golang.org/x/tools/go/callgraph"
	"golang.org/x/tools/go/ssa"
)

// DynSet is a set of type names ("?" = unknown).
type DynSet map[string]bool

func (s DynSet) Unknown() bool { return s["?"] }

func (s DynSet) List() []string {
	out := make([]string, 0, len(s))
	for k := range s {
		out = append(out, k)
	}
	sort.Strings(out)
	return out
}

// DynFlow is the solved system.
type DynFlow struct {
	p       *Prog
	G       *YaccGrammar
	symD    map[string]DynSet
	symE    map[string]DynSet
	fldD    map[*types.Var]DynSet
	fldE    map[*types.Var]DynSet
	wildE   map[string]DynSet // by element type: element stores through slices the engine could not attribute
	WildSites []string
	changed bool
	Rounds  int
	// indexes
	elemStores map[*ssa.Function][]*ssa.Store // stores through IndexAddr with interface elements
	copies     map[*ssa.Function][]*ssa.Call  // builtin copy calls on interface slices
	closureOf  map[*ssa.Function][]*ssa.MakeClosure
	assigned   map[*YaccProd]bool // the action stores to the slot of its left side
	parseFn    *ssa.Function
	Notes      []string
	val        map[dynKey]DynSet // per-value sets: part of the fixpoint
	seenRound  map[dynKey]int
	csvqFn     map[*ssa.Function]bool
}

type dynKey struct {
	v    ssa.Value
	elem bool
}

// TypeName is the name used in the sets.
func TypeName(t types.Type) string {
	return types.TypeString(t, func(p *types.Package) string { return Short(p.Path()) })
}

func isIface(t types.Type) bool {
	_, ok := t.Underlying().(*types.Interface)
	return ok
}

// elemIface: t is a slice / array / pointer to array of interfaces.
func elemIface(t types.Type) bool {
	switch u := t.Underlying().(type) {
	case *types.Slice:
		return isIface(u.Elem())
	case *types.Array:
		return isIface(u.Elem())
	case *types.Pointer:
		if a, ok := u.Elem().Underlying().(*types.Array); ok {
			return isIface(a.Elem())
		}
	}
	return false
}

func (d *DynFlow) add(m DynSet, s DynSet) {
	for k := range s {
		if !m[k] {
			m[k] = true
			d.changed = true
		}
	}
}

func getSet[K comparable](m map[K]DynSet, k K) DynSet {
	s := m[k]
	if s == nil {
		s = DynSet{}
		m[k] = s
	}
	return s
}

var unknownSet = DynSet{"?": true}

// fieldVar returns the field object addressed by a FieldAddr / read by a Field.
func dynFieldVar(v ssa.Value) *types.Var {
	switch x := v.(type) {
	case *ssa.FieldAddr:
		if st := derefStruct(x.X.Type()); st != nil && x.Field < st.NumFields() {
			return st.Field(x.Field)
		}
	case *ssa.Field:
		if st := derefStruct(x.X.Type()); st != nil && x.Field < st.NumFields() {
			return st.Field(x.Field)
		}
	}
	return nil
}

// NewDynFlow builds and solves the system. grammarRel is the path of the goyacc grammar relative to the repository.
func NewDynFlow(p *Prog, grammarRel string) (*DynFlow, error) {
	g, err := ReadYacc(p.Repo, grammarRel)
	if err != nil {
		return nil, err
	}
	d := &DynFlow{p: p, G: g, symD: map[string]DynSet{}, symE: map[string]DynSet{}, fldD: map[*types.Var]DynSet{}, fldE: map[*types.Var]DynSet{},
		wildE: map[string]DynSet{}, elemStores: map[*ssa.Function][]*ssa.Store{}, copies: map[*ssa.Function][]*ssa.Call{}, closureOf: map[*ssa.Function][]*ssa.MakeClosure{},
		assigned: map[*YaccProd]bool{}, val: map[dynKey]DynSet{}, seenRound: map[dynKey]int{}, csvqFn: map[*ssa.Function]bool{}}
	fns := p.AllCsvqFuncs()
	for _, fn := range fns {
		if fn.Blocks == nil {
			continue
		}
		d.csvqFn[fn] = true
		if fn.Name() == "Parse" && fn.Signature.Recv() != nil && strings.HasSuffix(TypeName(fn.Signature.Recv().Type()), "yyParserImpl") {
			d.parseFn = fn
		}
		for _, b := range fn.Blocks {
			for _, in := range b.Instrs {
				switch x := in.(type) {
				case *ssa.Store:
					if ia, ok := x.Addr.(*ssa.IndexAddr); ok && isIface(x.Val.Type()) {
						_ = ia
						d.elemStores[fn] = append(d.elemStores[fn], x)
					}
				case *ssa.Call:
					if b, ok := x.Call.Value.(*ssa.Builtin); ok && b.Name() == "copy" && len(x.Call.Args) == 2 && elemIface(x.Call.Args[0].Type()) {
						d.copies[fn] = append(d.copies[fn], x)
					}
				case *ssa.MakeClosure:
					if f, ok := x.Fn.(*ssa.Function); ok {
						d.closureOf[f] = append(d.closureOf[f], x)
					}
				}
			}
		}
	}
	if d.parseFn == nil {
		return nil, errNoParse
	}
	// which productions assign their left side
	for _, b := range d.parseFn.Blocks {
		for _, in := range b.Instrs {
			st, ok := in.(*ssa.Store)
			if !ok {
				continue
			}
			if prod, slot := d.yyValStore(st); prod != nil && slot == g.Slot[prod.LHS] {
				d.assigned[prod] = true
			}
		}
	}
	for d.Rounds = 1; d.Rounds <= 60; d.Rounds++ {
		d.changed = false
		d.round(fns)
		if !d.changed {
			break
		}
	}
	if d.changed {
		d.Notes = append(d.Notes, "no fixpoint after 60 rounds")
		return nil, errNoFixpoint
	}
	return d, nil
}

type dynErr string

func (e dynErr) Error() string { return string(e) }

const (
	errNoParse    = dynErr("the generated parser function (*yyParserImpl).Parse was not found")
	errNoFixpoint = dynErr("the dynamic-type system did not reach a fixpoint")
)

// actionLine: the line of pos when it lies in the grammar file.
func (d *DynFlow) actionLine(pos token.Pos) int {
	if !pos.IsValid() {
		return 0
	}
	pp := d.p.Fset.Position(pos)
	if !strings.HasSuffix(pp.Filename, ".y") {
		return 0
	}
	return pp.Line
}

// yyValStore: st stores to yyVAL.<slot> inside an action → (production, slot).
func (d *DynFlow) yyValStore(st *ssa.Store) (*YaccProd, string) {
	fa, ok := st.Addr.(*ssa.FieldAddr)
	if !ok {
		return nil, ""
	}
	al, ok := fa.X.(*ssa.Alloc)
	if !ok || al.Comment != "yyVAL" {
		return nil, ""
	}
	line := d.actionLine(st.Pos())
	if line == 0 {
		line = d.actionLine(fa.Pos())
	}
	prod := d.G.ProdAtLine(line)
	if prod == nil {
		return nil, ""
	}
	return prod, FieldName(fa)
}

// yyRead: addr is &yyDollar[k].slot or &yyVAL.slot inside an action → the symbol it denotes.
func (d *DynFlow) yyRead(addr ssa.Value, at token.Pos) (sym string, ok bool) {
	fa, isFA := addr.(*ssa.FieldAddr)
	if !isFA || fa.Parent() != d.parseFn {
		return "", false
	}
	slot := FieldName(fa)
	switch x := fa.X.(type) {
	case *ssa.Alloc:
		if x.Comment != "yyVAL" {
			return "", false
		}
		line := d.actionLine(at)
		if line == 0 {
			line = d.actionLine(fa.Pos())
		}
		prod := d.G.ProdAtLine(line)
		if prod == nil || d.G.Slot[prod.LHS] != slot {
			return "?", true
		}
		return prod.LHS, true
	case *ssa.IndexAddr:
		if !strings.HasSuffix(TypeName(x.X.Type()), "[]lib/parser.yySymType") {
			return "", false
		}
		line := d.actionLine(x.Pos())
		if line == 0 {
			line = d.actionLine(fa.Pos())
		}
		if line == 0 {
			line = d.actionLine(at)
		}
		prod := d.G.ProdAtLine(line)
		k, isK := ConstInt(x.Index)
		if prod == nil || !isK || k < 1 || int(k) > len(prod.RHS) {
			return "?", true
		}
		s := prod.RHS[k-1]
		if d.G.Slot[s] != slot {
			return "?", true
		}
		return s, true
	}
	return "", false
}

func (d *DynFlow) round(fns []*ssa.Function) {
	g := d.G
	// grammar: default action `$$ = $1`
	for _, prod := range g.Prods {
		if d.assigned[prod] {
			continue
		}
		slot := g.Slot[prod.LHS]
		if slot == "" {
			continue
		}
		if len(prod.RHS) == 0 || g.Slot[prod.RHS[0]] != slot {
			if t := g.SlotType[slot]; strings.Contains(t, "Expression") || strings.Contains(t, "Statement") {
				// the value of an unassigned left side is whatever lies on the stack
				d.add(getSet(d.symD, prod.LHS), unknownSet)
				d.add(getSet(d.symE, prod.LHS), unknownSet)
			}
			continue
		}
		d.add(getSet(d.symD, prod.LHS), getSet(d.symD, prod.RHS[0]))
		d.add(getSet(d.symE, prod.LHS), getSet(d.symE, prod.RHS[0]))
	}
	for _, fn := range fns {
		if fn.Blocks == nil || d.p.IsControl(fn) {
			continue // what a control stores says nothing about the repository
		}
		for _, b := range fn.Blocks {
			for _, in := range b.Instrs {
				st, ok := in.(*ssa.Store)
				if !ok {
					continue
				}
				fa, ok := st.Addr.(*ssa.FieldAddr)
				if !ok {
					continue
				}
				vt := st.Val.Type()
				ifc, elm := isIface(vt), elemIface(vt)
				if !ifc && !elm {
					continue
				}
				if fn == d.parseFn {
					if prod, slot := d.yyValStore(st); prod != nil {
						if slot == g.Slot[prod.LHS] {
							if ifc {
								d.add(getSet(d.symD, prod.LHS), NarrowByTypeTests(d.D(st.Val, nil), st, st.Val))
							} else {
								d.add(getSet(d.symE, prod.LHS), d.E(st.Val, nil))
							}
						}
						continue
					}
				}
				fv := dynFieldVar(fa)
				if fv == nil {
					continue
				}
				if ifc {
					d.add(getSet(d.fldD, fv), NarrowByTypeTests(d.D(st.Val, nil), st, st.Val))
				} else {
					d.add(getSet(d.fldE, fv), d.E(st.Val, nil))
				}
			}
		}
		// element stores whose base is not a local object
		for _, st := range d.elemStores[fn] {
			ia := st.Addr.(*ssa.IndexAddr)
			roots, local := d.roots(ia.X, nil)
			if local {
				continue
			}
			val := NarrowByTypeTests(d.D(st.Val, nil), st, st.Val)
			attributed := true
			for _, r := range roots {
				if fv, ok := r.(*types.Var); ok {
					d.add(getSet(d.fldE, fv), val)
				} else {
					attributed = false
				}
			}
			if !attributed || len(roots) == 0 {
				et := TypeName(st.Val.Type())
				d.add(getSet(d.wildE, et), val)
				site := d.p.InstrPos(st) + " (" + et + ")"
				found := false
				for _, w := range d.WildSites {
					if w == site {
						found = true
					}
				}
				if !found {
					d.WildSites = append(d.WildSites, site)
				}
			}
		}
	}
}

// roots resolves a slice / array-pointer value to the objects whose elements it addresses: local
// allocations (Alloc of an array, MakeSlice, append results are followed to their operands) — local=true
// when all roots are local — or field objects (*types.Var) / the string "wild".
func (d *DynFlow) roots(v ssa.Value, seen map[ssa.Value]bool) (out []any, local bool) {
	if seen == nil {
		seen = map[ssa.Value]bool{}
	}
	local = true
	var walk func(v ssa.Value)
	walk = func(v ssa.Value) {
		if seen[v] {
			return
		}
		seen[v] = true
		switch x := v.(type) {
		case *ssa.Alloc:
			if _, isArr := x.Type().Underlying().(*types.Pointer).Elem().Underlying().(*types.Array); isArr {
				out = append(out, x)
				return
			}
			// a local slice variable: what was stored into it
			vals, complete := StoresTo(x)
			if !complete {
				local = false
				out = append(out, "wild")
			}
			for _, s := range vals {
				walk(s)
			}
		case *ssa.MakeSlice:
			out = append(out, x)
		case *ssa.Slice:
			walk(x.X)
		case *ssa.Phi:
			for _, e := range x.Edges {
				walk(e)
			}
		case *ssa.ChangeType:
			walk(x.X)
		case *ssa.Convert:
			walk(x.X)
		case *ssa.Const:
		case *ssa.Call:
			if b, ok := x.Call.Value.(*ssa.Builtin); ok && b.Name() == "append" {
				// the result may share the first operand's array or be a fresh one: a fresh one is x itself
				out = append(out, x)
				walk(x.Call.Args[0])
				return
			}
			local = false
			out = append(out, "wild")
		case *ssa.UnOp:
			if x.Op == token.MUL {
				if fv := dynFieldVar(x.X); fv != nil {
					local = false
					out = append(out, fv)
					return
				}
				if al, ok := x.X.(*ssa.Alloc); ok {
					walk(al)
					return
				}
				if fv, ok := x.X.(*ssa.FreeVar); ok {
					vals, complete := StoresTo(fv)
					if !complete {
						local = false
						out = append(out, "wild")
					}
					for _, s := range vals {
						walk(s)
					}
					return
				}
			}
			local = false
			out = append(out, "wild")
		case *ssa.Field:
			if fv := dynFieldVar(x); fv != nil {
				local = false
				out = append(out, fv)
				return
			}
			local = false
			out = append(out, "wild")
		default:
			local = false
			out = append(out, "wild")
		}
	}
	walk(v)
	return
}

type dynStack map[ssa.Value]bool

// DynDebug: substring of a function name whose unknown parameter sources are printed (debugging aid).
var DynDebug = os.Getenv("DYN_DEBUG")

// D: dynamic types of an interface-typed value.
func (d *DynFlow) D(v ssa.Value, stack dynStack) DynSet {
	if !isIface(v.Type()) {
		return DynSet{TypeName(v.Type()): true}
	}
	key := dynKey{v, false}
	acc := getSet(d.val, key)
	if d.seenRound[key] == d.Rounds {
		return acc
	}
	d.seenRound[key] = d.Rounds
	out := DynSet{}
	join := func(s DynSet) {
		for k := range s {
			out[k] = true
		}
	}
	switch x := v.(type) {
	case *ssa.MakeInterface:
		out[TypeName(x.X.Type())] = true
	case *ssa.Const:
		// nil: not tracked
	case *ssa.ChangeInterface:
		join(d.D(x.X, stack))
	case *ssa.Phi:
		for _, e := range x.Edges {
			join(d.D(e, stack))
		}
	case *ssa.TypeAssert:
		if !x.CommaOk {
			join(d.D(x.X, stack))
		} else {
			join(unknownSet)
		}
	case *ssa.Extract:
		switch t := x.Tuple.(type) {
		case *ssa.TypeAssert:
			if x.Index == 0 {
				join(d.D(t.X, stack))
			}
		case *ssa.Call:
			join(d.callResult(t, x.Index, false, stack))
		default:
			join(unknownSet)
		}
	case *ssa.Call:
		join(d.callResult(x, 0, false, stack))
	case *ssa.UnOp:
		if x.Op != token.MUL {
			join(unknownSet)
			break
		}
		join(d.load(x.X, x.Pos(), false, stack))
	case *ssa.Field:
		if fv := dynFieldVar(x); fv != nil {
			join(getSet(d.fldD, fv))
		} else {
			join(unknownSet)
		}
	case *ssa.Index:
		join(d.E(x.X, stack))
	case *ssa.Parameter:
		join(d.param(x, false, stack))
	case *ssa.FreeVar:
		join(d.freeVar(x, false, stack))
	default:
		join(unknownSet)
	}
	d.add(acc, out)
	return acc
}

// load: what *addr can hold (elem=false: an interface; elem=true: elements of a slice).
func (d *DynFlow) load(addr ssa.Value, at token.Pos, elem bool, stack dynStack) DynSet {
	out := DynSet{}
	join := func(s DynSet) {
		for k := range s {
			out[k] = true
		}
	}
	switch a := addr.(type) {
	case *ssa.FieldAddr:
		if sym, ok := d.yyRead(a, at); ok {
			if sym == "?" {
				return unknownSet
			}
			if elem {
				return getSet(d.symE, sym)
			}
			return getSet(d.symD, sym)
		}
		fv := dynFieldVar(a)
		if fv == nil {
			return unknownSet
		}
		if elem {
			join(getSet(d.fldE, fv))
			join(getSet(d.wildE, elemTypeName(fv.Type())))
			return out
		}
		return getSet(d.fldD, fv)
	case *ssa.IndexAddr:
		if elem {
			return unknownSet // slice of slices
		}
		return d.E(a.X, stack)
	case *ssa.Alloc:
		vals, complete := StoresTo(a)
		if !complete {
			return unknownSet
		}
		for _, s := range vals {
			if elem {
				join(d.E(s, stack))
			} else {
				join(d.D(s, stack))
			}
		}
		return out
	case *ssa.FreeVar:
		vals, complete := StoresTo(a)
		if !complete {
			return unknownSet
		}
		for _, s := range vals {
			if elem {
				join(d.E(s, stack))
			} else {
				join(d.D(s, stack))
			}
		}
		return out
	}
	return unknownSet
}

// E: dynamic types of the elements of a slice / array of interfaces.
func (d *DynFlow) E(v ssa.Value, stack dynStack) DynSet {
	key := dynKey{v, true}
	acc := getSet(d.val, key)
	if d.seenRound[key] == d.Rounds {
		return acc
	}
	d.seenRound[key] = d.Rounds
	out := DynSet{}
	join := func(s DynSet) {
		for k := range s {
			out[k] = true
		}
	}
	// local objects: the element stores of the function whose base reaches them
	localStores := func(obj ssa.Value) {
		fn := obj.(ssa.Instruction).Parent()
		for _, st := range d.elemStores[fn] {
			ia := st.Addr.(*ssa.IndexAddr)
			rs, _ := d.roots(ia.X, nil)
			for _, r := range rs {
				if r == any(obj) {
					join(NarrowByTypeTests(d.D(st.Val, stack), st, st.Val))
				}
			}
		}
		for _, cp := range d.copies[fn] {
			rs, _ := d.roots(cp.Call.Args[0], nil)
			for _, r := range rs {
				if r == any(obj) {
					join(d.E(cp.Call.Args[1], stack))
				}
			}
		}
	}
	switch x := v.(type) {
	case *ssa.Const:
	case *ssa.Alloc:
		if _, isArr := x.Type().Underlying().(*types.Pointer).Elem().Underlying().(*types.Array); isArr {
			localStores(x)
		} else {
			join(d.load(x, x.Pos(), true, stack))
		}
	case *ssa.MakeSlice:
		localStores(x)
	case *ssa.Slice:
		join(d.E(x.X, stack))
	case *ssa.Phi:
		for _, e := range x.Edges {
			join(d.E(e, stack))
		}
	case *ssa.ChangeType:
		join(d.E(x.X, stack))
	case *ssa.Convert:
		join(d.E(x.X, stack))
	case *ssa.Call:
		if b, ok := x.Call.Value.(*ssa.Builtin); ok {
			if b.Name() == "append" {
				join(d.E(x.Call.Args[0], stack))
				if len(x.Call.Args) > 1 {
					join(d.E(x.Call.Args[1], stack))
				}
				localStores(x)
				break
			}
			join(unknownSet)
			break
		}
		join(d.callResult(x, 0, true, stack))
	case *ssa.Extract:
		if c, ok := x.Tuple.(*ssa.Call); ok {
			join(d.callResult(c, x.Index, true, stack))
		} else {
			join(unknownSet)
		}
	case *ssa.UnOp:
		if x.Op == token.MUL {
			join(d.load(x.X, x.Pos(), true, stack))
		} else {
			join(unknownSet)
		}
	case *ssa.Field:
		if fv := dynFieldVar(x); fv != nil {
			join(getSet(d.fldE, fv))
			join(getSet(d.wildE, elemTypeName(fv.Type())))
		} else {
			join(unknownSet)
		}
	case *ssa.Parameter:
		join(d.param(x, true, stack))
	case *ssa.FreeVar:
		join(d.freeVar(x, true, stack))
	default:
		join(unknownSet)
	}
	d.add(acc, out)
	return acc
}

func (d *DynFlow) eval(v ssa.Value, elem bool, stack dynStack) DynSet {
	if elem {
		return d.E(v, stack)
	}
	return d.D(v, stack)
}

// callResult: result idx of a call.
func (d *DynFlow) callResult(c *ssa.Call, idx int, elem bool, stack dynStack) DynSet {
	g := c.Call.StaticCallee()
	if g == nil || g.Blocks == nil || !d.csvqFn[g] {
		return unknownSet
	}
	out := DynSet{}
	for _, r := range Returns(g) {
		if idx >= len(r.Results) {
			return unknownSet
		}
		for k := range d.eval(r.Results[idx], elem, stack) {
			out[k] = true
		}
	}
	return out
}

// param: union over the call sites of the call graph (static calls, and calls of a closure value that the
// VTA graph resolves); an interface-method call, a caller outside csvq, or no caller at all makes it unknown.
// Each argument is narrowed by the type tests that dominate its call site.
func (d *DynFlow) param(x *ssa.Parameter, elem bool, stack dynStack) DynSet {
	fn := x.Parent()
	idx := -1
	for i, q := range fn.Params {
		if q == x {
			idx = i
		}
	}
	if idx < 0 {
		return unknownSet
	}
	edges := d.p.RealCallers(fn)
	dbg := func(why string, e *callgraph.Edge) {
		if DynDebug != "" && strings.Contains(d.p.Name(fn), DynDebug) {
			at := ""
			if e != nil && e.Site != nil {
				at = d.p.InstrPos(e.Site)
			}
			println("DYN param", d.p.Name(fn), x.Name(), "unknown:", why, at)
		}
	}
	if len(edges) == 0 {
		if fn.Synthetic != "" {
			return DynSet{} // a wrapper nobody calls
		}
		dbg("no callers", nil)
		return unknownSet
	}
	out := DynSet{}
	for _, e := range edges {
		if e.Site != nil && e.Caller.Func.Synthetic != "" && e.Caller.Func.Pkg == nil && len(e.Caller.Func.Params) == len(fn.Params) {
			// a pointer-receiver / bound-method wrapper: its own callers decide
			if idx == 0 {
				return unknownSet // the receiver is converted
			}
			for k := range d.eval(e.Caller.Func.Params[idx], elem, stack) {
				out[k] = true
			}
			continue
		}
		if e.Site == nil || !d.csvqFn[e.Caller.Func] {
			dbg("caller outside csvq: "+e.Caller.Func.String(), e)
			return unknownSet
		}
		cc := e.Site.Common()
		if cc.IsInvoke() {
			dbg("invoke", e)
			return unknownSet
		}
		if g := cc.StaticCallee(); g != nil && g != fn {
			dbg("static callee differs: "+g.String(), e)
			return unknownSet
		}
		if len(cc.Args) != len(fn.Params) {
			dbg("arity", e)
			return unknownSet
		}
		set := d.eval(cc.Args[idx], elem, stack)
		if !elem {
			set = NarrowByTypeTests(set, e.Site, cc.Args[idx])
		}
		if DynDebug != "" && strings.Contains(d.p.Name(fn), DynDebug) {
			println("DYN param", d.p.Name(fn), x.Name(), "from", d.p.InstrPos(e.Site), len(set), strings.Join(set.List(), ","))
		}
		if DynDebug != "" && set.Unknown() && strings.Contains(d.p.Name(fn), DynDebug) {
			println("DYN param", d.p.Name(fn), x.Name(), "unknown from", d.p.InstrPos(e.Site), cc.Args[idx].String())
		}
		for k := range set {
			out[k] = true
		}
	}
	return out
}

// DynSameOperand: a and b denote the same interface value (the same SSA value, the same field chain of the same
// base value, or loads of the same address).
func DynSameOperand(a, b ssa.Value, depth int) bool {
	if a == b {
		return true
	}
	if depth > 6 {
		return false
	}
	switch x := a.(type) {
	case *ssa.Field:
		y, ok := b.(*ssa.Field)
		return ok && x.Field == y.Field && types.Identical(x.X.Type(), y.X.Type()) && DynSameOperand(x.X, y.X, depth+1)
	case *ssa.UnOp:
		y, ok := b.(*ssa.UnOp)
		if !ok || x.Op != token.MUL || y.Op != token.MUL {
			return false
		}
		return SameAddrDeep(x.X, y.X)
	case *ssa.ChangeInterface:
		if y, ok := b.(*ssa.ChangeInterface); ok {
			return DynSameOperand(x.X, y.X, depth+1)
		}
	case *ssa.Index:
		y, ok := b.(*ssa.Index)
		return ok && x.Index == y.Index && DynSameOperand(x.X, y.X, depth+1)
	}
	return false
}

// typeTestOf: cond is the ok result of a comma-ok test `x.(T)` (T concrete) of the operand, with no store to the
// operand's cell between the test and `at`.
func typeTestOf(cond ssa.Value, operand ssa.Value, at ssa.Instruction) *ssa.TypeAssert {
	ex, ok := cond.(*ssa.Extract)
	if !ok || ex.Index != 1 {
		return nil
	}
	t, ok := ex.Tuple.(*ssa.TypeAssert)
	if !ok || !t.CommaOk || isIface(t.AssertedType) {
		return nil
	}
	if !DynSameOperand(t.X, operand, 0) {
		return nil
	}
	if t.X != operand {
		if u, isLoad := t.X.(*ssa.UnOp); isLoad && u.Op == token.MUL && storeBetween(u.X, t, at) {
			return nil
		}
	}
	return t
}

// TypeTestFacts: what the type tests that dominate `at` say about the operand — pos: it is one of these types
// (nil when no positive fact), neg: it is none of these. Positive facts come from the successful edge of a
// comma-ok test / single-type arm of a type switch, and from an arm that lists several types (a block all of whose
// predecessors are successful edges of tests of the same operand).
func TypeTestFacts(at ssa.Instruction, operand ssa.Value) (pos, neg DynSet) {
	neg = DynSet{}
	for _, f := range FactsAt(at.Block()) {
		t := typeTestOf(f.Cond, operand, at)
		if t == nil {
			// a predicate helper: `if isX(operand)` where isX answers true only after its own successful type test
			if !f.Neg {
				if set := predicateImplies(f.Cond, operand, at); set != nil && pos == nil {
					pos = set
				}
			}
			continue
		}
		if f.Neg {
			neg[TypeName(t.AssertedType)] = true
		} else {
			pos = DynSet{TypeName(t.AssertedType): true}
		}
	}
	for cur := at.Block(); cur != nil; cur = cur.Idom() {
		if len(cur.Preds) < 2 {
			continue
		}
		set := DynSet{}
		all := true
		for _, pr := range cur.Preds {
			if len(pr.Instrs) == 0 || len(pr.Succs) != 2 || pr.Succs[0] != cur || pr.Succs[1] == cur {
				all = false
				break
			}
			iff, ok := pr.Instrs[len(pr.Instrs)-1].(*ssa.If)
			if !ok {
				all = false
				break
			}
			t := typeTestOf(iff.Cond, operand, at)
			if t == nil {
				all = false
				break
			}
			set[TypeName(t.AssertedType)] = true
		}
		if all && pos == nil {
			pos = set
		}
	}
	return pos, neg
}

// NarrowByTypeTests applies TypeTestFacts to a set.
func NarrowByTypeTests(set DynSet, at ssa.Instruction, operand ssa.Value) DynSet {
	if NilAt(operand, at) || dynNilAt(operand, at) {
		return DynSet{} // known to be nil here: no dynamic type at all
	}
	pos, neg := TypeTestFacts(at, operand)
	if pos == nil && len(neg) == 0 {
		return set
	}
	out := DynSet{}
	if pos != nil {
		for k := range pos {
			if (set.Unknown() || set[k]) && !neg[k] {
				out[k] = true
			}
		}
		return out
	}
	for k := range set {
		if !neg[k] {
			out[k] = true
		}
	}
	return out
}

// freeVar: a captured value (not a cell): what the closure was built with.
func (d *DynFlow) freeVar(x *ssa.FreeVar, elem bool, stack dynStack) DynSet {
	fn := x.Parent()
	idx := -1
	for i, q := range fn.FreeVars {
		if q == x {
			idx = i
		}
	}
	mcs := d.closureOf[fn]
	if idx < 0 || len(mcs) == 0 {
		return unknownSet
	}
	out := DynSet{}
	for _, mc := range mcs {
		for k := range d.eval(mc.Bindings[idx], elem, stack) {
			out[k] = true
		}
	}
	return out
}

// Sym returns the solved set of a grammar symbol (element set when elem).
func (d *DynFlow) Sym(name string, elem bool) DynSet {
	if elem {
		return d.symE[name]
	}
	return d.symD[name]
}

// Stats for the evidence.
func (d *DynFlow) Stats() (prods, syms, fields int) {
	return len(d.G.Prods), len(d.symD) + len(d.symE), len(d.fldD) + len(d.fldE)
}

// Coverage: productions read from the grammar, and those whose action assigns the left side.
func (d *DynFlow) Coverage() (prods, assigned int) {
	return len(d.G.Prods), len(d.assigned)
}

// elemTypeName: the name of the element type of a slice / array (pointer) type.
func elemTypeName(t types.Type) string {
	switch u := t.Underlying().(type) {
	case *types.Slice:
		return TypeName(u.Elem())
	case *types.Array:
		return TypeName(u.Elem())
	case *types.Pointer:
		if a, ok := u.Elem().Underlying().(*types.Array); ok {
			return TypeName(a.Elem())
		}
	}
	return "?"
}

// dynNilAt: a dominating `x == nil` (true edge) / `x != nil` (false edge) where x is the same operand read again
// (the same field chain / element of the same base value) with no store in between.
func dynNilAt(operand ssa.Value, at ssa.Instruction) bool {
	for _, f := range FactsAt(at.Block()) {
		x, neq, ok := NilCmp(f.Cond)
		if !ok || neq != f.Neg {
			continue // the fact says non-nil
		}
		if !DynSameOperand(x, operand, 0) {
			continue
		}
		if x != operand {
			if u, isLoad := x.(*ssa.UnOp); isLoad && u.Op == token.MUL {
				if xi, isInstr := x.(ssa.Instruction); isInstr && storeBetween(u.X, xi, at) {
					continue
				}
			}
		}
		return true
	}
	return false
}

// predicateImplies: cond is a call `g(…operand…)` of a csvq function with a single bool result; when every return of
// g that can yield true is dominated by a successful type test of the parameter the operand is passed for, the
// true edge of the call implies that the operand has one of those types. nil = no implication.
func predicateImplies(cond ssa.Value, operand ssa.Value, at ssa.Instruction) DynSet {
	call, ok := cond.(*ssa.Call)
	if !ok {
		return nil
	}
	g := call.Call.StaticCallee()
	if g == nil || g.Blocks == nil || g.Signature.Results().Len() != 1 {
		return nil
	}
	if b, isB := g.Signature.Results().At(0).Type().Underlying().(*types.Basic); !isB || b.Kind() != types.Bool {
		return nil
	}
	idx := -1
	for i, a := range call.Call.Args {
		if DynSameOperand(a, operand, 0) {
			if a != operand {
				if u, isLoad := a.(*ssa.UnOp); isLoad && u.Op == token.MUL && storeBetween(u.X, call, at) {
					continue
				}
			}
			idx = i
		}
	}
	if idx < 0 || idx >= len(g.Params) {
		return nil
	}
	prm := g.Params[idx]
	out := DynSet{}
	for _, r := range Returns(g) {
		if len(r.Results) != 1 {
			return nil
		}
		if c, isC := r.Results[0].(*ssa.Const); isC {
			if bv, okb := ConstBool(c); okb && !bv {
				continue // return false: says nothing
			}
		}
		p, _ := typeFactsNoPredicates(r, prm)
		if p == nil {
			return nil
		}
		for k := range p {
			out[k] = true
		}
	}
	if len(out) == 0 {
		return nil
	}
	return out
}

// typeFactsNoPredicates: the positive facts of direct type tests only (no recursion into predicate helpers).
func typeFactsNoPredicates(at ssa.Instruction, operand ssa.Value) (pos, neg DynSet) {
	neg = DynSet{}
	for _, f := range FactsAt(at.Block()) {
		t := typeTestOf(f.Cond, operand, at)
		if t == nil {
			continue
		}
		if f.Neg {
			neg[TypeName(t.AssertedType)] = true
		} else {
			pos = DynSet{TypeName(t.AssertedType): true}
		}
	}
	return pos, neg
}
