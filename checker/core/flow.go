package core

import (
	"sort"
	"go/constant"
	"go/token"
	"go/types"
	"strings"

	"golang.org/x/tools/go/callgraph"
	"golang.org/x/tools/go/ssa"
)

// ---------------------------------------------------------------------------
// Calls

// CalleeName returns a stable name for the static callee of a call:
// csvq functions by their short name, foreign ones as "pkgpath.Name" or
// "(pkgpath.T).Method" / "(*pkgpath.T).Method"; interface invocations as
// "invoke:(iface).Method"; builtins as "builtin:name". Empty when dynamic.
func (p *Prog) CalleeName(c ssa.CallInstruction) string {
	com := c.Common()
	if com.IsInvoke() {
		return "invoke:" + types.TypeString(com.Value.Type(), nil) + "." + com.Method.Name()
	}
	switch v := com.Value.(type) {
	case *ssa.Builtin:
		return "builtin:" + v.Name()
	case *ssa.Function:
		return p.FnRef(v)
	case *ssa.MakeClosure:
		if f, ok := v.Fn.(*ssa.Function); ok {
			return p.FnRef(f)
		}
	}
	return ""
}

// FnRef names any function (csvq short name or full foreign name).
func (p *Prog) FnRef(f *ssa.Function) string {
	if n, ok := p.funcNames[f]; ok {
		return n
	}
	if o := f.Origin(); o != nil && o != f {
		return p.FnRef(o)
	}
	return f.String()
}

// StaticCallee returns the statically known callee (function or closure).
func StaticCallee(c ssa.CallInstruction) *ssa.Function {
	return c.Common().StaticCallee()
}

// Callees returns every function the call may invoke: the static callee or the
// VTA call-graph targets of the site.
func (p *Prog) Callees(c ssa.CallInstruction) []*ssa.Function {
	if f := StaticCallee(c); f != nil {
		return []*ssa.Function{f}
	}
	if _, ok := c.Common().Value.(*ssa.Builtin); ok {
		return nil
	}
	n := p.CG().Nodes[c.Parent()]
	if n == nil {
		return nil
	}
	var out []*ssa.Function
	for _, e := range n.Out {
		if e.Site == c {
			out = append(out, e.Callee.Func)
		}
	}
	return out
}

// Calls enumerates the call instructions (call, go, defer) of fn.
func Calls(fn *ssa.Function) []ssa.CallInstruction {
	var out []ssa.CallInstruction
	for _, b := range fn.Blocks {
		for _, in := range b.Instrs {
			if c, ok := in.(ssa.CallInstruction); ok {
				out = append(out, c)
			}
		}
	}
	return out
}

// ReachSet computes the functions transitively callable from fn (incl. fn) in
// the VTA graph. Closures created in a function are treated as callable from it
// (a MakeClosure whose result is passed on is usually invoked by a callee).
func (p *Prog) ReachSet(fn *ssa.Function) map[*ssa.Function]bool {
	if m, ok := p.reachMemo[fn]; ok {
		return m
	}
	cg := p.CG()
	seen := map[*ssa.Function]bool{}
	var stack []*ssa.Function
	push := func(f *ssa.Function) {
		if f != nil && !seen[f] {
			seen[f] = true
			stack = append(stack, f)
		}
	}
	push(fn)
	for len(stack) > 0 {
		f := stack[len(stack)-1]
		stack = stack[:len(stack)-1]
		if n := cg.Nodes[f]; n != nil {
			for _, e := range n.Out {
				push(e.Callee.Func)
			}
		}
		for _, af := range f.AnonFuncs {
			push(af)
		}
	}
	p.reachMemo[fn] = seen
	return seen
}

// FnReaches reports whether fn can (transitively) call any function for which
// pred holds. fn itself is tested too.
func (p *Prog) FnReaches(fn *ssa.Function, pred func(*ssa.Function) bool) bool {
	for f := range p.ReachSet(fn) {
		if pred(f) {
			return true
		}
	}
	return false
}

// CallReaches reports whether the call site may (transitively) invoke a
// function satisfying pred.
func (p *Prog) CallReaches(c ssa.CallInstruction, pred func(*ssa.Function) bool) bool {
	for _, f := range p.Callees(c) {
		if p.FnReaches(f, pred) {
			return true
		}
	}
	// closures passed as arguments are assumed to be invoked by the callee
	for _, a := range c.Common().Args {
		if mc, ok := a.(*ssa.MakeClosure); ok {
			if f, ok := mc.Fn.(*ssa.Function); ok && p.FnReaches(f, pred) {
				return true
			}
		}
	}
	return false
}

// Callers lists the call-graph edges into fn in a fixed order (caller name, then call-site position — the call
// graph keeps its edge lists in map order, and a verdict must not depend on it).
func (p *Prog) Callers(fn *ssa.Function) []*callgraph.Edge {
	n := p.CG().Nodes[fn]
	if n == nil {
		return nil
	}
	out := make([]*callgraph.Edge, 0, len(n.In))
	for _, e := range n.In {
		if e.Caller == nil || e.Caller.Func == nil {
			continue
		}
		out = append(out, e)
	}
	key := func(e *callgraph.Edge) string {
		s := p.Name(e.Caller.Func)
		if e.Site != nil {
			s += "@" + p.Pos(e.Site.Pos())
		}
		return s
	}
	sort.SliceStable(out, func(i, j int) bool { return key(out[i]) < key(out[j]) })
	return out
}

// RealCallers is Callers without the callers that live in the control overlay, unless fn is a control itself:
// a function of the analysed repository is never judged ("every caller does …") by what a control does with it.
func (p *Prog) RealCallers(fn *ssa.Function) []*callgraph.Edge {
	all := p.Callers(fn)
	if p.IsControl(fn) {
		return all
	}
	out := all[:0:0]
	for _, e := range all {
		if !p.IsControl(e.Caller.Func) {
			out = append(out, e)
		}
	}
	return out
}

// NameIs builds a predicate matching functions by FnRef name.
func (p *Prog) NameIs(names ...string) func(*ssa.Function) bool {
	set := map[string]bool{}
	for _, n := range names {
		set[n] = true
	}
	return func(f *ssa.Function) bool { return set[p.FnRef(f)] }
}

// ---------------------------------------------------------------------------
// CFG reachability at instruction granularity

// InstrIndex returns the index of in within its block.
func InstrIndex(in ssa.Instruction) int {
	for i, x := range in.Block().Instrs {
		if x == in {
			return i
		}
	}
	return -1
}

// Reachable reports whether control can flow from just after `from` to `to`
// without passing through an instruction for which stop returns true (stop may
// be nil). from and to must belong to the same function.
func Reachable(from, to ssa.Instruction, stop func(ssa.Instruction) bool) bool {
	found := false
	WalkFrom(from, func(in ssa.Instruction) bool {
		if in == to {
			found = true
			return false
		}
		if stop != nil && stop(in) {
			return false
		}
		return true
	})
	return found
}

// WalkFrom visits every instruction reachable after `from` (exclusive), in CFG
// order; visit returns false to stop exploring past that instruction (the path
// is cut there). Each instruction is visited at most once.
func WalkFrom(from ssa.Instruction, visit func(ssa.Instruction) bool) {
	b := from.Block()
	idx := InstrIndex(from)
	seenBlock := map[*ssa.BasicBlock]bool{}
	var walkBlock func(b *ssa.BasicBlock, start int)
	walkBlock = func(b *ssa.BasicBlock, start int) {
		for i := start; i < len(b.Instrs); i++ {
			if !visit(b.Instrs[i]) {
				return
			}
		}
		for _, s := range b.Succs {
			if !seenBlock[s] {
				seenBlock[s] = true
				walkBlock(s, 0)
			}
		}
	}
	walkBlock(b, idx+1)
}

// WalkFromEntry visits every instruction reachable from the function entry.
func WalkFromEntry(fn *ssa.Function, visit func(ssa.Instruction) bool) {
	if len(fn.Blocks) == 0 {
		return
	}
	seenBlock := map[*ssa.BasicBlock]bool{fn.Blocks[0]: true}
	var walkBlock func(b *ssa.BasicBlock)
	walkBlock = func(b *ssa.BasicBlock) {
		for _, in := range b.Instrs {
			if !visit(in) {
				return
			}
		}
		for _, s := range b.Succs {
			if !seenBlock[s] {
				seenBlock[s] = true
				walkBlock(s)
			}
		}
	}
	walkBlock(fn.Blocks[0])
}

// Dominates reports whether instruction a dominates instruction b (a executes
// on every path from the entry to b).
func Dominates(a, b ssa.Instruction) bool {
	if a.Block() == b.Block() {
		return InstrIndex(a) < InstrIndex(b)
	}
	return a.Block().Dominates(b.Block())
}

// Exits returns the Return and Panic instructions of fn.
func Exits(fn *ssa.Function) []ssa.Instruction {
	var out []ssa.Instruction
	for _, b := range fn.Blocks {
		if len(b.Instrs) == 0 {
			continue
		}
		switch t := b.Instrs[len(b.Instrs)-1].(type) {
		case *ssa.Return, *ssa.Panic:
			out = append(out, t)
		}
	}
	return out
}

// Returns returns the Return instructions of fn.
func Returns(fn *ssa.Function) []*ssa.Return {
	var out []*ssa.Return
	for _, b := range fn.Blocks {
		if len(b.Instrs) == 0 || b == fn.Recover {
			// fn.Recover is the synthetic block that runs after a recovered
			// panic; it returns whatever the result cells hold
			continue
		}
		if r, ok := b.Instrs[len(b.Instrs)-1].(*ssa.Return); ok {
			out = append(out, r)
		}
	}
	return out
}

// ---------------------------------------------------------------------------
// Branch facts (DESIGN Appendix B.1)

// Fact is a condition known to hold (Neg=false) or not to hold (Neg=true).
type Fact struct {
	Cond ssa.Value
	Neg  bool
	If   *ssa.If
}

// FactsAt returns the branch conditions that hold on entry of block b: for each
// dominating If whose true (false) successor dominates b and has that If block
// as its only predecessor.
func FactsAt(b *ssa.BasicBlock) []Fact {
	var out []Fact
	for cur := b; cur != nil; {
		d := cur.Idom()
		if d == nil {
			break
		}
		if len(d.Instrs) > 0 {
			if iff, ok := d.Instrs[len(d.Instrs)-1].(*ssa.If); ok && len(d.Succs) == 2 {
				t, f := d.Succs[0], d.Succs[1]
				if t != f {
					if len(t.Preds) == 1 && (t == b || t.Dominates(b)) {
						out = append(out, Fact{iff.Cond, false, iff})
					} else if len(f.Preds) == 1 && (f == b || f.Dominates(b)) {
						out = append(out, Fact{iff.Cond, true, iff})
					}
				}
			}
		}
		cur = d
	}
	return out
}

// EdgeFacts returns FactsAt(from) plus the fact established by the edge
// from→to when from ends in an If.
func EdgeFacts(from, to *ssa.BasicBlock) []Fact {
	out := FactsAt(from)
	if len(from.Instrs) > 0 {
		if iff, ok := from.Instrs[len(from.Instrs)-1].(*ssa.If); ok && len(from.Succs) == 2 && from.Succs[0] != from.Succs[1] {
			if from.Succs[0] == to {
				out = append(out, Fact{iff.Cond, false, iff})
			} else if from.Succs[1] == to {
				out = append(out, Fact{iff.Cond, true, iff})
			}
		}
	}
	return out
}

// IsNilConst reports whether v is the nil constant.
func IsNilConst(v ssa.Value) bool {
	c, ok := v.(*ssa.Const)
	return ok && c.Value == nil && !isBasic(c.Type())
}

func isBasic(t types.Type) bool {
	_, ok := t.Underlying().(*types.Basic)
	return ok
}

// NilCmp decomposes `x != nil` / `x == nil` into (x, isNeq, ok).
func NilCmp(v ssa.Value) (ssa.Value, bool, bool) {
	b, ok := v.(*ssa.BinOp)
	if !ok || (b.Op != token.NEQ && b.Op != token.EQL) {
		return nil, false, false
	}
	if IsNilConst(b.Y) {
		return b.X, b.Op == token.NEQ, true
	}
	if IsNilConst(b.X) {
		return b.Y, b.Op == token.NEQ, true
	}
	return nil, false, false
}

// Addr returns the address a value was loaded from (v = *addr), or nil.
func Addr(v ssa.Value) ssa.Value {
	if u, ok := v.(*ssa.UnOp); ok && u.Op == token.MUL {
		return u.X
	}
	return nil
}

// SameCell reports whether two values are the same SSA value or loads of the
// same address (the address being an Alloc, FreeVar, Global or FieldAddr).
func SameCell(a, b ssa.Value) bool {
	if a == b {
		return true
	}
	aa, ba := Addr(a), Addr(b)
	if aa == nil || ba == nil {
		return false
	}
	return SameAddr(aa, ba)
}

// SameAddr compares two addresses structurally.
func SameAddr(a, b ssa.Value) bool {
	if a == b {
		return true
	}
	switch x := a.(type) {
	case *ssa.FieldAddr:
		y, ok := b.(*ssa.FieldAddr)
		return ok && x.Field == y.Field && (x.X == y.X || SameCell(x.X, y.X))
	}
	return false
}

// NonNilAt reports whether value v (or the cell it was loaded from) is known to
// be non-nil at instruction `at` by a dominating `v != nil` branch, provided no
// store to the cell lies between the check and `at`.
func NonNilAt(v ssa.Value, at ssa.Instruction) bool {
	return nilFactAt(v, at, true)
}

// NilAt is the dual: known to be nil.
func NilAt(v ssa.Value, at ssa.Instruction) bool {
	return nilFactAt(v, at, false)
}

func nilFactAt(v ssa.Value, at ssa.Instruction, wantNonNil bool) bool {
	for _, f := range FactsAt(at.Block()) {
		x, neq, ok := NilCmp(f.Cond)
		if !ok {
			continue
		}
		holdsNonNil := neq != f.Neg // (x != nil) true, or (x == nil) false
		if holdsNonNil != wantNonNil {
			continue
		}
		if x == v {
			return true
		}
		if SameCell(x, v) {
			// both are loads of the same cell: no store to the cell between the
			// checked load and the use
			addr := Addr(x)
			if !storeBetween(addr, x.(ssa.Instruction), at) {
				return true
			}
		}
	}
	return false
}

// storeBetween: may a store to addr (or a call that could write it through a
// captured/escaped reference) execute on a path from `from` to `to`?
func storeBetween(addr ssa.Value, from, to ssa.Instruction) bool {
	hit := false
	escaped := addrEscapes(addr)
	// paths from the check to the use that do not re-execute the check (which
	// would re-establish the fact)
	again := func(in ssa.Instruction) bool { return in == from }
	WalkFrom(from, func(in ssa.Instruction) bool {
		if in == to || in == from {
			return false
		}
		switch s := in.(type) {
		case *ssa.Store:
			if SameAddr(s.Addr, addr) && Reachable(in, to, again) {
				hit = true
			}
		case ssa.CallInstruction:
			if escaped {
				if _, isDefer := in.(*ssa.Defer); !isDefer && callMayWrite(s, addr) && Reachable(in, to, again) {
					hit = true
				}
			}
		}
		return !hit
	})
	return hit
}

// addrEscapes: the cell is captured by a closure, is a FreeVar, Global, or a field.
func addrEscapes(addr ssa.Value) bool {
	switch a := addr.(type) {
	case *ssa.Alloc:
		for _, r := range *a.Referrers() {
			switch r.(type) {
			case *ssa.Store, *ssa.UnOp, *ssa.DebugRef:
			default:
				return true
			}
			if st, ok := r.(*ssa.Store); ok && st.Val == a {
				return true
			}
		}
		return false
	}
	return true
}

// callMayWrite: conservative — a call that receives the address or a closure
// capturing it. Field cells rooted at parameters are assumed stable across calls
// (csvq does not rewrite error fields behind the back of a function).
func callMayWrite(c ssa.CallInstruction, addr ssa.Value) bool {
	al, ok := addr.(*ssa.Alloc)
	if !ok {
		if _, isFV := addr.(*ssa.FreeVar); isFV {
			// a captured variable may be written by the enclosing function's other
			// closures only when they run; calls to local closures count
			if mc, ok := c.Common().Value.(*ssa.MakeClosure); ok {
				_ = mc
				return true
			}
		}
		return false
	}
	for _, a := range c.Common().Args {
		if a == al {
			return true
		}
		if mc, ok := a.(*ssa.MakeClosure); ok {
			for _, b := range mc.Bindings {
				if b == al {
					return true
				}
			}
		}
	}
	if mc, ok := c.Common().Value.(*ssa.MakeClosure); ok {
		for _, b := range mc.Bindings {
			if b == al {
				return true
			}
		}
	}
	// a call through a local closure variable that captured the cell
	if v := c.Common().Value; v != nil {
		if _, isFn := v.(*ssa.Function); !isFn {
			if _, isB := v.(*ssa.Builtin); !isB && !c.Common().IsInvoke() {
				// dynamic call of a func value: may be a closure capturing the cell
				for _, r := range *al.Referrers() {
					if mc, ok := r.(*ssa.MakeClosure); ok {
						_ = mc
						return true
					}
				}
			}
		}
	}
	return false
}

// ---------------------------------------------------------------------------
// Constants and small value helpers

// ConstInt returns the integer value of a constant.
func ConstInt(v ssa.Value) (int64, bool) {
	c, ok := v.(*ssa.Const)
	if !ok || c.Value == nil || c.Value.Kind() != constant.Int {
		return 0, false
	}
	return c.Int64(), true
}

// ConstString returns the string value of a constant.
func ConstString(v ssa.Value) (string, bool) {
	c, ok := v.(*ssa.Const)
	if !ok || c.Value == nil || c.Value.Kind() != constant.String {
		return "", false
	}
	return constant.StringVal(c.Value), true
}

// ConstBool returns the boolean value of a constant.
func ConstBool(v ssa.Value) (bool, bool) {
	c, ok := v.(*ssa.Const)
	if !ok || c.Value == nil || c.Value.Kind() != constant.Bool {
		return false, false
	}
	return constant.BoolVal(c.Value), true
}

// Strip removes value-preserving wrappers: ChangeInterface, MakeInterface,
// ChangeType, Convert between identical underlying pointer types, TypeAssert.
func Strip(v ssa.Value) ssa.Value {
	for {
		switch x := v.(type) {
		case *ssa.ChangeInterface:
			v = x.X
		case *ssa.MakeInterface:
			v = x.X
		case *ssa.ChangeType:
			v = x.X
		case *ssa.TypeAssert:
			v = x.X
		default:
			return v
		}
	}
}

// FieldName returns the name of the field addressed by a FieldAddr / Field.
func FieldName(v ssa.Value) string {
	switch x := v.(type) {
	case *ssa.FieldAddr:
		st := derefStruct(x.X.Type())
		if st != nil {
			return st.Field(x.Field).Name()
		}
	case *ssa.Field:
		st := derefStruct(x.X.Type())
		if st != nil {
			return st.Field(x.Field).Name()
		}
	}
	return ""
}

func derefStruct(t types.Type) *types.Struct {
	if p, ok := t.Underlying().(*types.Pointer); ok {
		t = p.Elem()
	}
	st, _ := t.Underlying().(*types.Struct)
	return st
}

// NamedOf returns "pkgshort.Name" of a (pointer to a) named type, else "".
func NamedOf(t types.Type) string {
	if p, ok := t.(*types.Pointer); ok {
		t = p.Elem()
	}
	if n, ok := t.(*types.Named); ok {
		o := n.Obj()
		if o.Pkg() == nil {
			return o.Name()
		}
		return Short(o.Pkg().Path()) + "." + o.Name()
	}
	return ""
}

// FieldOwner returns "pkgshort.Type.field" for a FieldAddr/Field value.
func FieldOwner(v ssa.Value) string {
	var x ssa.Value
	switch f := v.(type) {
	case *ssa.FieldAddr:
		x = f.X
	case *ssa.Field:
		x = f.X
	default:
		return ""
	}
	n := NamedOf(x.Type())
	if n == "" {
		return ""
	}
	return n + "." + FieldName(v)
}

// HasPrefixAny is a tiny helper for name tables.
func HasPrefixAny(s string, pre ...string) bool {
	for _, p := range pre {
		if strings.HasPrefix(s, p) {
			return true
		}
	}
	return false
}
