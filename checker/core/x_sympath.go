package core

// Engine E12: symbolic evaluation of the acyclic paths of a function.
//
// A function (with the callees the caller of the engine asks to be inlined) is walked
// path by path. Integer values are normalised to polynomials over named atoms (engine
// E11, x_poly.go), slices to (root, offset, length) triples, memory cells (fields of a
// tracked object, locals) are followed along the path: a load yields the value last
// stored on this path. Branch conditions over integers become linear facts, conditions
// that are calls or nil tests become boolean / nil facts; a condition the facts of the
// path already decide prunes the other edge. Every path that reaches a return yields
// its results, the final memory, the facts and the slice expressions met on the way.
//
// What the engine does not do, and how it stays sound:
//   - loops are not unrolled: a path never enters a block twice. On entering the header
//     of a natural loop every φ of the header becomes a fresh atom and every cell the
//     loop may store to (directly or in a callee, by field name) is forgotten, so
//     nothing that a complete iteration could have changed is taken for known;
//   - a call that is not inlined returns fresh atoms and forgets the cells of every
//     pointer it is handed (restricted to the fields its static call tree stores);
//     a call that is not handed a pointer is assumed not to write through it;
//   - what a deferred call, a goroutine or a closure is handed is reported as a note on
//     the path ("defer:atom", "go:atom", "closure:atom"): the rule decides whether a
//     write outside the evaluated path matters to it;
//   - integer conversions are taken to preserve the value (no overflow modelling).
//
// LinFacts generalises the fact store of R-PAR-5 (rules/c12_tile.go): an implication
// "facts ⇒ goal ≥ 0" is decided by subtracting one or two facts from the goal and
// finding a non-negative constant. No solver is involved.

import (
	"fmt"
	"go/token"
	"go/types"
	"sort"
	"strings"

	"golang.org/x/tools/go/ssa"
)

// ---------------------------------------------------------------------------
// linear facts

type LinFacts struct {
	Geq0 []Poly // e ≥ 0
	Eq0  []Poly // e = 0
	Ne0  []Poly // e ≠ 0
}

func (f *LinFacts) Clone() LinFacts {
	return LinFacts{Geq0: append([]Poly(nil), f.Geq0...), Eq0: append([]Poly(nil), f.Eq0...), Ne0: append([]Poly(nil), f.Ne0...)}
}

// NegateCmp returns the comparison that holds when `x op y` is false.
func NegateCmp(op token.Token) token.Token {
	switch op {
	case token.LSS:
		return token.GEQ
	case token.LEQ:
		return token.GTR
	case token.GTR:
		return token.LEQ
	case token.GEQ:
		return token.LSS
	case token.EQL:
		return token.NEQ
	case token.NEQ:
		return token.EQL
	}
	return token.ILLEGAL
}

// cmpGoal rewrites an ordering `x op y` over the integers as e ≥ 0.
func cmpGoal(op token.Token, x, y Poly) (Poly, bool) {
	switch op {
	case token.LSS:
		return y.Sub(x).Add(PolyConst(-1)), true
	case token.LEQ:
		return y.Sub(x), true
	case token.GTR:
		return x.Sub(y).Add(PolyConst(-1)), true
	case token.GEQ:
		return x.Sub(y), true
	}
	return nil, false
}

// AddCmp records that `x op y` has the given truth value.
func (f *LinFacts) AddCmp(op token.Token, truth bool, x, y Poly) {
	if !truth {
		op = NegateCmp(op)
	}
	switch op {
	case token.EQL:
		f.Eq0 = append(f.Eq0, x.Sub(y))
	case token.NEQ:
		f.Ne0 = append(f.Ne0, x.Sub(y))
	default:
		if g, ok := cmpGoal(op, x, y); ok {
			f.Geq0 = append(f.Geq0, g)
		}
	}
}

func (f *LinFacts) nonNeg() []Poly {
	out := append([]Poly(nil), f.Geq0...)
	for _, e := range f.Eq0 {
		out = append(out, e, e.Neg())
	}
	return out
}

// ImpliesGeq0: goal ≥ 0 follows from the facts — goal is a non-negative constant, or
// goal minus one fact, or minus the sum of two facts, is one.
func (f *LinFacts) ImpliesGeq0(goal Poly) bool {
	if k, ok := goal.Const(); ok {
		return k >= 0
	}
	nn := f.nonNeg()
	for _, a := range nn {
		if k, ok := goal.Sub(a).Const(); ok && k >= 0 {
			return true
		}
	}
	for i, a := range nn {
		for _, b := range nn[i:] {
			if k, ok := goal.Sub(a).Sub(b).Const(); ok && k >= 0 {
				return true
			}
		}
	}
	return false
}

func (f *LinFacts) ImpliesEq0(goal Poly) bool {
	if goal.IsZero() {
		return true
	}
	for _, e := range f.Eq0 {
		if goal.Equal(e) || goal.Equal(e.Neg()) {
			return true
		}
	}
	if _, isConst := goal.Const(); isConst {
		return false
	}
	return f.ImpliesGeq0(goal) && f.ImpliesGeq0(goal.Neg())
}

func (f *LinFacts) ImpliesNe0(goal Poly) bool {
	if k, ok := goal.Const(); ok {
		return k != 0
	}
	for _, e := range f.Ne0 {
		if goal.Equal(e) || goal.Equal(e.Neg()) {
			return true
		}
	}
	return f.ImpliesGeq0(goal.Add(PolyConst(-1))) || f.ImpliesGeq0(goal.Neg().Add(PolyConst(-1)))
}

// DecideCmp reports whether the facts fix the truth of `x op y`.
func (f *LinFacts) DecideCmp(op token.Token, x, y Poly) (truth, decided bool) {
	switch op {
	case token.EQL, token.NEQ:
		d := x.Sub(y)
		if f.ImpliesEq0(d) {
			return op == token.EQL, true
		}
		if f.ImpliesNe0(d) {
			return op == token.NEQ, true
		}
		return false, false
	}
	if g, ok := cmpGoal(op, x, y); ok && f.ImpliesGeq0(g) {
		return true, true
	}
	if g, ok := cmpGoal(NegateCmp(op), x, y); ok && f.ImpliesGeq0(g) {
		return false, true
	}
	return false, false
}

// polyRel prints e ⋈ 0 with the negative terms moved to the right-hand side.
func polyRel(e Poly, rel string) string {
	l, r := Poly{}, Poly{}
	for k, v := range e {
		if v > 0 {
			l[k] = v
		} else {
			r[k] = -v
		}
	}
	return l.String() + " " + rel + " " + r.String()
}

func (f *LinFacts) String() string {
	var xs []string
	for _, e := range f.Geq0 {
		xs = append(xs, polyRel(e, "≥"))
	}
	for _, e := range f.Eq0 {
		xs = append(xs, polyRel(e, "="))
	}
	for _, e := range f.Ne0 {
		xs = append(xs, polyRel(e, "≠"))
	}
	if len(xs) == 0 {
		return "no fact"
	}
	return strings.Join(xs, ", ")
}

// Atoms lists the atoms of a polynomial, sorted.
func (p Poly) Atoms() []string {
	set := map[string]bool{}
	for k := range p {
		if k == "" {
			continue
		}
		for _, a := range strings.Split(k, polySep) {
			set[a] = true
		}
	}
	var out []string
	for a := range set {
		out = append(out, a)
	}
	sort.Strings(out)
	return out
}

// ---------------------------------------------------------------------------
// symbolic values

type SymKind int

const (
	SymOpaque SymKind = iota // identity only (Atom)
	SymInt                   // P
	SymSlice                 // Root, Off, Len
	SymAddr                  // Cell: the address of a followed memory cell
	SymBool                  // B
	SymTuple                 // Elems
)

// BoolExpr is a condition in a form the walker can turn into facts.
type BoolExpr struct {
	Const *bool
	Op    token.Token // ordering / equality over X, Y (ILLEGAL if unused)
	X, Y  Poly
	NilOf string // "Atom is nil" (Op == ILLEGAL, NilOf != "")
	NilK  NilKind
	Atom  string // an opaque boolean (call result, float comparison …)
	Neg   bool
}

type Sym struct {
	Kind  SymKind
	P     Poly
	Root  string
	Off   Poly
	Len   Poly
	Cell  string
	B     *BoolExpr
	Elems []Sym
	Atom  string  // identity of an opaque value / of the object a pointer points to
	Nil   NilKind // for pointer-like values
}

func SymIntOf(p Poly) Sym { return Sym{Kind: SymInt, P: p} }

func (s Sym) String() string {
	switch s.Kind {
	case SymInt:
		return s.P.String()
	case SymSlice:
		return fmt.Sprintf("%s[%s : +%s]", s.Root, s.Off, s.Len)
	case SymAddr:
		return "&" + s.Cell
	case SymBool:
		return "bool"
	case SymTuple:
		return "tuple"
	}
	return s.Atom
}

// SymEvent is a slice expression met on a path.
type SymEvent struct {
	Instr *ssa.Slice
	X     Sym // the operand
	Res   Sym // the result
	Low   bool
	High  bool
}

// SymPath is one acyclic path from the entry to a return.
type SymPath struct {
	Ret     *ssa.Return
	Results []Sym
	Cells   map[string]Sym
	Facts   LinFacts
	Bools   map[string]bool // opaque boolean atom → its value on the path
	Nils    map[string]bool // atom → is nil on the path
	Events  []SymEvent
	Notes   []string
	Origin  map[string]ssa.Value // fresh atom → the value it stands for
}

// SymEval configures one evaluation.
type SymEval struct {
	// NameCall may give the result of a call a name (an atom the rule reasons about).
	NameCall func(call ssa.CallInstruction, callee *ssa.Function, args []Sym) (Sym, bool)
	// Inline decides whether a static callee with a body is evaluated in place.
	Inline func(callee *ssa.Function, args []Sym) bool
	// InitCell gives the value of a cell that has not been stored on the path.
	InitCell func(cell string, t types.Type) (Sym, bool)
	MaxPaths int
	MaxDepth int

	nPaths     int
	nBlocks    int
	incomplete bool
	loops      map[*ssa.Function][]*Loop
	stored     map[*ssa.Function]*storedSummary
}

type symState struct {
	env    map[ssa.Value]Sym
	cells  map[string]Sym
	facts  LinFacts
	bools  map[string]bool
	nils   map[string]bool
	events []SymEvent
	notes  []string
	origin map[string]ssa.Value
	fresh  int
}

func (st *symState) clone() *symState {
	n := &symState{env: make(map[ssa.Value]Sym, len(st.env)), cells: make(map[string]Sym, len(st.cells)), facts: st.facts.Clone(),
		bools: make(map[string]bool, len(st.bools)), nils: make(map[string]bool, len(st.nils)),
		events: append([]SymEvent(nil), st.events...), notes: append([]string(nil), st.notes...),
		origin: make(map[string]ssa.Value, len(st.origin)), fresh: st.fresh}
	for k, v := range st.env {
		n.env[k] = v
	}
	for k, v := range st.cells {
		n.cells[k] = v
	}
	for k, v := range st.bools {
		n.bools[k] = v
	}
	for k, v := range st.nils {
		n.nils[k] = v
	}
	for k, v := range st.origin {
		n.origin[k] = v
	}
	return n
}

func (st *symState) note(s string) {
	for _, x := range st.notes {
		if x == s {
			return
		}
	}
	st.notes = append(st.notes, s)
}

func (st *symState) freshAtom(v ssa.Value) string {
	st.fresh++
	a := fmt.Sprintf("?%d", st.fresh)
	if v != nil {
		st.origin[a] = v
	}
	return a
}

func isIntType(t types.Type) bool {
	b, ok := t.Underlying().(*types.Basic)
	return ok && b.Info()&types.IsInteger != 0
}

func isBoolType(t types.Type) bool {
	b, ok := t.Underlying().(*types.Basic)
	return ok && b.Info()&types.IsBoolean != 0
}

// freshOf makes an unknown value of type t.
func (st *symState) freshOf(t types.Type, v ssa.Value) Sym {
	switch {
	case t == nil:
		return Sym{Kind: SymOpaque, Atom: st.freshAtom(v)}
	case isIntType(t):
		return SymIntOf(PolyAtom(st.freshAtom(v)))
	case isBoolType(t):
		return Sym{Kind: SymBool, B: &BoolExpr{Atom: st.freshAtom(v)}}
	}
	if tup, ok := t.(*types.Tuple); ok {
		s := Sym{Kind: SymTuple}
		for i := 0; i < tup.Len(); i++ {
			s.Elems = append(s.Elems, st.freshOf(tup.At(i).Type(), v))
		}
		return s
	}
	if _, ok := t.Underlying().(*types.Slice); ok {
		a := st.freshAtom(v)
		l := PolyAtom("len(" + a + ")")
		st.facts.Geq0 = append(st.facts.Geq0, l)
		return Sym{Kind: SymSlice, Root: a, Off: Poly{}, Len: l, Atom: a}
	}
	return Sym{Kind: SymOpaque, Atom: st.freshAtom(v)}
}

type symFrame struct {
	fn    *ssa.Function
	depth int
	stack []*ssa.Function
	k     func(st *symState, results []Sym, ret *ssa.Return)
}

// Paths evaluates fn with the given arguments (one per parameter; a zero Sym stands
// for "unknown") under the initial facts.
func (e *SymEval) Paths(fn *ssa.Function, args []Sym, initial LinFacts) (paths []SymPath, complete bool) {
	if e.MaxPaths == 0 {
		e.MaxPaths = 2048
	}
	if e.MaxDepth == 0 {
		e.MaxDepth = 4
	}
	e.nPaths, e.nBlocks, e.incomplete = 0, 0, false
	e.loops = map[*ssa.Function][]*Loop{}
	if e.stored == nil {
		e.stored = map[*ssa.Function]*storedSummary{}
	}
	st := &symState{env: map[ssa.Value]Sym{}, cells: map[string]Sym{}, facts: initial.Clone(), bools: map[string]bool{}, nils: map[string]bool{}, origin: map[string]ssa.Value{}}
	fr := &symFrame{fn: fn, stack: []*ssa.Function{fn}}
	fr.k = func(st *symState, results []Sym, ret *ssa.Return) {
		e.nPaths++
		if e.nPaths > e.MaxPaths {
			e.incomplete = true
			return
		}
		paths = append(paths, SymPath{Ret: ret, Results: results, Cells: st.cells, Facts: st.facts, Bools: st.bools, Nils: st.nils, Events: st.events, Notes: st.notes, Origin: st.origin})
	}
	e.enter(fr, args, st)
	return paths, !e.incomplete
}

func (e *SymEval) enter(fr *symFrame, args []Sym, st *symState) {
	fn := fr.fn
	if len(fn.Blocks) == 0 {
		e.incomplete = true
		return
	}
	for i, p := range fn.Params {
		if i < len(args) && (args[i].Kind != SymOpaque || args[i].Atom != "") {
			st.env[p] = args[i]
		} else {
			st.env[p] = e.paramSym(st, p)
		}
	}
	e.runBlock(fr, nil, fn.Blocks[0], st, nil)
}

func (e *SymEval) paramSym(st *symState, p *ssa.Parameter) Sym {
	name := "param:" + p.Name()
	switch {
	case isIntType(p.Type()):
		return SymIntOf(PolyAtom(name))
	case isBoolType(p.Type()):
		return Sym{Kind: SymBool, B: &BoolExpr{Atom: name}}
	}
	if _, ok := p.Type().Underlying().(*types.Slice); ok {
		l := PolyAtom("len(" + name + ")")
		st.facts.Geq0 = append(st.facts.Geq0, l)
		return Sym{Kind: SymSlice, Root: name, Off: Poly{}, Len: l, Atom: name}
	}
	return Sym{Kind: SymOpaque, Atom: name}
}

func (e *SymEval) loopsOf(fn *ssa.Function) []*Loop {
	if l, ok := e.loops[fn]; ok {
		return l
	}
	l := NaturalLoops(fn)
	e.loops[fn] = l
	return l
}

func (e *SymEval) runBlock(fr *symFrame, pred, b *ssa.BasicBlock, st *symState, seen map[*ssa.BasicBlock]bool) {
	if e.incomplete {
		return
	}
	if seen[b] {
		return // a cyclic path: not enumerated
	}
	if e.nBlocks++; e.nBlocks > 400000 {
		e.incomplete = true
		return
	}
	seen2 := make(map[*ssa.BasicBlock]bool, len(seen)+1)
	for k := range seen {
		seen2[k] = true
	}
	seen2[b] = true
	var header *Loop
	for _, l := range e.loopsOf(fr.fn) {
		if l.Header == b {
			header = l
		}
	}
	// φ: parallel assignment from the edge taken
	idx := -1
	for i, q := range b.Preds {
		if q == pred {
			idx = i
		}
	}
	var phis []*ssa.Phi
	var vals []Sym
	for _, in := range b.Instrs {
		p, ok := in.(*ssa.Phi)
		if !ok {
			break
		}
		phis = append(phis, p)
		if header != nil || idx < 0 {
			vals = append(vals, st.freshOf(p.Type(), p))
		} else {
			vals = append(vals, e.val(st, p.Edges[idx]))
		}
	}
	for i, p := range phis {
		st.env[p] = vals[i]
	}
	if header != nil {
		e.forgetLoopEffects(fr, header, st)
	}
	e.runInstrs(fr, b, len(phis), st, seen2)
}

// val evaluates an operand.
func (e *SymEval) val(st *symState, v ssa.Value) Sym {
	if s, ok := st.env[v]; ok {
		return s
	}
	switch x := v.(type) {
	case *ssa.Const:
		if k, ok := ConstInt(x); ok && isIntType(x.Type()) {
			return SymIntOf(PolyConst(k))
		}
		if bv, ok := ConstBool(x); ok {
			return Sym{Kind: SymBool, B: &BoolExpr{Const: &bv}}
		}
		if x.Value == nil {
			if _, isSlice := x.Type().Underlying().(*types.Slice); isSlice {
				return Sym{Kind: SymSlice, Root: "nil", Off: Poly{}, Len: Poly{}, Atom: "nil", Nil: IsNil}
			}
			return Sym{Kind: SymOpaque, Atom: "nil", Nil: IsNil}
		}
		return Sym{Kind: SymOpaque, Atom: "const:" + x.Value.ExactString(), Nil: NonNil}
	case *ssa.Global:
		return Sym{Kind: SymAddr, Cell: "global:" + x.RelString(nil), Atom: "global:" + x.RelString(nil), Nil: NonNil}
	case *ssa.Function:
		return Sym{Kind: SymOpaque, Atom: "func:" + x.RelString(nil), Nil: NonNil}
	case *ssa.FreeVar:
		return Sym{Kind: SymOpaque, Atom: "freevar:" + x.Name()}
	case *ssa.Parameter:
		s := e.paramSym(st, x)
		st.env[v] = s
		return s
	}
	s := st.freshOf(v.Type(), v)
	st.env[v] = s
	return s
}

func (e *SymEval) load(st *symState, cell string, t types.Type, at ssa.Value) Sym {
	if s, ok := st.cells[cell]; ok && s.Atom != forgottenMark {
		return s
	} else if ok || cellForgotten(st, cell) {
		s = st.freshOf(t, at)
		st.cells[cell] = s
		return s
	}
	var s Sym
	ok := false
	if e.InitCell != nil {
		s, ok = e.InitCell(cell, t)
	}
	if !ok {
		s = st.freshOf(t, at)
	}
	st.cells[cell] = s
	return s
}

func (e *SymEval) store(st *symState, cell string, v Sym) {
	for k := range st.cells {
		if strings.HasPrefix(k, cell+".") {
			delete(st.cells, k)
		}
	}
	st.cells[cell] = v
}

// forgottenMark stands in a cell for "stored with an unknown value before it was ever
// loaded"; the first load replaces it by a fresh value of the cell's type.
const forgottenMark = "!forgotten"

// forget drops what is known about the cells of object atom (all fields, or the named ones).
func (e *SymEval) forget(st *symState, atom string, fields map[string]bool, all bool, at ssa.Value) {
	var ks []string
	for k := range st.cells {
		if !strings.HasPrefix(k, atom+".") {
			continue
		}
		f := k[len(atom)+1:]
		if i := strings.Index(f, "."); i >= 0 {
			f = f[:i]
		}
		if all || fields[f] {
			ks = append(ks, k)
		}
	}
	sort.Strings(ks)
	for _, k := range ks {
		if st.cells[k].Atom == forgottenMark {
			continue
		}
		st.cells[k] = forgotten(st, st.cells[k], at)
	}
	// cells not loaded so far must not fall back to their initial value either
	if all {
		st.cells[atom+".*"] = Sym{Kind: SymOpaque, Atom: forgottenMark}
		return
	}
	var fs []string
	for f := range fields {
		fs = append(fs, f)
	}
	sort.Strings(fs)
	for _, f := range fs {
		if _, ok := st.cells[atom+"."+f]; !ok {
			st.cells[atom+"."+f] = Sym{Kind: SymOpaque, Atom: forgottenMark}
		}
	}
}

func forgotten(st *symState, old Sym, at ssa.Value) Sym {
	switch old.Kind {
	case SymInt:
		return SymIntOf(PolyAtom(st.freshAtom(at)))
	case SymSlice:
		a := st.freshAtom(at)
		l := PolyAtom("len(" + a + ")")
		st.facts.Geq0 = append(st.facts.Geq0, l)
		return Sym{Kind: SymSlice, Root: a, Off: Poly{}, Len: l, Atom: a}
	case SymBool:
		return Sym{Kind: SymBool, B: &BoolExpr{Atom: st.freshAtom(at)}}
	}
	return Sym{Kind: SymOpaque, Atom: st.freshAtom(at)}
}

// cellForgotten: an enclosing object of the cell was invalidated as a whole.
func cellForgotten(st *symState, cell string) bool {
	for c := cell; ; {
		i := strings.LastIndex(c, ".")
		if i < 0 {
			return false
		}
		c = c[:i]
		if _, ok := st.cells[c+".*"]; ok {
			return true
		}
	}
}

type storedSummary struct {
	fields map[string]bool
	all    bool
}

// storedFields: the names of the struct fields fn or its static call tree stores into.
func (e *SymEval) storedFields(fn *ssa.Function, depth int) *storedSummary {
	if s, ok := e.stored[fn]; ok {
		return s
	}
	s := &storedSummary{fields: map[string]bool{}}
	e.stored[fn] = s // recursion: optimistic, completed below
	if fn == nil || fn.Blocks == nil || depth > 6 {
		s.all = true
		return s
	}
	for _, b := range fn.Blocks {
		for _, in := range b.Instrs {
			switch x := in.(type) {
			case *ssa.Store:
				if fa, ok := x.Addr.(*ssa.FieldAddr); ok {
					s.fields[FieldName(fa)] = true
				}
			case ssa.CallInstruction:
				if _, isBuiltin := x.Common().Value.(*ssa.Builtin); isBuiltin {
					continue
				}
				g := StaticCallee(x)
				if g == nil {
					if mc, ok := x.Common().Value.(*ssa.MakeClosure); ok {
						g, _ = mc.Fn.(*ssa.Function)
					}
				}
				if g == nil {
					s.all = true
					continue
				}
				if g.Blocks == nil {
					// no body: the standard library's assembly stubs do not know our structs
					continue
				}
				t := e.storedFields(g, depth+1)
				if t.all {
					s.all = true
				}
				for f := range t.fields {
					s.fields[f] = true
				}
			}
		}
	}
	return s
}

func (e *SymEval) forgetLoopEffects(fr *symFrame, l *Loop, st *symState) {
	fields := map[string]bool{}
	all := false
	var blocks []*ssa.BasicBlock
	for b := range l.Blocks {
		blocks = append(blocks, b)
	}
	sort.Slice(blocks, func(i, j int) bool { return blocks[i].Index < blocks[j].Index })
	var at ssa.Value
	for _, b := range blocks {
		for _, in := range b.Instrs {
			switch x := in.(type) {
			case *ssa.Store:
				switch a := x.Addr.(type) {
				case *ssa.FieldAddr:
					fields[FieldName(a)] = true
				case *ssa.Alloc:
					if s, ok := st.env[a]; ok && s.Kind == SymAddr {
						st.cells[s.Cell] = forgotten(st, st.cells[s.Cell], a)
					}
				}
			case ssa.CallInstruction:
				if _, isBuiltin := x.Common().Value.(*ssa.Builtin); isBuiltin {
					continue
				}
				g := StaticCallee(x)
				if g == nil {
					all = true
					continue
				}
				if g.Blocks == nil {
					continue
				}
				t := e.storedFields(g, 0)
				if t.all {
					all = true
				}
				for f := range t.fields {
					fields[f] = true
				}
			}
		}
	}
	if !all && len(fields) == 0 {
		return
	}
	// every object with followed cells
	objs := map[string]bool{}
	for k := range st.cells {
		if i := strings.Index(k, "."); i > 0 {
			objs[k[:i]] = true
		}
	}
	// objects whose cells have not been loaded yet are covered by InitCell users
	// through the markers forget() leaves; the tracked roots are always included
	for _, p := range fr.fn.Params {
		if s, ok := st.env[p]; ok && s.Atom != "" {
			objs[s.Atom] = true
		}
	}
	var os []string
	for o := range objs {
		os = append(os, o)
	}
	sort.Strings(os)
	for _, o := range os {
		e.forget(st, o, fields, all, at)
	}
}

func (e *SymEval) runInstrs(fr *symFrame, b *ssa.BasicBlock, i int, st *symState, seen map[*ssa.BasicBlock]bool) {
	for ; i < len(b.Instrs); i++ {
		if e.incomplete {
			return
		}
		switch in := b.Instrs[i].(type) {
		case *ssa.Phi:
			continue
		case *ssa.Call:
			if e.call(fr, in, st, func(st2 *symState) { e.runInstrs(fr, b, i+1, st2, seen) }) {
				return
			}
		case *ssa.If:
			e.branch(fr, b, in, st, seen)
			return
		case *ssa.Jump:
			e.runBlock(fr, b, b.Succs[0], st, seen)
			return
		case *ssa.Return:
			var rs []Sym
			for _, r := range in.Results {
				rs = append(rs, e.val(st, r))
			}
			fr.k(st, rs, in)
			return
		case *ssa.Panic:
			return
		case *ssa.Defer:
			e.noteHanded(st, "defer", in)
			e.opaqueCall(st, in, nil)
		case *ssa.Go:
			e.noteHanded(st, "go", in)
			e.opaqueCall(st, in, nil)
		case *ssa.RunDefers:
		default:
			e.step(st, in)
		}
	}
}

// noteHanded records which objects a deferred call / goroutine is handed ("defer:atom"):
// it may write to them outside the evaluated path.
func (e *SymEval) noteHanded(st *symState, kind string, in ssa.CallInstruction) {
	com := in.Common()
	vals := append([]ssa.Value{com.Value}, com.Args...)
	if mc, ok := com.Value.(*ssa.MakeClosure); ok {
		vals = append(vals, mc.Bindings...)
	}
	for _, v := range vals {
		if v == nil {
			continue
		}
		if s := e.val(st, v); s.Atom != "" && s.Kind != SymSlice {
			st.note(kind + ":" + s.Atom)
		}
	}
}

// evalBool gives the truth value of a condition under the facts of the path, if fixed.
func (e *SymEval) evalBool(st *symState, s Sym) (truth, decided bool) {
	if s.Kind != SymBool || s.B == nil {
		return false, false
	}
	be := s.B
	flip := func(t, d bool) (bool, bool) {
		if d && be.Neg {
			return !t, true
		}
		return t, d
	}
	switch {
	case be.Const != nil:
		return flip(*be.Const, true)
	case be.Op != token.ILLEGAL:
		return flip(st.facts.DecideCmp(be.Op, be.X, be.Y))
	case be.NilOf != "":
		if be.NilK == IsNil {
			return flip(true, true)
		}
		if be.NilK == NonNil {
			return flip(false, true)
		}
		if v, ok := st.nils[be.NilOf]; ok {
			return flip(v, true)
		}
	case be.Atom != "":
		if v, ok := st.bools[be.Atom]; ok {
			return flip(v, true)
		}
	}
	return false, false
}

func (e *SymEval) assume(st *symState, s Sym, truth bool) {
	if s.Kind != SymBool || s.B == nil {
		return
	}
	be := s.B
	if be.Neg {
		truth = !truth
	}
	switch {
	case be.Const != nil:
	case be.Op != token.ILLEGAL:
		st.facts.AddCmp(be.Op, truth, be.X, be.Y)
	case be.NilOf != "":
		st.nils[be.NilOf] = truth
	case be.Atom != "":
		st.bools[be.Atom] = truth
	}
}

func (e *SymEval) branch(fr *symFrame, b *ssa.BasicBlock, in *ssa.If, st *symState, seen map[*ssa.BasicBlock]bool) {
	c := e.val(st, in.Cond)
	if t, ok := e.evalBool(st, c); ok {
		if t {
			e.runBlock(fr, b, b.Succs[0], st, seen)
		} else {
			e.runBlock(fr, b, b.Succs[1], st, seen)
		}
		return
	}
	st2 := st.clone()
	e.assume(st, c, true)
	e.runBlock(fr, b, b.Succs[0], st, seen)
	e.assume(st2, c, false)
	e.runBlock(fr, b, b.Succs[1], st2, seen)
}

func (e *SymEval) nilKindOf(st *symState, s Sym) NilKind {
	if s.Nil != MaybeNil {
		return s.Nil
	}
	if s.Atom != "" {
		if v, ok := st.nils[s.Atom]; ok {
			if v {
				return IsNil
			}
			return NonNil
		}
	}
	return MaybeNil
}

// NilOnPath classifies a result of a path with the path's nil facts.
func (p *SymPath) NilOnPath(s Sym) NilKind {
	if s.Nil != MaybeNil {
		return s.Nil
	}
	if s.Atom != "" {
		if v, ok := p.Nils[s.Atom]; ok {
			if v {
				return IsNil
			}
			return NonNil
		}
	}
	return MaybeNil
}

func (e *SymEval) step(st *symState, in ssa.Instruction) {
	v, isVal := in.(ssa.Value)
	set := func(s Sym) {
		if isVal {
			st.env[v] = s
		}
	}
	switch x := in.(type) {
	case *ssa.Alloc:
		a := st.freshAtom(x)
		cell := "local" + a
		set(Sym{Kind: SymAddr, Cell: cell, Atom: cell, Nil: NonNil})
	case *ssa.FieldAddr:
		base := e.val(st, x.X)
		name := FieldName(x)
		switch {
		case base.Kind == SymAddr:
			set(Sym{Kind: SymAddr, Cell: base.Cell + "." + name, Atom: base.Cell + "." + name, Nil: NonNil})
		case base.Atom != "":
			set(Sym{Kind: SymAddr, Cell: base.Atom + "." + name, Atom: base.Atom + "." + name, Nil: NonNil})
		default:
			set(st.freshOf(nil, x))
		}
	case *ssa.Store:
		addr := e.val(st, x.Addr)
		if addr.Kind == SymAddr {
			e.store(st, addr.Cell, e.val(st, x.Val))
		}
	case *ssa.UnOp:
		switch x.Op {
		case token.MUL:
			addr := e.val(st, x.X)
			if addr.Kind == SymAddr {
				set(e.load(st, addr.Cell, x.Type(), x))
			} else {
				set(st.freshOf(x.Type(), x))
			}
		case token.NOT:
			s := e.val(st, x.X)
			if s.Kind == SymBool && s.B != nil {
				nb := *s.B
				nb.Neg = !nb.Neg
				set(Sym{Kind: SymBool, B: &nb})
			} else {
				set(st.freshOf(x.Type(), x))
			}
		case token.SUB:
			s := e.val(st, x.X)
			if s.Kind == SymInt {
				set(SymIntOf(s.P.Neg()))
			} else {
				set(st.freshOf(x.Type(), x))
			}
		default:
			set(st.freshOf(x.Type(), x))
		}
	case *ssa.BinOp:
		set(e.binop(st, x))
	case *ssa.Convert:
		s := e.val(st, x.X)
		if s.Kind == SymInt && isIntType(x.Type()) {
			set(s)
		} else {
			set(st.freshOf(x.Type(), x))
		}
	case *ssa.ChangeType:
		set(e.val(st, x.X))
	case *ssa.MakeInterface:
		s := e.val(st, x.X)
		set(Sym{Kind: SymOpaque, Atom: "iface(" + s.String() + ")", Nil: NonNil})
	case *ssa.ChangeInterface:
		set(e.val(st, x.X))
	case *ssa.Slice:
		set(e.slice(st, x))
	case *ssa.MakeSlice:
		l := e.val(st, x.Len)
		a := st.freshAtom(x)
		if l.Kind == SymInt {
			set(Sym{Kind: SymSlice, Root: a, Off: Poly{}, Len: l.P, Atom: a, Nil: NonNil})
		} else {
			set(st.freshOf(x.Type(), x))
		}
	case *ssa.Extract:
		t := e.val(st, x.Tuple)
		if t.Kind == SymTuple && x.Index < len(t.Elems) {
			set(t.Elems[x.Index])
		} else {
			set(st.freshOf(x.Type(), x))
		}
	case *ssa.MakeClosure:
		for _, b := range x.Bindings {
			if s := e.val(st, b); s.Atom != "" && s.Kind != SymSlice {
				st.note("closure:" + s.Atom)
			}
		}
		set(Sym{Kind: SymOpaque, Atom: st.freshAtom(x), Nil: NonNil})
	default:
		if isVal {
			set(st.freshOf(v.Type(), v))
		}
	}
}

func (e *SymEval) binop(st *symState, x *ssa.BinOp) Sym {
	a, b := e.val(st, x.X), e.val(st, x.Y)
	switch x.Op {
	case token.ADD, token.SUB, token.MUL, token.QUO, token.REM:
		if a.Kind == SymInt && b.Kind == SymInt {
			switch x.Op {
			case token.ADD:
				return SymIntOf(a.P.Add(b.P))
			case token.SUB:
				return SymIntOf(a.P.Sub(b.P))
			case token.MUL:
				return SymIntOf(a.P.Mul(b.P))
			case token.QUO:
				if k, ok := b.P.Const(); ok && k == 1 {
					return a
				}
				return SymIntOf(PolyAtom(strings.ReplaceAll("("+a.P.String()+")/("+b.P.String()+")", polySep, "*")))
			case token.REM:
				return SymIntOf(PolyAtom(strings.ReplaceAll("("+a.P.String()+")%("+b.P.String()+")", polySep, "*")))
			}
		}
	case token.LSS, token.LEQ, token.GTR, token.GEQ, token.EQL, token.NEQ:
		if a.Kind == SymInt && b.Kind == SymInt {
			return Sym{Kind: SymBool, B: &BoolExpr{Op: x.Op, X: a.P, Y: b.P}}
		}
		if x.Op == token.EQL || x.Op == token.NEQ {
			var other Sym
			isNilTest := false
			if IsNilConst(x.Y) {
				other, isNilTest = a, true
			} else if IsNilConst(x.X) {
				other, isNilTest = b, true
			}
			if isNilTest {
				atom := other.Atom
				if atom == "" && other.Kind == SymSlice {
					atom = other.Root
				}
				if atom != "" {
					return Sym{Kind: SymBool, B: &BoolExpr{NilOf: atom, NilK: e.nilKindOf(st, other), Neg: x.Op == token.NEQ}}
				}
			}
			if a.Kind == SymBool && b.Kind == SymBool && a.B != nil && b.B != nil && b.B.Const != nil {
				nb := *a.B
				if *b.B.Const != (x.Op == token.EQL) {
					nb.Neg = !nb.Neg
				}
				return Sym{Kind: SymBool, B: &nb}
			}
		}
	}
	return st.freshOf(x.Type(), x)
}

func (e *SymEval) slice(st *symState, x *ssa.Slice) Sym {
	src := e.val(st, x.X)
	var base Sym
	switch {
	case src.Kind == SymSlice:
		base = src
	case src.Kind == SymAddr:
		// a pointer to an array
		if pt, ok := x.X.Type().Underlying().(*types.Pointer); ok {
			if at, ok := pt.Elem().Underlying().(*types.Array); ok {
				base = Sym{Kind: SymSlice, Root: src.Cell, Off: Poly{}, Len: PolyConst(at.Len()), Atom: src.Cell, Nil: NonNil}
			}
		}
	}
	if base.Kind != SymSlice {
		return st.freshOf(x.Type(), x)
	}
	lo, hi := Poly{}, base.Len
	if x.Low != nil {
		s := e.val(st, x.Low)
		if s.Kind != SymInt {
			return st.freshOf(x.Type(), x)
		}
		lo = s.P
	}
	if x.High != nil {
		s := e.val(st, x.High)
		if s.Kind != SymInt {
			return st.freshOf(x.Type(), x)
		}
		hi = s.P
	}
	res := Sym{Kind: SymSlice, Root: base.Root, Off: base.Off.Add(lo), Len: hi.Sub(lo), Atom: base.Atom, Nil: base.Nil}
	st.events = append(st.events, SymEvent{Instr: x, X: base, Res: res, Low: x.Low != nil, High: x.High != nil})
	return res
}

// opaqueCall: the call is not evaluated; what it may have written is forgotten.
func (e *SymEval) opaqueCall(st *symState, in ssa.CallInstruction, args []Sym) {
	com := in.Common()
	if args == nil {
		for _, a := range com.Args {
			args = append(args, e.val(st, a))
		}
	}
	if _, isBuiltin := com.Value.(*ssa.Builtin); isBuiltin {
		return
	}
	g := StaticCallee(in)
	var sum *storedSummary
	if g != nil && g.Blocks != nil {
		sum = e.storedFields(g, 0)
	} else if g != nil {
		return // no body (assembly, linkname): does not know the followed structs
	}
	var at ssa.Value
	if v, ok := in.(ssa.Value); ok {
		at = v
	}
	forgetObj := func(s Sym) {
		atom := s.Atom
		if s.Kind == SymAddr {
			atom = s.Cell
		}
		if atom == "" || atom == "nil" {
			return
		}
		if sum == nil || sum.all {
			e.forget(st, atom, nil, true, at)
		} else if len(sum.fields) > 0 {
			e.forget(st, atom, sum.fields, false, at)
		}
	}
	for i, a := range args {
		if i < len(com.Args) {
			switch com.Args[i].Type().Underlying().(type) {
			case *types.Pointer, *types.Interface, *types.Signature, *types.Map:
				forgetObj(a)
			}
		}
	}
	if com.IsInvoke() {
		forgetObj(e.val(st, com.Value))
	}
}

// call evaluates a call; it returns true when the rest of the block has been run
// through the continuation (inlined callee), false when the caller goes on itself.
func (e *SymEval) call(fr *symFrame, in *ssa.Call, st *symState, cont func(st *symState)) bool {
	com := in.Common()
	var args []Sym
	for _, a := range com.Args {
		args = append(args, e.val(st, a))
	}
	if bi, ok := com.Value.(*ssa.Builtin); ok {
		switch bi.Name() {
		case "len":
			if len(args) == 1 && args[0].Kind == SymSlice {
				st.env[in] = SymIntOf(args[0].Len)
				return false
			}
		}
		st.env[in] = st.freshOf(in.Type(), in)
		return false
	}
	g := StaticCallee(in)
	if e.NameCall != nil {
		if s, ok := e.NameCall(in, g, args); ok {
			st.env[in] = s
			return false
		}
	}
	if g != nil && g.Blocks != nil && e.Inline != nil && fr.depth < e.MaxDepth && e.Inline(g, args) {
		onStack := false
		for _, f := range fr.stack {
			if f == g {
				onStack = true
			}
		}
		if !onStack {
			sub := &symFrame{fn: g, depth: fr.depth + 1, stack: append(append([]*ssa.Function(nil), fr.stack...), g)}
			sub.k = func(st2 *symState, results []Sym, _ *ssa.Return) {
				switch len(results) {
				case 0:
					st2.env[in] = Sym{Kind: SymTuple}
				case 1:
					st2.env[in] = results[0]
				default:
					st2.env[in] = Sym{Kind: SymTuple, Elems: results}
				}
				cont(st2)
			}
			e.enter(sub, args, st)
			return true
		}
	}
	e.opaqueCall(st, in, args)
	res := st.freshOf(in.Type(), in)
	// error results of constructors that never return nil
	if g != nil {
		switch {
		case res.Kind == SymTuple:
			for i := range res.Elems {
				if res.Elems[i].Kind == SymOpaque && AlwaysNonNil(g, i) {
					res.Elems[i].Nil = NonNil
				}
			}
		case res.Kind == SymOpaque && g.Signature.Results().Len() == 1 && AlwaysNonNil(g, 0):
			res.Nil = NonNil
		}
	}
	st.env[in] = res
	return false
}
