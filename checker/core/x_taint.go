package core

// User-controlled integers (R-ERR-11): an integer SSA value is *tainted* when
// some leaf of its expression is a number chosen by the program text or the
// data: the result of strconv.Atoi/ParseInt/ParseUint, (value.Integer).Raw(),
// an int conversion of a float that reaches (value.Float).Raw() or
// strconv.ParseFloat — through arithmetic, Phi, conversions, local cells,
// struct fields (any store tainted), csvq callees (any return tainted, with the
// actual arguments) and parameters (any caller's argument tainted).
// Existential, least fixpoint: a cycle adds nothing.

import (
	"go/token"
	"go/types"

	"golang.org/x/tools/go/ssa"
)

var taintSources = map[string]bool{
	"strconv.Atoi": true, "strconv.ParseInt": true, "strconv.ParseUint": true, "strconv.ParseFloat": true,
}

type taintEnv struct {
	fn     *ssa.Function
	args   []ssa.Value
	caller *taintEnv
	depth  int
}

type taintState struct {
	memo   map[ssa.Value]ssa.Value // root-context results: the source leaf, or nil
	done   map[ssa.Value]bool
	busy   map[ssa.Value]bool
	fields map[*types.Var]ssa.Value
	fdone  map[*types.Var]int
	params map[*ssa.Parameter]ssa.Value
	pdone  map[*ssa.Parameter]int
}

// Tainted returns the user-controlled source that v depends on, or nil.
func (e *Bounds) Tainted(v ssa.Value) ssa.Value {
	if e.taint == nil {
		e.taint = &taintState{memo: map[ssa.Value]ssa.Value{}, done: map[ssa.Value]bool{}, busy: map[ssa.Value]bool{},
			fields: map[*types.Var]ssa.Value{}, fdone: map[*types.Var]int{}, params: map[*ssa.Parameter]ssa.Value{}, pdone: map[*ssa.Parameter]int{}}
	}
	return e.tainted(v, nil, 0)
}

func isRawGetter(f *ssa.Function) bool {
	if f == nil || f.Name() != "Raw" || f.Signature.Recv() == nil {
		return false
	}
	n := NamedOf(f.Signature.Recv().Type())
	return n == "lib/value.Integer" || n == "lib/value.Float"
}

func (e *Bounds) tainted(v ssa.Value, env *taintEnv, up int) ssa.Value {
	st := e.taint
	if _, ok := v.(*ssa.Const); ok {
		return nil
	}
	if _, num := kindOfType(v.Type()); !num {
		return nil
	}
	if env == nil && st.done[v] {
		return st.memo[v]
	}
	if st.busy[v] {
		return nil
	}
	st.busy[v] = true
	r := e.tainted1(v, env, up)
	delete(st.busy, v)
	if env == nil && (r != nil || len(st.busy) == 0) {
		st.done[v] = true
		st.memo[v] = r
	}
	return r
}

func (e *Bounds) tainted1(v ssa.Value, env *taintEnv, up int) ssa.Value {
	switch x := v.(type) {
	case *ssa.BinOp:
		switch x.Op {
		case token.ADD, token.SUB, token.MUL, token.QUO, token.REM, token.SHL, token.SHR, token.AND, token.OR, token.XOR:
			if s := e.tainted(x.X, env, up); s != nil {
				return s
			}
			return e.tainted(x.Y, env, up)
		}
	case *ssa.UnOp:
		switch x.Op {
		case token.SUB, token.XOR:
			return e.tainted(x.X, env, up)
		case token.MUL:
			switch a := x.X.(type) {
			case *ssa.Alloc, *ssa.FreeVar:
				vals, _ := StoresTo(a)
				for _, s := range vals {
					var senv *taintEnv
					if s.Parent() == x.Parent() {
						senv = env
					}
					if t := e.tainted(s, senv, up); t != nil {
						return t
					}
				}
			case *ssa.FieldAddr:
				if f := fieldVar(a.X.Type(), a.Field); f != nil {
					return e.taintedField(f, up)
				}
			}
		}
	case *ssa.Phi:
		for _, ed := range x.Edges {
			if s := e.tainted(ed, env, up); s != nil {
				return s
			}
		}
	case *ssa.Convert:
		return e.tainted(x.X, env, up)
	case *ssa.ChangeType:
		return e.tainted(x.X, env, up)
	case *ssa.Field:
		if f := fieldVar(x.X.Type(), x.Field); f != nil {
			return e.taintedField(f, up)
		}
	case *ssa.Parameter:
		return e.taintedParam(x, env, up)
	case *ssa.Call:
		return e.taintedCall(x, 0, env, up)
	case *ssa.Extract:
		if c, ok := x.Tuple.(*ssa.Call); ok {
			return e.taintedCall(c, x.Index, env, up)
		}
	}
	return nil
}

func (e *Bounds) taintedField(f *types.Var, up int) ssa.Value {
	st := e.taint
	if e.TaintFieldOK != nil && !e.TaintFieldOK(f) {
		return nil
	}
	switch st.fdone[f] {
	case 1:
		return st.fields[f]
	case 2:
		return nil
	}
	st.fdone[f] = 2
	e.buildIndex()
	for _, s := range e.fieldIdx[f] {
		if t := e.tainted(s.Val, nil, up); t != nil {
			st.fields[f] = t
			st.fdone[f] = 1
			return t
		}
	}
	st.fdone[f] = 1
	return nil
}

func (e *Bounds) taintedCall(c *ssa.Call, idx int, env *taintEnv, up int) ssa.Value {
	com := c.Common()
	switch builtinName(c) {
	case "len", "cap", "copy":
		return nil
	case "min", "max":
		for _, a := range com.Args {
			if s := e.tainted(a, env, up); s != nil {
				return s
			}
		}
		return nil
	case "":
	default:
		return nil
	}
	name := e.P.CalleeName(c)
	if taintSources[name] && idx == 0 {
		return c
	}
	if sizeLikeCallees[name] {
		return nil
	}
	switch name {
	case "math.Floor", "math.Ceil", "math.Trunc", "math.Round", "math.Abs", "math.Min", "math.Max", "math.Pow", "math.Mod":
		for _, a := range com.Args {
			if s := e.tainted(a, env, up); s != nil {
				return s
			}
		}
		return nil
	}
	f := com.StaticCallee()
	if f == nil {
		return nil
	}
	if isRawGetter(f) {
		return c
	}
	if f.Blocks == nil || !e.P.isOwn(f) {
		return nil
	}
	depth := 0
	if env != nil {
		depth = env.depth
	}
	if depth >= maxDepth {
		return nil
	}
	for p := env; p != nil; p = p.caller {
		if p.fn == f {
			return nil
		}
	}
	nenv := &taintEnv{fn: f, args: com.Args, caller: env, depth: depth + 1}
	for _, ret := range Returns(f) {
		if idx >= len(ret.Results) {
			continue
		}
		for _, rv := range ReturnOperand(ret, idx) {
			if rv == nil {
				continue
			}
			if s := e.tainted(rv, nenv, up); s != nil {
				return s
			}
		}
	}
	return nil
}

func (e *Bounds) taintedParam(p *ssa.Parameter, env *taintEnv, up int) ssa.Value {
	fn := p.Parent()
	idx := -1
	for i, q := range fn.Params {
		if q == p {
			idx = i
		}
	}
	if idx < 0 {
		return nil
	}
	for f := env; f != nil; f = f.caller {
		if f.fn == fn {
			if idx >= len(f.args) {
				return nil
			}
			return e.tainted(f.args[idx], f.caller, up)
		}
	}
	st := e.taint
	switch st.pdone[p] {
	case 1:
		return st.params[p]
	case 2:
		return nil
	}
	if up >= maxUp {
		return nil
	}
	st.pdone[p] = 2
	edges := e.P.RealCallers(fn)
	if len(edges) > 4*maxCaller {
		st.pdone[p] = 1
		return nil
	}
	for _, ed := range edges {
		if ed.Site == nil || ed.Caller == nil || ed.Caller.Func == nil {
			continue
		}
		com := ed.Site.Common()
		args := com.Args
		if com.IsInvoke() {
			args = append([]ssa.Value{com.Value}, com.Args...)
		}
		if idx >= len(args) || len(args) != len(fn.Params) {
			continue
		}
		if s := e.tainted(args[idx], nil, up+1); s != nil {
			st.params[p] = s
			st.pdone[p] = 1
			return s
		}
	}
	st.pdone[p] = 1
	return nil
}
