package core

import (
	"go/token"
	"go/types"
	"sort"
	"strings"

	"golang.org/x/tools/go/ssa"
)

// ---------------------------------------------------------------------------
// Concrete type-sets of interface values (DESIGN Appendix B.7)
//
// TypeSet is the set of dynamic types an interface-typed SSA value can hold:
// concrete types, the untyped nil interface ("nil"), or Top (unknown) together
// with the reason it is unknown.

const NilType = "nil"

type TypeSet struct {
	M      map[string]types.Type // key: types.TypeString(t, nil); NilType ↦ nil
	Top    bool
	TopWhy string
}

func newTS() *TypeSet { return &TypeSet{M: map[string]types.Type{}} }

func TypeKey(t types.Type) string { return types.TypeString(t, nil) }

func (s *TypeSet) add(t types.Type) bool {
	k := NilType
	if t != nil {
		k = TypeKey(t)
	}
	if _, ok := s.M[k]; ok {
		return false
	}
	s.M[k] = t
	return true
}

func (s *TypeSet) setTop(why string) bool {
	if s.Top {
		return false
	}
	s.Top, s.TopWhy = true, why
	return true
}

func (s *TypeSet) union(o *TypeSet) bool {
	ch := false
	if o.Top && s.setTop(o.TopWhy) {
		ch = true
	}
	for k, t := range o.M {
		if _, ok := s.M[k]; !ok {
			s.M[k] = t
			ch = true
		}
	}
	return ch
}

func (s *TypeSet) Clone() *TypeSet {
	n := newTS()
	n.union(s)
	return n
}

// Keys returns the member keys sorted.
func (s *TypeSet) Keys() []string {
	var out []string
	for k := range s.M {
		out = append(out, k)
	}
	sort.Strings(out)
	return out
}

func (s *TypeSet) String() string {
	ks := s.Keys()
	for i, k := range ks {
		ks[i] = shortTypeKey(k)
	}
	if s.Top {
		ks = append(ks, "⊤("+s.TopWhy+")")
	}
	return "{" + strings.Join(ks, ", ") + "}"
}

func shortTypeKey(k string) string {
	k = strings.ReplaceAll(k, ModPath+"/lib/", "")
	k = strings.ReplaceAll(k, "github.com/mithrandie/go-text/", "")
	return k
}

// Has reports membership of a concrete type (or nil for the nil interface).
func (s *TypeSet) Has(t types.Type) bool {
	k := NilType
	if t != nil {
		k = TypeKey(t)
	}
	_, ok := s.M[k]
	return ok
}

func (s *TypeSet) Remove(t types.Type) {
	k := NilType
	if t != nil {
		k = TypeKey(t)
	}
	delete(s.M, k)
}

// TypeSets computes type-sets with interprocedural result summaries (least
// fixpoint over the functions that are demanded).
type TypeSets struct {
	P     *Prog
	sum   map[tsKey]*TypeSet
	ord   []tsKey
	dirty bool
	// field summaries: "pkg.Type#i" ↦ union of everything stored into the field
	fsum    map[string]*TypeSet
	ford    []string
	fstores map[string][]*ssa.Store
	fescape map[string]string
	findex  bool
	// Narrow, if set, reports what the branch facts dominating `at` say about
	// the dynamic type of v (an exact type, or excluded types; a nil entry in
	// excl stands for the nil interface). It must not call back into Solve.
	Narrow func(v ssa.Value, at ssa.Instruction) (exact types.Type, hasExact bool, excl []types.Type)
}

// ofAt is Of narrowed by the branch facts at `at` (used for stored and returned values).
func (e *TypeSets) ofAt(v ssa.Value, at ssa.Instruction) *TypeSet {
	if e.Narrow == nil || at == nil {
		return e.Of(v, nil)
	}
	exact, has, excl := e.Narrow(v, at)
	if has {
		s := newTS()
		s.add(exact)
		return s
	}
	s := e.Of(v, nil)
	for _, t := range excl {
		s.Remove(t)
	}
	return s
}

type tsKey struct {
	fn  *ssa.Function
	idx int
}

func NewTypeSets(p *Prog) *TypeSets {
	return &TypeSets{P: p, sum: map[tsKey]*TypeSet{}, fsum: map[string]*TypeSet{}}
}

// fieldKey names field #idx of a named struct type ("" for unnamed structs).
func fieldKey(structPtrOrVal types.Type, idx int) (string, string) {
	n := NamedOf(structPtrOrVal)
	if n == "" {
		return "", ""
	}
	st := derefStruct(structPtrOrVal)
	if st == nil || idx >= st.NumFields() {
		return "", ""
	}
	return n + "#" + st.Field(idx).Name(), n + "." + st.Field(idx).Name()
}

// indexFields records, for every interface-typed field of a named struct, the
// values stored into it anywhere in csvq (composite literals are field stores
// in go/ssa) and whether its address escapes.
func (e *TypeSets) indexFields() {
	if e.findex {
		return
	}
	e.findex = true
	e.fstores = map[string][]*ssa.Store{}
	e.fescape = map[string]string{}
	for _, fn := range e.P.allCsvqFuncs() {
		for _, b := range fn.Blocks {
			for _, in := range b.Instrs {
				fa, ok := in.(*ssa.FieldAddr)
				if !ok {
					continue
				}
				k, _ := fieldKey(fa.X.Type(), fa.Field)
				if k == "" {
					continue
				}
				if pt, ok := fa.Type().Underlying().(*types.Pointer); !ok || !types.IsInterface(pt.Elem()) {
					continue
				}
				for _, r := range *fa.Referrers() {
					switch x := r.(type) {
					case *ssa.Store:
						if x.Addr == fa {
							e.fstores[k] = append(e.fstores[k], x)
						} else {
							e.fescape[k] = "its address is stored at " + e.P.InstrPos(x)
						}
					case *ssa.UnOp, *ssa.DebugRef:
					default:
						e.fescape[k] = "its address is used at " + e.P.InstrPos(r)
					}
				}
			}
		}
	}
}

// Field returns the (demand-driven) summary of a struct field.
func (e *TypeSets) Field(structType types.Type, idx int) *TypeSet {
	k, label := fieldKey(structType, idx)
	if k == "" {
		s := newTS()
		s.setTop("field of an unnamed struct")
		return s
	}
	if s, ok := e.fsum[k]; ok {
		return s
	}
	e.indexFields()
	s := newTS()
	e.fsum[k] = s
	e.ford = append(e.ford, k)
	e.dirty = true
	s.add(nil) // zero value of the struct
	if why, esc := e.fescape[k]; esc {
		s.setTop("field " + label + ": " + why)
	}
	if !strings.HasPrefix(k, "lib/") && !strings.HasPrefix(k, "main.") {
		s.setTop("field " + label + " of a type outside csvq")
	}
	return s
}

// Result returns the current summary of result #idx of fn (demanding it if new).
func (e *TypeSets) Result(fn *ssa.Function, idx int) *TypeSet {
	k := tsKey{fn, idx}
	if s, ok := e.sum[k]; ok {
		return s
	}
	s := newTS()
	e.sum[k] = s
	e.ord = append(e.ord, k)
	e.dirty = true
	if fn.Blocks == nil {
		s.setTop("result of " + e.P.FnRef(fn) + " (no source)")
		return s
	}
	return s
}

// Solve iterates the demanded summaries to the least fixpoint.
func (e *TypeSets) Solve() {
	for e.dirty {
		e.dirty = false
		for i := 0; i < len(e.ford); i++ {
			k := e.ford[i]
			s := e.fsum[k]
			for _, st := range e.fstores[k] {
				if s.union(e.ofAt(st.Val, st)) {
					e.dirty = true
				}
			}
		}
		for i := 0; i < len(e.ord); i++ {
			k := e.ord[i]
			if k.fn.Blocks == nil {
				continue
			}
			s := e.sum[k]
			rets := Returns(k.fn)
			for _, r := range rets {
				if k.idx >= len(r.Results) {
					continue
				}
				for _, v := range ReturnOperand(r, k.idx) {
					if v == nil {
						if s.add(nil) {
							e.dirty = true
						}
						continue
					}
					if s.union(e.ofAt(v, r)) {
						e.dirty = true
					}
				}
			}
		}
	}
}

// EdgeFilter restricts Phi nodes: only edges for which the filter returns true
// are followed (nil = all edges).
type EdgeFilter func(phi *ssa.Phi, edge int) bool

// Of returns the type-set of value v (which need not be interface-typed: a
// value of concrete type T has the set {T}).
func (e *TypeSets) Of(v ssa.Value, filter EdgeFilter) *TypeSet {
	out := newTS()
	e.of(v, out, map[ssa.Value]bool{}, filter)
	return out
}

func (e *TypeSets) of(v ssa.Value, out *TypeSet, seen map[ssa.Value]bool, filter EdgeFilter) {
	if v == nil || seen[v] {
		return
	}
	seen[v] = true
	if !types.IsInterface(v.Type()) {
		if _, isTuple := v.Type().(*types.Tuple); !isTuple {
			out.add(v.Type())
			return
		}
	}
	switch x := v.(type) {
	case *ssa.Const:
		if x.Value == nil {
			out.add(nil)
		} else {
			out.setTop("constant")
		}
	case *ssa.MakeInterface:
		out.add(x.X.Type())
	case *ssa.ChangeInterface:
		e.of(x.X, out, seen, filter)
	case *ssa.Phi:
		for i, ed := range x.Edges {
			if filter != nil && !filter(x, i) {
				continue
			}
			e.of(ed, out, seen, filter)
		}
	case *ssa.TypeAssert:
		// interface-to-interface assertion (the concrete case was handled above)
		sub := newTS()
		e.of(x.X, sub, seen, filter)
		out.union(sub)
	case *ssa.Extract:
		switch t := x.Tuple.(type) {
		case *ssa.Call:
			e.ofCall(t, x.Index, out)
		case *ssa.TypeAssert:
			// v, ok := y.(I): v is y's value or the nil interface
			sub := newTS()
			e.of(t.X, sub, seen, filter)
			out.union(sub)
			out.add(nil)
		default:
			out.setTop("tuple component of " + x.Tuple.Name())
		}
	case *ssa.Call:
		e.ofCall(x, 0, out)
	case *ssa.UnOp:
		if x.Op == token.MUL {
			switch c := x.X.(type) {
			case *ssa.Alloc, *ssa.FreeVar:
				vals, complete := StoresTo(c)
				if complete && len(vals) > 0 {
					for _, s := range vals {
						e.of(s, out, seen, filter)
					}
					if !storeDominates(c, x) {
						out.add(nil) // the cell may still hold its zero value
					}
					return
				}
				out.setTop("variable " + cellName(c) + " (not all stores visible)")
				return
			case *ssa.FieldAddr:
				out.union(e.Field(c.X.Type(), c.Field))
				return
			case *ssa.IndexAddr:
				out.setTop("element of " + types.TypeString(c.X.Type(), shortQual))
				return
			case *ssa.Global:
				out.setTop("global " + c.Name())
				return
			}
		}
		out.setTop("loaded value " + v.Name())
	case *ssa.Parameter:
		out.setTop("parameter " + x.Name())
	case *ssa.FreeVar:
		out.setTop("captured " + x.Name())
	case *ssa.Lookup:
		out.setTop("map/string element")
	case *ssa.Index:
		out.setTop("array element")
	case *ssa.Field:
		out.union(e.Field(x.X.Type(), x.Field))
	case *ssa.Next:
		out.setTop("range element")
	default:
		out.setTop("value " + v.Name())
	}
}

func shortQual(p *types.Package) string { return p.Name() }

func cellName(c ssa.Value) string {
	switch x := c.(type) {
	case *ssa.Alloc:
		if x.Comment != "" {
			return x.Comment
		}
	case *ssa.FreeVar:
		return x.Name()
	}
	return c.Name()
}

// storeDominates: some store to the cell in the function of `use` dominates it.
func storeDominates(cell ssa.Value, use ssa.Instruction) bool {
	refs := cell.Referrers()
	if refs == nil {
		return false
	}
	for _, r := range *refs {
		if st, ok := r.(*ssa.Store); ok && st.Addr == cell && st.Parent() == use.Parent() && Dominates(st, use) {
			return true
		}
	}
	return false
}

func (e *TypeSets) ofCall(c *ssa.Call, idx int, out *TypeSet) {
	if _, ok := c.Common().Value.(*ssa.Builtin); ok {
		out.setTop("builtin result")
		return
	}
	callees := e.P.Callees(c)
	if len(callees) == 0 {
		out.setTop("result of unresolved call " + e.P.CalleeName(c))
		return
	}
	for _, f := range callees {
		if f.Blocks == nil {
			out.setTop("result of " + e.P.FnRef(f) + " (no source)")
			continue
		}
		out.union(e.Result(f, idx))
	}
}

// Final is Of after solving every summary the value demands.
func (e *TypeSets) Final(v ssa.Value, filter EdgeFilter) *TypeSet {
	for {
		s := e.Of(v, filter)
		if !e.dirty {
			return s
		}
		e.Solve()
	}
}

// FinalResult is the solved summary of result #idx of fn.
func (e *TypeSets) FinalResult(fn *ssa.Function, idx int) *TypeSet {
	s := e.Result(fn, idx)
	if e.dirty {
		e.Solve()
	}
	return s
}

// StoreBetween exports storeBetween: may the cell at addr be overwritten on a
// path from `from` to `to`?
func StoreBetween(addr ssa.Value, from, to ssa.Instruction) bool {
	return storeBetween(addr, from, to)
}

// SameValue reports whether a and b denote the same run-time value at `at`:
// identical SSA values (looking through interface-to-interface conversions),
// equal field projections of the same value, or loads of the same cell with no
// store to it between the earlier load and `at`.
func SameValue(a, b ssa.Value, at ssa.Instruction) bool {
	a, b = stripIface(a), stripIface(b)
	if a == b {
		return true
	}
	if fa, ok := a.(*ssa.Field); ok {
		if fb, ok := b.(*ssa.Field); ok {
			return fa.Field == fb.Field && SameValue(fa.X, fb.X, at)
		}
		return false
	}
	if ia, ib := indexLoad(a), indexLoad(b); ia != nil && ib != nil {
		if !sameIndex(ia.Index, ib.Index) || !SameValue(ia.X, ib.X, at) {
			return false
		}
		first := a.(ssa.Instruction)
		if Dominates(b.(ssa.Instruction), first) {
			first = b.(ssa.Instruction)
		}
		return !elemStoreBetween(ia.X, first, at)
	}
	if SameCell(a, b) {
		first, ok := a.(ssa.Instruction)
		if !ok {
			return false
		}
		second, _ := b.(ssa.Instruction)
		// order the two loads: the one that dominates the other is the earlier
		if second != nil && Dominates(second, first) {
			first = second
		}
		return !storeBetween(Addr(a), first, at)
	}
	return false
}

func stripIface(v ssa.Value) ssa.Value {
	for {
		c, ok := v.(*ssa.ChangeInterface)
		if !ok {
			return v
		}
		v = c.X
	}
}

// Exported constructors/mutators for rules that assemble sets themselves.
func NewTypeSet() *TypeSet           { return newTS() }
func (s *TypeSet) Add(t types.Type)  { s.add(t) }
func (s *TypeSet) SetTop(why string) { s.setTop(why) }
func (s *TypeSet) Union(o *TypeSet)  { s.union(o) }

// indexLoad: v = *(&x[i]) — returns the IndexAddr.
func indexLoad(v ssa.Value) *ssa.IndexAddr {
	u, ok := v.(*ssa.UnOp)
	if !ok || u.Op != token.MUL {
		return nil
	}
	ia, _ := u.X.(*ssa.IndexAddr)
	return ia
}

func sameIndex(a, b ssa.Value) bool {
	if a == b {
		return true
	}
	x, ok1 := ConstInt(a)
	y, ok2 := ConstInt(b)
	return ok1 && ok2 && x == y
}

// elemStoreBetween: may an element of slice/array x be overwritten between
// `from` and `to`? (a store through an IndexAddr of the same slice variable, or
// a call that receives the slice)
func elemStoreBetween(x ssa.Value, from, to ssa.Instruction) bool {
	same := func(y ssa.Value) bool { return y == x || SameCell(y, x) }
	hit := false
	again := func(in ssa.Instruction) bool { return in == from }
	WalkFrom(from, func(in ssa.Instruction) bool {
		if in == to || in == from {
			return false
		}
		switch s := in.(type) {
		case *ssa.Store:
			if ia, ok := s.Addr.(*ssa.IndexAddr); ok && same(ia.X) && Reachable(in, to, again) {
				hit = true
			}
		case ssa.CallInstruction:
			if _, isB := s.Common().Value.(*ssa.Builtin); isB {
				break
			}
			if _, isDefer := in.(*ssa.Defer); isDefer {
				break
			}
			for _, a := range s.Common().Args {
				if same(a) && Reachable(in, to, again) {
					hit = true
				}
			}
		}
		return !hit
	})
	return hit
}

// IndexLoad exports indexLoad: v = *(&x[i]).
func IndexLoad(v ssa.Value) *ssa.IndexAddr { return indexLoad(stripIface(v)) }

// PhiLeaves returns the non-Phi values a value may be (through Phi nodes only).
func PhiLeaves(v ssa.Value) []ssa.Value { return phiLeaves(v, nil) }

// FinalAt is Final narrowed by the branch facts that dominate `at`.
func (e *TypeSets) FinalAt(v ssa.Value, at ssa.Instruction) *TypeSet {
	for {
		s := e.ofAt(v, at)
		if !e.dirty {
			return s
		}
		e.Solve()
	}
}
