package core

import (
	"go/constant"
	"go/token"
	"go/types"
	"strings"

	"golang.org/x/tools/go/ssa"
)

// ---------------------------------------------------------------------------
// Evaluation of one function under a hypothesis about one of its values
// (finite-domain table extraction, DESIGN E6 "table mode", used by E8c S3).
//
// A hypothesis fixes either the class of a string key (its value, and the value
// of strings.ToUpper of it) or the dynamic type of an interface value. Branch
// conditions that only depend on the hypothesis are decided, the CFG is pruned
// accordingly, and result type-sets are computed over the surviving paths.

const (
	HypStr = iota
	HypDyn
)

type Hypo struct {
	Kind int
	// HypStr: Raw is the string itself (nil: a string different from every
	// constant it is compared with), Upper is strings.ToUpper of it (nil: differs
	// from every constant that is compared with the upper-cased form).
	Raw, Upper *string
	// HypDyn: dynamic type of the interface value (nil = the nil interface).
	Dyn types.Type
	// IsBase tells whether an SSA value of the evaluated function denotes the
	// hypothesised value.
	IsBase func(v ssa.Value) bool
}

func (h *Hypo) Label() string {
	switch h.Kind {
	case HypStr:
		if h.Raw != nil {
			return "key \"" + *h.Raw + "\""
		}
		if h.Upper != nil {
			return "key ≈ \"" + *h.Upper + "\" (case-insensitively)"
		}
		return "any other key"
	default:
		if h.Dyn == nil {
			return "argument nil"
		}
		return "argument of type " + shortTypeKey(TypeKey(h.Dyn))
	}
}

// HypoEval is the pruned view of one function under one hypothesis.
type HypoEval struct {
	TS *TypeSets
	Fn *ssa.Function
	H  *Hypo
	// Extra decides further conditions (rule-specific); may be nil.
	Extra func(he *HypoEval, cond ssa.Value) (val, known bool)
	reach map[*ssa.BasicBlock]bool
}

func NewHypoEval(ts *TypeSets, fn *ssa.Function, h *Hypo, extra func(he *HypoEval, cond ssa.Value) (bool, bool)) *HypoEval {
	he := &HypoEval{TS: ts, Fn: fn, H: h, Extra: extra}
	he.run()
	return he
}

// IsToUpperOf: v is strings.ToUpper(arg); returns arg.
func IsToUpperOf(v ssa.Value) (ssa.Value, bool) {
	c, ok := v.(*ssa.Call)
	if !ok {
		return nil, false
	}
	f := c.Common().StaticCallee()
	if f == nil || f.Pkg == nil || f.Pkg.Pkg.Path() != "strings" || f.Name() != "ToUpper" || len(c.Call.Args) != 1 {
		return nil, false
	}
	return c.Call.Args[0], true
}

// StrCmpConst decomposes `v == "c"` / `v != "c"`.
func StrCmpConst(cond ssa.Value) (v ssa.Value, c string, neq, ok bool) {
	b, isB := cond.(*ssa.BinOp)
	if !isB || (b.Op != token.EQL && b.Op != token.NEQ) {
		return nil, "", false, false
	}
	if s, ok := ConstString(b.Y); ok {
		return b.X, s, b.Op == token.NEQ, true
	}
	if s, ok := ConstString(b.X); ok {
		return b.Y, s, b.Op == token.NEQ, true
	}
	return nil, "", false, false
}

// Cond decides a branch condition under the hypothesis.
func (he *HypoEval) Cond(cond ssa.Value) (val, known bool) {
	if u, ok := cond.(*ssa.UnOp); ok && u.Op == token.NOT {
		v, k := he.Cond(u.X)
		return !v, k
	}
	h := he.H
	switch h.Kind {
	case HypStr:
		if v, c, neq, ok := StrCmpConst(cond); ok {
			if h.IsBase(v) {
				eq := h.Raw != nil && *h.Raw == c
				return eq != neq, true
			}
			if arg, ok := IsToUpperOf(v); ok && h.IsBase(arg) {
				eq := h.Upper != nil && *h.Upper == c
				return eq != neq, true
			}
		}
	case HypDyn:
		if ex, ok := cond.(*ssa.Extract); ok && ex.Index == 1 {
			if ta, ok := ex.Tuple.(*ssa.TypeAssert); ok && ta.CommaOk && h.IsBase(stripIface(ta.X)) {
				if h.Dyn == nil {
					return false, true
				}
				if it, ok := ta.AssertedType.Underlying().(*types.Interface); ok && types.IsInterface(ta.AssertedType) {
					return types.Implements(h.Dyn, it), true
				}
				return types.Identical(h.Dyn, ta.AssertedType), true
			}
		}
		if y, neq, ok := NilCmp(cond); ok && h.IsBase(stripIface(y)) {
			isNil := h.Dyn == nil
			return isNil != neq, true
		}
	}
	if he.Extra != nil {
		return he.Extra(he, cond)
	}
	return false, false
}

func (he *HypoEval) run() {
	he.reach = map[*ssa.BasicBlock]bool{}
	if len(he.Fn.Blocks) == 0 {
		return
	}
	st := []*ssa.BasicBlock{he.Fn.Blocks[0]}
	he.reach[he.Fn.Blocks[0]] = true
	for len(st) > 0 {
		b := st[len(st)-1]
		st = st[:len(st)-1]
		for _, s := range he.liveSuccs(b) {
			if !he.reach[s] {
				he.reach[s] = true
				st = append(st, s)
			}
		}
	}
}

func (he *HypoEval) liveSuccs(b *ssa.BasicBlock) []*ssa.BasicBlock {
	if len(b.Instrs) > 0 && len(b.Succs) == 2 {
		if iff, ok := b.Instrs[len(b.Instrs)-1].(*ssa.If); ok {
			if v, known := he.Cond(iff.Cond); known {
				if v {
					return b.Succs[:1]
				}
				return b.Succs[1:]
			}
		}
	}
	return b.Succs
}

// Reachable: can the block execute under the hypothesis?
func (he *HypoEval) Reachable(b *ssa.BasicBlock) bool { return he.reach[b] }

// Filter keeps the Phi edges that arrive over a surviving CFG edge.
func (he *HypoEval) Filter() EdgeFilter {
	return func(phi *ssa.Phi, edge int) bool {
		if phi.Parent() != he.Fn {
			return true
		}
		b := phi.Block()
		if edge >= len(b.Preds) {
			return true
		}
		p := b.Preds[edge]
		if !he.reach[p] {
			return false
		}
		for _, s := range he.liveSuccs(p) {
			if s == b {
				return true
			}
		}
		return false
	}
}

// ResultSet is the type-set of result #idx over the surviving returns.
func (he *HypoEval) ResultSet(idx int) *TypeSet { return he.ResultSetWhere(idx, nil) }

// ResultSetWhere restricts ResultSet to the returns accepted by keep.
func (he *HypoEval) ResultSetWhere(idx int, keep func(*ssa.Return) bool) *TypeSet {
	out := newTS()
	f := he.Filter()
	for _, r := range Returns(he.Fn) {
		if !he.reach[r.Block()] || idx >= len(r.Results) {
			continue
		}
		if keep != nil && !keep(r) {
			continue
		}
		for _, v := range ReturnOperand(r, idx) {
			if v == nil {
				out.add(nil)
				continue
			}
			s := he.TS.Final(v, f)
			if he.TS.Narrow != nil {
				if exact, has, excl := he.TS.Narrow(v, r); has {
					s = newTS()
					s.add(exact)
				} else if len(excl) > 0 {
					s = s.Clone()
					for _, t := range excl {
						s.Remove(t)
					}
				}
			}
			out.union(s)
		}
	}
	return out
}

// ResultBool: the constant every surviving return yields for bool result #idx.
func (he *HypoEval) ResultBool(idx int) (val, known bool) {
	f := he.Filter()
	first := true
	for _, r := range Returns(he.Fn) {
		if !he.reach[r.Block()] || idx >= len(r.Results) {
			continue
		}
		for _, v := range ReturnOperand(r, idx) {
			if v == nil {
				return false, false
			}
			for _, leaf := range phiLeaves(v, f) {
				c, ok := leaf.(*ssa.Const)
				if !ok || c.Value == nil || c.Value.Kind() != constant.Bool {
					return false, false
				}
				b := constant.BoolVal(c.Value)
				if first {
					val, first = b, false
				} else if b != val {
					return false, false
				}
			}
		}
	}
	return val, !first
}

func phiLeaves(v ssa.Value, f EdgeFilter) []ssa.Value {
	var out []ssa.Value
	seen := map[ssa.Value]bool{}
	var walk func(v ssa.Value)
	walk = func(v ssa.Value) {
		if seen[v] {
			return
		}
		seen[v] = true
		if p, ok := v.(*ssa.Phi); ok {
			for i, e := range p.Edges {
				if f == nil || f(p, i) {
					walk(e)
				}
			}
			return
		}
		out = append(out, v)
	}
	walk(v)
	return out
}

// ---------------------------------------------------------------------------
// Carrying a hypothesis across a call

// ParamPath describes how a callee sees a value passed by the caller: as
// parameter #Index itself (Field < 0) or as field #Field of that (struct) parameter.
type ParamPath struct {
	Index int
	Field int
}

// ArgPath finds the argument of call c that carries the value for which isBase
// holds: the argument itself, or a struct literal one of whose fields was set to it.
func ArgPath(c ssa.CallInstruction, isBase func(ssa.Value) bool) (ParamPath, bool) {
	for j, a := range c.Common().Args {
		if isBase(stripIface(a)) {
			return ParamPath{j, -1}, true
		}
		// struct literal: a = *alloc, with &alloc.f = base
		if u, ok := a.(*ssa.UnOp); ok && u.Op == token.MUL {
			if al, ok := u.X.(*ssa.Alloc); ok {
				for _, r := range *al.Referrers() {
					fa, ok := r.(*ssa.FieldAddr)
					if !ok {
						continue
					}
					for _, r2 := range *fa.Referrers() {
						if st, ok := r2.(*ssa.Store); ok && st.Addr == fa && isBase(stripIface(st.Val)) {
							return ParamPath{j, fa.Field}, true
						}
					}
				}
			}
		}
	}
	return ParamPath{}, false
}

// IsParamPath builds the IsBase predicate of the callee for a ParamPath.
func IsParamPath(callee *ssa.Function, pp ParamPath) func(ssa.Value) bool {
	if pp.Index >= len(callee.Params) {
		return func(ssa.Value) bool { return false }
	}
	param := callee.Params[pp.Index]
	return func(v ssa.Value) bool {
		v = stripIface(v)
		if pp.Field < 0 {
			return v == param
		}
		switch x := v.(type) {
		case *ssa.Field:
			return x.X == param && x.Field == pp.Field
		case *ssa.UnOp:
			if x.Op != token.MUL {
				return false
			}
			fa, ok := x.X.(*ssa.FieldAddr)
			if !ok || fa.Field != pp.Field {
				return false
			}
			al, ok := fa.X.(*ssa.Alloc)
			if !ok {
				return false
			}
			// the cell is the spilled parameter: its only whole store is the
			// parameter, and the field is never overwritten
			whole := 0
			for _, r := range *al.Referrers() {
				switch y := r.(type) {
				case *ssa.Store:
					if y.Addr == al {
						if y.Val != param {
							return false
						}
						whole++
					}
				case *ssa.FieldAddr:
					if y.Field == pp.Field {
						for _, r2 := range *y.Referrers() {
							if st, ok := r2.(*ssa.Store); ok && st.Addr == y {
								return false
							}
						}
					}
				}
			}
			return whole == 1
		}
		return false
	}
}

// Translate carries hypothesis h of the caller into the static callee of c.
func Translate(c ssa.CallInstruction, h *Hypo) (*ssa.Function, *Hypo, bool) {
	callee := StaticCallee(c)
	if callee == nil || callee.Blocks == nil {
		return nil, nil, false
	}
	pp, ok := ArgPath(c, h.IsBase)
	if !ok {
		return nil, nil, false
	}
	nh := *h
	nh.IsBase = IsParamPath(callee, pp)
	return callee, &nh, true
}

// ---------------------------------------------------------------------------
// Small helpers for key domains

// StringComparisons collects, for the value denoted by isBase in fn, the
// constants it is compared with directly (raw) and through strings.ToUpper.
func StringComparisons(fn *ssa.Function, isBase func(ssa.Value) bool) (raw, upper []string) {
	for _, b := range fn.Blocks {
		for _, in := range b.Instrs {
			bo, ok := in.(*ssa.BinOp)
			if !ok {
				continue
			}
			v, c, _, ok := StrCmpConst(bo)
			if !ok {
				continue
			}
			if isBase(v) {
				raw = append(raw, c)
			} else if arg, ok := IsToUpperOf(v); ok && isBase(arg) {
				upper = append(upper, c)
			}
		}
	}
	return
}

// GlobalStringList returns the elements of a package-level []string that is
// initialised once with constants and never written again.
func (p *Prog) GlobalStringList(g *ssa.Global) ([]string, bool) {
	var out []string
	inits := 0
	for _, fn := range p.allCsvqFuncs() {
		for _, b := range fn.Blocks {
			for _, in := range b.Instrs {
				st, ok := in.(*ssa.Store)
				if !ok {
					continue
				}
				if st.Addr == g {
					inits++
					sl, ok := st.Val.(*ssa.Slice)
					if !ok || fn.Name() != "init" {
						return nil, false
					}
					al, ok := sl.X.(*ssa.Alloc)
					if !ok {
						return nil, false
					}
					for _, r := range *al.Referrers() {
						ia, ok := r.(*ssa.IndexAddr)
						if !ok {
							if r != sl {
								if _, isDbg := r.(*ssa.DebugRef); !isDbg {
									return nil, false
								}
							}
							continue
						}
						for _, r2 := range *ia.Referrers() {
							es, ok := r2.(*ssa.Store)
							if !ok || es.Addr != ia {
								return nil, false
							}
							s, ok := ConstString(es.Val)
							if !ok {
								return nil, false
							}
							out = append(out, s)
						}
					}
					continue
				}
				// element store through a load of the global
				if ia, ok := st.Addr.(*ssa.IndexAddr); ok {
					if u, ok := ia.X.(*ssa.UnOp); ok && u.Op == token.MUL && u.X == g {
						return nil, false
					}
				}
			}
		}
	}
	return out, inits == 1 && len(out) > 0
}

// allCsvqFuncs: source functions plus the synthetic package initialisers.
func (p *Prog) allCsvqFuncs() []*ssa.Function {
	out := append([]*ssa.Function(nil), p.srcFuncs...)
	for _, sp := range p.SSAPkgs {
		if f := sp.Func("init"); f != nil && f.Blocks != nil {
			out = append(out, f)
		}
	}
	return out
}

// AllCsvqFuncs exports allCsvqFuncs.
func (p *Prog) AllCsvqFuncs() []*ssa.Function { return p.allCsvqFuncs() }

var _ = strings.ToUpper
