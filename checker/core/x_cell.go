package core

import "golang.org/x/tools/go/ssa"

// RootCell maps a FreeVar back to the Alloc (or outermost FreeVar) it is bound to; other values are returned as they are.
func RootCell(c ssa.Value) ssa.Value { return rootCell(c) }
