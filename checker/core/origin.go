package core

import (
	"go/token"

	"golang.org/x/tools/go/ssa"
)

// StoresTo returns every value stored into the local cell `cell` (an Alloc, or
// a FreeVar) by its function and by closures that capture it. complete=false
// when the cell escapes in a way that cannot be followed (address passed to a
// call, stored somewhere).
func StoresTo(cell ssa.Value) (vals []ssa.Value, complete bool) {
	complete = true
	seen := map[ssa.Value]bool{}
	var visit func(c ssa.Value)
	visit = func(c ssa.Value) {
		if seen[c] {
			return
		}
		seen[c] = true
		refs := c.Referrers()
		if refs == nil {
			complete = false
			return
		}
		for _, r := range *refs {
			switch x := r.(type) {
			case *ssa.Store:
				if x.Addr == c {
					vals = append(vals, x.Val)
				} else {
					complete = false // address itself stored
				}
			case *ssa.UnOp, *ssa.DebugRef:
			case *ssa.MakeClosure:
				fn, _ := x.Fn.(*ssa.Function)
				for i, b := range x.Bindings {
					if b == c && fn != nil && i < len(fn.FreeVars) {
						visit(fn.FreeVars[i])
					}
				}
			case *ssa.FieldAddr, *ssa.IndexAddr:
				// partial writes into an aggregate cell: treated as unknown stores
				complete = false
			default:
				complete = false
			}
		}
	}
	// a FreeVar is shared with the parent's Alloc: start from the root cell
	visit(rootCell(cell))
	return
}

// rootCell maps a FreeVar back to the Alloc (or outer FreeVar) it was bound to.
func rootCell(c ssa.Value) ssa.Value {
	for {
		fv, ok := c.(*ssa.FreeVar)
		if !ok {
			return c
		}
		fn := fv.Parent()
		parent := fn.Parent()
		if parent == nil {
			return c
		}
		idx := -1
		for i, x := range fn.FreeVars {
			if x == fv {
				idx = i
			}
		}
		if idx < 0 {
			return c
		}
		var bound ssa.Value
		for _, b := range parent.Blocks {
			for _, in := range b.Instrs {
				if mc, ok := in.(*ssa.MakeClosure); ok && mc.Fn == fn && idx < len(mc.Bindings) {
					bound = mc.Bindings[idx]
				}
			}
		}
		if bound == nil {
			return c
		}
		c = bound
	}
}

// Origins expands v to the set of values it may be, looking through Phi,
// interface/type conversions, type assertions, slicing (keepSlice), and loads
// of local cells whose stores are all visible. Leaves are calls, parameters,
// constants, allocations, field/element loads, etc.
func Origins(v ssa.Value, throughSlice bool) []ssa.Value {
	var out []ssa.Value
	seen := map[ssa.Value]bool{}
	var walk func(v ssa.Value)
	walk = func(v ssa.Value) {
		if v == nil || seen[v] {
			return
		}
		seen[v] = true
		switch x := v.(type) {
		case *ssa.Phi:
			for _, e := range x.Edges {
				walk(e)
			}
		case *ssa.ChangeInterface:
			walk(x.X)
		case *ssa.MakeInterface:
			walk(x.X)
		case *ssa.ChangeType:
			walk(x.X)
		case *ssa.TypeAssert:
			walk(x.X)
		case *ssa.Slice:
			if throughSlice {
				walk(x.X)
			} else {
				out = append(out, v)
			}
		case *ssa.UnOp:
			if x.Op == token.MUL {
				switch c := x.X.(type) {
				case *ssa.Alloc, *ssa.FreeVar:
					vals, complete := StoresTo(c)
					if complete && len(vals) > 0 {
						for _, s := range vals {
							walk(s)
						}
						return
					}
				}
			}
			out = append(out, v)
		default:
			out = append(out, v)
		}
	}
	walk(v)
	return out
}

// ExtractOf returns (call, index) when v is result #index of a multi-value call.
func ExtractOf(v ssa.Value) (*ssa.Call, int, bool) {
	if e, ok := v.(*ssa.Extract); ok {
		if c, ok := e.Tuple.(*ssa.Call); ok {
			return c, e.Index, true
		}
	}
	if c, ok := v.(*ssa.Call); ok {
		return c, 0, true
	}
	return nil, 0, false
}

// ReturnedValues lists, per result index, the values fn may return. Functions
// with defer spill results into cells; those are read through their stores.
func ReturnedValues(fn *ssa.Function, idx int) []ssa.Value {
	var out []ssa.Value
	for _, r := range Returns(fn) {
		if idx < len(r.Results) {
			out = append(out, Origins(r.Results[idx], false)...)
		}
	}
	return out
}
