package core

// Premises for the interval engine that a rule establishes by a side condition
// of its own (R-ERR-23: a syntax-tree field that only ever receives the Atoi of
// an INTEGER token is not negative).

import (
	"go/types"
	"sort"

	"golang.org/x/tools/go/ssa"
)

// PremiseField fixes the abstract value of field f for kind k. The caller has
// checked the side condition that makes it true; note goes into Notes.
func (e *Bounds) PremiseField(f *types.Var, k Kind, a AV, note string) {
	e.buildIndex()
	e.fieldMemo[bndFieldKey{f, k}] = a
	e.Notes[note] = true
}

// StoredFields lists the struct fields that have at least one explicit store in
// csvq, ordered by position of declaration.
func (e *Bounds) StoredFields() []*types.Var {
	e.buildIndex()
	out := make([]*types.Var, 0, len(e.fieldIdx))
	for f := range e.fieldIdx {
		out = append(out, f)
	}
	sort.Slice(out, func(i, j int) bool {
		if out[i].Pos() != out[j].Pos() {
			return out[i].Pos() < out[j].Pos()
		}
		return out[i].Name() < out[j].Name()
	})
	return out
}

// FieldStores returns the explicit stores to field f.
func (e *Bounds) FieldStores(f *types.Var) []*ssa.Store {
	e.buildIndex()
	return e.fieldIdx[f]
}

// FieldVarOf resolves the field a FieldAddr / Field instruction selects.
func FieldVarOf(v ssa.Value) *types.Var {
	switch x := v.(type) {
	case *ssa.FieldAddr:
		return fieldVar(x.X.Type(), x.Field)
	case *ssa.Field:
		return fieldVar(x.X.Type(), x.Field)
	}
	return nil
}

// MaxFieldStores: a field with more explicit stores gets no claim from Bounds.field (Top).
const MaxFieldStores = maxStores

