package core

import (
	"go/constant"
	"go/token"
	"go/types"

	"golang.org/x/tools/go/ssa"
)

// ---------------------------------------------------------------------------
// Evaluation of one function under the hypothesis "this parameter is nil"
// (conditional constant propagation restricted to what follows from it).
//
// What is known under the hypothesis: the parameter itself (nil), re-slices and
// type changes of it (nil), len / cap of it (0), and every integer / boolean
// expression over those and constants — also when the expression was hoisted
// into a local, merged by `&&` / `||` (a Phi of the surviving edges) or negated.
// Branches on such a value keep one successor; the blocks that survive are the
// ones that can execute when the function is called with nil for the parameter.
//
// The iteration is pessimistic (it starts from "every block can execute" and
// only removes edges whose condition was evaluated from known values), so each
// intermediate state over-approximates the executions and the result is sound;
// an expression that is not understood is unknown and prunes nothing.

type nilArgVal struct {
	kind int // 0 unknown, 1 nil, 2 int, 3 bool
	i    int64
	b    bool
}

type NilArgEval struct {
	Fn    *ssa.Function
	Param *ssa.Parameter
	reach map[*ssa.BasicBlock]bool
	memo  map[ssa.Value]nilArgVal
	busy  map[ssa.Value]bool
}

func NewNilArgEval(fn *ssa.Function, param *ssa.Parameter) *NilArgEval {
	e := &NilArgEval{Fn: fn, Param: param, reach: map[*ssa.BasicBlock]bool{}}
	if len(fn.Blocks) == 0 {
		return e
	}
	for _, b := range fn.Blocks {
		e.reach[b] = true
	}
	for round := 0; round <= len(fn.Blocks); round++ {
		e.memo = map[ssa.Value]nilArgVal{}
		e.busy = map[ssa.Value]bool{}
		next := map[*ssa.BasicBlock]bool{fn.Blocks[0]: true}
		st := []*ssa.BasicBlock{fn.Blocks[0]}
		for len(st) > 0 {
			b := st[len(st)-1]
			st = st[:len(st)-1]
			for _, s := range b.Succs {
				if e.reach[s] && e.liveEdge(b, s) && !next[s] {
					next[s] = true
					st = append(st, s)
				}
			}
		}
		same := len(next) == len(e.reach)
		e.reach = next
		if same {
			break
		}
	}
	e.memo = map[ssa.Value]nilArgVal{}
	e.busy = map[ssa.Value]bool{}
	return e
}

// Reachable: can the block execute when the parameter is nil?
func (e *NilArgEval) Reachable(b *ssa.BasicBlock) bool { return e.reach[b] }

// LiveEdge: can control pass from `from` to `to` when the parameter is nil?
func (e *NilArgEval) LiveEdge(from, to *ssa.BasicBlock) bool {
	return e.reach[from] && e.liveEdge(from, to)
}

func (e *NilArgEval) liveEdge(from, to *ssa.BasicBlock) bool {
	if len(from.Instrs) == 0 || len(from.Succs) != 2 {
		return true
	}
	iff, ok := from.Instrs[len(from.Instrs)-1].(*ssa.If)
	if !ok {
		return true
	}
	if from.Succs[0] == from.Succs[1] {
		return true
	}
	v := e.eval(iff.Cond)
	if v.kind != 3 {
		return true
	}
	if v.b {
		return to == from.Succs[0]
	}
	return to == from.Succs[1]
}

// Filter keeps the Phi edges that arrive over a surviving CFG edge.
func (e *NilArgEval) Filter() EdgeFilter {
	return func(phi *ssa.Phi, edge int) bool {
		if phi.Parent() != e.Fn {
			return true
		}
		b := phi.Block()
		if edge >= len(b.Preds) {
			return true
		}
		return e.LiveEdge(b.Preds[edge], b)
	}
}

// Leaves resolves v through the Phi edges that survive.
func (e *NilArgEval) Leaves(v ssa.Value) []ssa.Value { return phiLeaves(v, e.Filter()) }

// CondKnown: the value of a boolean expression under the hypothesis.
func (e *NilArgEval) CondKnown(cond ssa.Value) (val, known bool) {
	v := e.eval(cond)
	return v.b, v.kind == 3
}

func nilable(t types.Type) bool {
	switch t.Underlying().(type) {
	case *types.Slice, *types.Map, *types.Pointer, *types.Chan, *types.Signature, *types.Interface:
		return true
	}
	return false
}

func lenOfNilIsZero(t types.Type) bool {
	switch t.Underlying().(type) {
	case *types.Slice, *types.Map, *types.Chan:
		return true
	}
	return false
}

func (e *NilArgEval) eval(v ssa.Value) nilArgVal {
	if v == ssa.Value(e.Param) {
		return nilArgVal{kind: 1}
	}
	if r, ok := e.memo[v]; ok {
		return r
	}
	if e.busy[v] {
		return nilArgVal{}
	}
	e.busy[v] = true
	r := e.eval1(v)
	delete(e.busy, v)
	e.memo[v] = r
	return r
}

func (e *NilArgEval) eval1(v ssa.Value) nilArgVal {
	switch x := v.(type) {
	case *ssa.Const:
		if x.Value == nil {
			if nilable(x.Type()) {
				return nilArgVal{kind: 1}
			}
			return nilArgVal{}
		}
		switch x.Value.Kind() {
		case constant.Bool:
			return nilArgVal{kind: 3, b: constant.BoolVal(x.Value)}
		case constant.Int:
			if i, exact := constant.Int64Val(x.Value); exact {
				return nilArgVal{kind: 2, i: i}
			}
		}
	case *ssa.ChangeType:
		if a := e.eval(x.X); a.kind == 1 {
			return a
		}
	case *ssa.Slice:
		// a re-slice of a nil slice that does not panic is nil
		if _, isSlice := x.X.Type().Underlying().(*types.Slice); isSlice {
			if a := e.eval(x.X); a.kind == 1 {
				return a
			}
		}
	case *ssa.Call:
		if b, ok := x.Call.Value.(*ssa.Builtin); ok && (b.Name() == "len" || b.Name() == "cap") && len(x.Call.Args) == 1 {
			if a := e.eval(x.Call.Args[0]); a.kind == 1 && lenOfNilIsZero(x.Call.Args[0].Type()) {
				return nilArgVal{kind: 2, i: 0}
			}
		}
	case *ssa.UnOp:
		a := e.eval(x.X)
		switch {
		case x.Op == token.NOT && a.kind == 3:
			return nilArgVal{kind: 3, b: !a.b}
		case x.Op == token.SUB && a.kind == 2 && a.i != -a.i:
			return nilArgVal{kind: 2, i: -a.i}
		}
	case *ssa.BinOp:
		a, b := e.eval(x.X), e.eval(x.Y)
		if a.kind == 0 || b.kind == 0 || a.kind != b.kind {
			return nilArgVal{}
		}
		switch a.kind {
		case 1:
			switch x.Op {
			case token.EQL:
				return nilArgVal{kind: 3, b: true}
			case token.NEQ:
				return nilArgVal{kind: 3, b: false}
			}
		case 2:
			switch x.Op {
			case token.EQL:
				return nilArgVal{kind: 3, b: a.i == b.i}
			case token.NEQ:
				return nilArgVal{kind: 3, b: a.i != b.i}
			case token.LSS:
				return nilArgVal{kind: 3, b: a.i < b.i}
			case token.LEQ:
				return nilArgVal{kind: 3, b: a.i <= b.i}
			case token.GTR:
				return nilArgVal{kind: 3, b: a.i > b.i}
			case token.GEQ:
				return nilArgVal{kind: 3, b: a.i >= b.i}
			case token.ADD, token.SUB:
				// small values only: no wrap-around to reason about
				const lim = 1 << 30
				if a.i > -lim && a.i < lim && b.i > -lim && b.i < lim {
					if x.Op == token.ADD {
						return nilArgVal{kind: 2, i: a.i + b.i}
					}
					return nilArgVal{kind: 2, i: a.i - b.i}
				}
			}
		case 3:
			switch x.Op {
			case token.EQL:
				return nilArgVal{kind: 3, b: a.b == b.b}
			case token.NEQ:
				return nilArgVal{kind: 3, b: a.b != b.b}
			}
		}
	case *ssa.Phi:
		blk := x.Block()
		var out nilArgVal
		n := 0
		for i, ed := range x.Edges {
			if i >= len(blk.Preds) {
				return nilArgVal{}
			}
			p := blk.Preds[i]
			if !e.reach[p] || !e.liveEdge(p, blk) {
				continue
			}
			a := e.eval(ed)
			if a.kind == 0 {
				return nilArgVal{}
			}
			if n > 0 && a != out {
				return nilArgVal{}
			}
			out = a
			n++
		}
		if n > 0 {
			return out
		}
	}
	return nilArgVal{}
}
