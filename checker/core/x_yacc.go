package core

// Engine E16, part 1: a reader for the goyacc grammar lib/parser/parser.y. It yields the
// productions (left side, right-side symbols, line range of the semantic action) and the
// declared union slot of every symbol. Nothing is matched against text: the file is
// tokenised as a yacc grammar (identifiers, character literals, `:` `|` `;`, `%prec`,
// brace-balanced actions with Go strings, runes and comments skipped).

import (
	"fmt"
	"os"
	"path/filepath"
	"strings"
)

// YaccProd is one production.
type YaccProd struct {
	LHS       string
	RHS       []string // symbol names; character literals keep their quotes
	HasAction bool
	ActFrom   int // first line of the action's braces (1-based)
	ActTo     int // last line of the action's braces
	Line      int // line of the first right-side symbol (or of the ':' / '|')
}

// YaccGrammar is the result of ReadYacc.
type YaccGrammar struct {
	File     string
	Slot     map[string]string // symbol → union slot (from %type / %token)
	SlotType map[string]string // union slot → Go type text
	Prods    []*YaccProd
	ByLHS    map[string][]*YaccProd
}

type yTok struct {
	kind string // id, char, punct, action, directive, tag
	text string
	line int
	to   int
}

func yaccTokens(src string, startLine int) ([]yTok, error) {
	var out []yTok
	line := startLine
	i := 0
	n := len(src)
	isId := func(c byte) bool {
		return c == '_' || c == '.' || (c >= 'a' && c <= 'z') || (c >= 'A' && c <= 'Z') || (c >= '0' && c <= '9')
	}
	for i < n {
		c := src[i]
		switch {
		case c == '\n':
			line++
			i++
		case c == ' ' || c == '\t' || c == '\r':
			i++
		case c == '/' && i+1 < n && src[i+1] == '/':
			for i < n && src[i] != '\n' {
				i++
			}
		case c == '/' && i+1 < n && src[i+1] == '*':
			i += 2
			for i+1 < n && !(src[i] == '*' && src[i+1] == '/') {
				if src[i] == '\n' {
					line++
				}
				i++
			}
			i += 2
		case c == '\'':
			j := i + 1
			for j < n && src[j] != '\'' {
				if src[j] == '\\' {
					j++
				}
				j++
			}
			out = append(out, yTok{"char", src[i : j+1], line, line})
			i = j + 1
		case c == '{':
			from := line
			depth := 0
			j := i
			for j < n {
				ch := src[j]
				switch {
				case ch == '\n':
					line++
					j++
				case ch == '{':
					depth++
					j++
				case ch == '}':
					depth--
					j++
					if depth == 0 {
						goto done
					}
				case ch == '"':
					j++
					for j < n && src[j] != '"' {
						if src[j] == '\\' {
							j++
						}
						if src[j] == '\n' {
							line++
						}
						j++
					}
					j++
				case ch == '`':
					j++
					for j < n && src[j] != '`' {
						if src[j] == '\n' {
							line++
						}
						j++
					}
					j++
				case ch == '\'':
					j++
					for j < n && src[j] != '\'' {
						if src[j] == '\\' {
							j++
						}
						j++
					}
					j++
				case ch == '/' && j+1 < n && src[j+1] == '/':
					for j < n && src[j] != '\n' {
						j++
					}
				case ch == '/' && j+1 < n && src[j+1] == '*':
					j += 2
					for j+1 < n && !(src[j] == '*' && src[j+1] == '/') {
						if src[j] == '\n' {
							line++
						}
						j++
					}
					j += 2
				default:
					j++
				}
			}
			return nil, fmt.Errorf("unbalanced action starting at line %d", from)
		done:
			out = append(out, yTok{"action", src[i:j], from, line})
			i = j
		case c == '%':
			j := i + 1
			for j < n && isId(src[j]) {
				j++
			}
			out = append(out, yTok{"directive", src[i:j], line, line})
			i = j
		case c == '<':
			j := i + 1
			for j < n && src[j] != '>' {
				j++
			}
			out = append(out, yTok{"tag", src[i+1 : j], line, line})
			i = j + 1
		case c == ':' || c == '|' || c == ';':
			out = append(out, yTok{"punct", string(c), line, line})
			i++
		case isId(c):
			j := i
			for j < n && isId(src[j]) {
				j++
			}
			out = append(out, yTok{"id", src[i:j], line, line})
			i = j
		default:
			return nil, fmt.Errorf("unexpected character %q at line %d", c, line)
		}
	}
	return out, nil
}

// ReadYacc reads <repo>/<rel> (a goyacc grammar).
func ReadYacc(repo, rel string) (*YaccGrammar, error) {
	path := filepath.Join(repo, rel)
	data, err := os.ReadFile(path)
	if err != nil {
		return nil, err
	}
	src := string(data)
	g := &YaccGrammar{File: path, Slot: map[string]string{}, SlotType: map[string]string{}, ByLHS: map[string][]*YaccProd{}}
	// sections
	first := strings.Index(src, "\n%%")
	if first < 0 {
		return nil, fmt.Errorf("no %%%% in %s", rel)
	}
	decl := src[:first+1]
	rest := src[first+3:]
	restLine := strings.Count(src[:first+3], "\n") + 1
	second := strings.Index(rest, "\n%%")
	rules := rest
	if second >= 0 {
		rules = rest[:second+1]
	}
	// declarations: skip %{ … %} ; read %union, %type, %token
	if a := strings.Index(decl, "%{"); a >= 0 {
		if b := strings.Index(decl, "%}"); b > a {
			pad := strings.Repeat("\n", strings.Count(decl[a:b+2], "\n"))
			decl = decl[:a] + pad + decl[b+2:]
		}
	}
	if u := strings.Index(decl, "%union"); u >= 0 {
		a := strings.Index(decl[u:], "{")
		b := strings.Index(decl[u:], "}")
		if a < 0 || b < a {
			return nil, fmt.Errorf("malformed %%union")
		}
		for _, ln := range strings.Split(decl[u+a+1:u+b], "\n") {
			f := strings.Fields(ln)
			if len(f) >= 2 {
				g.SlotType[f[0]] = strings.Join(f[1:], " ")
			}
		}
		pad := strings.Repeat("\n", strings.Count(decl[u:u+b+1], "\n"))
		decl = decl[:u] + pad + decl[u+b+1:]
	}
	dt, err := yaccTokens(decl, 1)
	if err != nil {
		return nil, err
	}
	for i := 0; i < len(dt); i++ {
		if dt[i].kind != "directive" {
			continue
		}
		switch dt[i].text {
		case "%type", "%token", "%left", "%right", "%nonassoc":
			tag := ""
			j := i + 1
			if j < len(dt) && dt[j].kind == "tag" {
				tag = dt[j].text
				j++
			}
			for ; j < len(dt) && (dt[j].kind == "id" || dt[j].kind == "char"); j++ {
				if tag != "" {
					g.Slot[dt[j].text] = tag
				}
			}
			i = j - 1
		}
	}
	rt, err := yaccTokens(rules, restLine)
	if err != nil {
		return nil, err
	}
	i := 0
	for i < len(rt) {
		if rt[i].kind != "id" || i+1 >= len(rt) || rt[i+1].text != ":" {
			return nil, fmt.Errorf("rule expected at line %d of %s (got %q)", rt[i].line, rel, rt[i].text)
		}
		lhs := rt[i].text
		i += 2
		cur := &YaccProd{LHS: lhs, Line: rt[i-1].line}
		flush := func() {
			g.Prods = append(g.Prods, cur)
			g.ByLHS[lhs] = append(g.ByLHS[lhs], cur)
		}
		for i < len(rt) {
			t := rt[i]
			if t.kind == "id" && i+1 < len(rt) && rt[i+1].text == ":" {
				break // next rule
			}
			switch {
			case t.kind == "punct" && t.text == "|":
				flush()
				cur = &YaccProd{LHS: lhs, Line: t.line}
			case t.kind == "punct" && t.text == ";":
			case t.kind == "directive" && t.text == "%prec":
				i++ // skip the precedence symbol
			case t.kind == "action":
				if cur.HasAction {
					return nil, fmt.Errorf("two actions in one production at line %d (mid-rule actions are not supported)", t.line)
				}
				cur.HasAction, cur.ActFrom, cur.ActTo = true, t.line, t.to
			case t.kind == "id" || t.kind == "char":
				if cur.HasAction {
					return nil, fmt.Errorf("symbol after an action at line %d (mid-rule actions are not supported)", t.line)
				}
				if len(cur.RHS) == 0 {
					cur.Line = t.line
				}
				cur.RHS = append(cur.RHS, t.text)
			default:
				return nil, fmt.Errorf("unexpected %s %q at line %d", t.kind, t.text, t.line)
			}
			i++
		}
		flush()
	}
	return g, nil
}

// ProdAtLine returns the production whose action covers the line.
func (g *YaccGrammar) ProdAtLine(line int) *YaccProd {
	for _, p := range g.Prods {
		if p.HasAction && p.ActFrom <= line && line <= p.ActTo {
			return p
		}
	}
	return nil
}
