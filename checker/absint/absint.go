// Package absint is engine E6 of DESIGN.md: a finite-domain abstract
// interpreter over go/ssa. A function is executed on abstract inputs; every
// condition it cannot decide from the abstract state becomes a *decision* that
// is enumerated exhaustively (all worlds), with decisions memoised per world so
// that the same question gets the same answer everywhere in that world (also
// across several evaluations, e.g. f(a,b) and f(b,a)).
//
// Abstract values:
//   - concrete constants (ints, bools, strings, enum members)
//   - opaque symbols ("A.Integer", "ToFloat(p1)") with a Go type
//   - objects (pointer to an opaque struct; fields are symbols "<obj>.<field>")
//   - concrete slices of abstract values, tuples
//
// Ordering questions between two opaque scalars (==, <, > …) are answered by
// one three-valued decision per unordered pair (lt/eq/gt), so the answers are
// mutually consistent; floats additionally have a NaN decision per symbol.
package absint

import (
	"fmt"
	"go/constant"
	"go/token"
	"go/types"
	"sort"
	"strings"

	"golang.org/x/tools/go/ssa"
)

type Kind int

const (
	KConst Kind = iota
	KSym
	KObj   // pointer to opaque struct (or opaque struct value)
	KSlice // concrete slice
	KTuple
	KNil
	KFunc
)

type Val struct {
	K     Kind
	C     constant.Value // KConst
	Sym   string         // KSym / KObj
	Neg   bool           // KSym of bool type: negated
	T     types.Type
	Elems []Val         // KSlice / KTuple
	Fn    *ssa.Function // KFunc
	Bind  []Val         // closure bindings
}

func Const(c constant.Value, t types.Type) Val { return Val{K: KConst, C: c, T: t} }
func Int(i int64) Val                           { return Val{K: KConst, C: constant.MakeInt64(i), T: types.Typ[types.Int]} }
func Bool(b bool) Val                           { return Val{K: KConst, C: constant.MakeBool(b), T: types.Typ[types.Bool]} }
func Sym(name string, t types.Type) Val         { return Val{K: KSym, Sym: name, T: t} }
func Obj(name string, t types.Type) Val         { return Val{K: KObj, Sym: name, T: t} }
func Slice(elems ...Val) Val                    { return Val{K: KSlice, Elems: elems} }
func Nil(t types.Type) Val                      { return Val{K: KNil, T: t} }

func (v Val) String() string {
	switch v.K {
	case KConst:
		return v.C.ExactString()
	case KSym:
		if v.Neg {
			return "!" + v.Sym
		}
		return v.Sym
	case KObj:
		return "&" + v.Sym
	case KNil:
		return "nil"
	case KSlice, KTuple:
		var p []string
		for _, e := range v.Elems {
			p = append(p, e.String())
		}
		return "[" + strings.Join(p, ",") + "]"
	case KFunc:
		return "func " + v.Fn.Name()
	}
	return "?"
}

func (v Val) IsConst() bool { return v.K == KConst }

func (v Val) BoolVal() (bool, bool) {
	if v.K == KConst && v.C.Kind() == constant.Bool {
		return constant.BoolVal(v.C), true
	}
	return false, false
}

func (v Val) IntVal() (int64, bool) {
	if v.K == KConst && v.C.Kind() == constant.Int {
		i, ok := constant.Int64Val(v.C)
		return i, ok
	}
	return 0, false
}

// ---------------------------------------------------------------------------
// Worlds: exhaustive enumeration of decisions

type decision struct {
	key    string
	n      int
	chosen int
}

// World is one complete assignment of answers to the decisions that were asked.
type World struct {
	prefix []int
	asked  []decision
	memo   map[string]int
	Steps  int
}

// Choose answers decision `key` with a value in [0,n); the same key always gets
// the same answer within one world.
func (w *World) Choose(key string, n int) int {
	if v, ok := w.memo[key]; ok {
		return v
	}
	pos := len(w.asked)
	c := 0
	if pos < len(w.prefix) {
		c = w.prefix[pos]
	}
	w.asked = append(w.asked, decision{key, n, c})
	w.memo[key] = c
	return c
}

// Assume fixes the answer of a decision for this world before the code asks it
// (the decision is then neither enumerated nor listed by Asked). For atoms the
// caller has already determined by its own enumeration, e.g. the dynamic type
// of an operand whose class is chosen by the rule.
func (w *World) Assume(key string, v int) { w.memo[key] = v }

// Asked returns the decisions in the order they were first asked, as "key=answer".
func (w *World) Asked() []string {
	var out []string
	for _, d := range w.asked {
		out = append(out, fmt.Sprintf("%s=%d", d.key, d.chosen))
	}
	return out
}

// Get returns the answer given to a key in this world (-1 if never asked).
func (w *World) Get(key string) int {
	if v, ok := w.memo[key]; ok {
		return v
	}
	return -1
}

// Keys returns the decision keys in the order asked.
func (w *World) Keys() []string {
	var out []string
	for _, d := range w.asked {
		out = append(out, d.key)
	}
	return out
}

// Enumerate runs body once per world until every combination of answers to the
// decisions it asks has been explored. Returns the number of worlds.
func Enumerate(limit int, body func(w *World)) (int, error) {
	var prefix []int
	n := 0
	for {
		w := &World{prefix: prefix, memo: map[string]int{}}
		body(w)
		n++
		if n > limit {
			return n, fmt.Errorf("more than %d worlds", limit)
		}
		// next prefix: increment the last decision that can still grow
		i := len(w.asked) - 1
		for i >= 0 && w.asked[i].chosen+1 >= w.asked[i].n {
			i--
		}
		if i < 0 {
			return n, nil
		}
		prefix = make([]int, i+1)
		for j := 0; j < i; j++ {
			prefix[j] = w.asked[j].chosen
		}
		prefix[i] = w.asked[i].chosen + 1
	}
}

// ---------------------------------------------------------------------------
// Interpreter

// Model replaces a call: return (result, true) to handle it.
type Model func(it *Interp, call ssa.CallInstruction, args []Val) (Val, bool)

type Interp struct {
	W *World
	// Name resolves a callee to the name used in Models / Inline.
	Name func(c ssa.CallInstruction) string
	// Models by callee name.
	Models map[string]Model
	// Inline: callee names (or "*" prefix match via InlinePred) that are
	// executed rather than treated as opaque.
	InlinePred func(f *ssa.Function) bool
	// EnumTypes: named integer types whose opaque values are concretised at once
	// by choosing among the type's declared constants.
	EnumConsts func(t types.Type) []*types.Const
	// Symmetric call names: argument order is irrelevant for the result symbol.
	Symmetric map[string]bool
	// AtomKey canonicalises decision keys (merge atoms the rule knows to be equal).
	AtomKey func(string) string
	// OnCall is told about every call executed or skipped (for marking).
	OnCall func(name string, call ssa.CallInstruction, args []Val)
	// FieldInit supplies the value of a field of an opaque object the first time
	// it is read (return ok=false for the default: an opaque symbol).
	FieldInit func(obj string, field string, t types.Type) (Val, bool)

	// ConcreteSlices (opt-in, so that rules written before it keep their tables):
	// make([]T, n) with a concrete n yields a concrete, mutable slice of n zero
	// values (element stores through IndexAddr are seen by every holder of the
	// slice, also inside inlined callees); append on concrete slices yields a
	// new concrete slice (always a copy: aliasing through spare capacity is not
	// modelled); x[:] of a pointer to an array with stored elements (the
	// variadic argument array of append) is a concrete slice.
	ConcreteSlices bool

	// OnStore (optional) is told about every store through a computed address
	// (field, element, pointer — not the local cells of a frame): the store, the
	// abstract address and the value stored.
	OnStore func(st *ssa.Store, addr Val, val Val)
	// Unbound (optional) supplies the value of an SSA value that has no binding
	// in the frame — the values defined outside the region executed by RunRegion
	// (loop indices, values computed before the loop). For an *ssa.Alloc of the
	// enclosing function it answers with the content of the cell.
	Unbound func(v ssa.Value) (Val, bool)
	// Fixed (optional) imposes the value of an instruction of the function given
	// to Call / RunRegion instead of computing it: the hypothesis of a table
	// extraction ("the rune loaded here is 'n'") when the region executed contains
	// the instruction that produces the hypothesised value.
	Fixed func(v ssa.Value) (Val, bool)

	// Halt can be set (e.g. from OnCall) to abandon the current run: every active
	// Call returns at once with an empty value and Err stays nil.
	Halt bool

	MaxSteps int
	MaxDepth int
	depth    int
	sliceSeq int
	// heap: stores into fields of objects / cells during a run
	heap map[string]Val
	Err  error
}

type frame struct {
	fn     *ssa.Function
	env    map[ssa.Value]Val
	cells  map[*ssa.Alloc]Val
	defers []func()
}

func (it *Interp) key(k string) string {
	if it.AtomKey != nil {
		return it.AtomKey(k)
	}
	return k
}

// Decide answers an opaque boolean.
func (it *Interp) Decide(v Val) bool {
	if b, ok := v.BoolVal(); ok {
		return b
	}
	if v.K == KSym {
		r := it.W.Choose(it.key("b:"+v.Sym), 2) == 1
		if v.Neg {
			return !r
		}
		return r
	}
	it.fail("cannot decide condition %s", v)
	return false
}

func (it *Interp) fail(format string, a ...any) {
	if it.Err == nil {
		it.Err = fmt.Errorf(format, a...)
	}
}

// Reset clears the heap (call between independent evaluations in one world if
// they must not see each other's stores).
func (it *Interp) Reset() { it.heap = map[string]Val{} }

// Call executes fn on args and returns its results (one Val; tuples as KTuple).
func (it *Interp) Call(fn *ssa.Function, args []Val, bindings []Val) Val {
	if it.heap == nil {
		it.heap = map[string]Val{}
	}
	if it.MaxSteps == 0 {
		it.MaxSteps = 20000
	}
	if it.MaxDepth == 0 {
		it.MaxDepth = 6
	}
	if fn.Blocks == nil {
		it.fail("no body for %s", fn)
		return Val{}
	}
	it.depth++
	defer func() { it.depth-- }()
	if it.depth > it.MaxDepth {
		it.fail("inlining depth exceeded at %s", fn)
		return Val{}
	}
	fr := &frame{fn: fn, env: map[ssa.Value]Val{}, cells: map[*ssa.Alloc]Val{}}
	for i, p := range fn.Params {
		if i < len(args) {
			fr.env[p] = args[i]
		} else {
			fr.env[p] = Sym(fn.Name()+"."+p.Name(), p.Type())
		}
	}
	for i, fv := range fn.FreeVars {
		if i < len(bindings) {
			fr.env[fv] = bindings[i]
		} else {
			fr.env[fv] = Sym(fn.Name()+"^"+fv.Name(), fv.Type())
		}
	}
	return it.exec(fr, fn.Blocks[0], nil, nil)
}

// RunRegion executes fn from block start until control is about to enter a
// block for which stop answers true (or the function returns). The values the
// region uses but does not define come from Unbound; φ-nodes of start are
// unbound too. Stores are observable through OnStore. Used to tabulate one
// iteration of a loop body without interpreting the function around it.
func (it *Interp) RunRegion(fn *ssa.Function, start *ssa.BasicBlock, stop func(*ssa.BasicBlock) bool) {
	if it.heap == nil {
		it.heap = map[string]Val{}
	}
	if it.MaxSteps == 0 {
		it.MaxSteps = 20000
	}
	if it.MaxDepth == 0 {
		it.MaxDepth = 6
	}
	it.depth++
	defer func() { it.depth-- }()
	fr := &frame{fn: fn, env: map[ssa.Value]Val{}, cells: map[*ssa.Alloc]Val{}}
	it.exec(fr, start, nil, stop)
}

// exec runs the blocks of fr.fn from b (entered from prev) to a return, or to
// the first block accepted by stop.
func (it *Interp) exec(fr *frame, b, prev *ssa.BasicBlock, stop func(*ssa.BasicBlock) bool) Val {
	fn := fr.fn
	for it.Err == nil && !it.Halt {
		var next *ssa.BasicBlock
		for _, in := range b.Instrs {
			if it.Halt {
				return Val{}
			}
			it.W.Steps++
			if it.W.Steps > it.MaxSteps {
				it.fail("step budget exceeded in %s (unbounded loop on abstract data?)", fn)
				return Val{}
			}
			switch x := in.(type) {
			case *ssa.Phi:
				for i, p := range b.Preds {
					if p == prev {
						fr.env[x] = it.eval(fr, x.Edges[i])
					}
				}
			case *ssa.If:
				c := it.eval(fr, x.Cond)
				if it.Decide(c) {
					next = b.Succs[0]
				} else {
					next = b.Succs[1]
				}
			case *ssa.Jump:
				next = b.Succs[0]
			case *ssa.Return:
				for i := len(fr.defers) - 1; i >= 0; i-- {
					fr.defers[i]()
				}
				switch len(x.Results) {
				case 0:
					return Val{K: KTuple}
				case 1:
					return it.eval(fr, x.Results[0])
				}
				var t []Val
				for _, r := range x.Results {
					t = append(t, it.eval(fr, r))
				}
				return Val{K: KTuple, Elems: t}
			case *ssa.Panic:
				it.fail("panic reached in %s", fn)
				return Val{}
			case *ssa.Store:
				sv := it.eval(fr, x.Val)
				it.store(fr, x.Addr, sv)
				if it.OnStore != nil {
					if _, cell := x.Addr.(*ssa.Alloc); !cell && it.Err == nil {
						it.OnStore(x, it.eval(fr, x.Addr), sv)
					}
				}
			case *ssa.MapUpdate, *ssa.Send, *ssa.DebugRef, *ssa.RunDefers:
			case *ssa.Defer:
				// deferred calls are irrelevant for the finite tables we extract
			case *ssa.Go:
			case ssa.Value:
				if it.Fixed != nil {
					if r, ok := it.Fixed(x); ok {
						fr.env[x] = r
						break
					}
				}
				fr.env[x] = it.instr(fr, x)
			}
			if it.Err != nil {
				return Val{}
			}
		}
		if next == nil {
			it.fail("fell off block %d of %s", b.Index, fn)
			return Val{}
		}
		if stop != nil && stop(next) {
			return Val{K: KTuple}
		}
		prev, b = b, next
	}
	return Val{}
}

func (it *Interp) eval(fr *frame, v ssa.Value) Val {
	if r, ok := fr.env[v]; ok {
		return r
	}
	switch x := v.(type) {
	case *ssa.Const:
		if x.Value == nil {
			if _, isBasic := x.Type().Underlying().(*types.Basic); isBasic {
				// zero value of a basic type
				switch b := x.Type().Underlying().(*types.Basic); {
				case b.Info()&types.IsBoolean != 0:
					return Const(constant.MakeBool(false), x.Type())
				case b.Info()&types.IsString != 0:
					return Const(constant.MakeString(""), x.Type())
				default:
					return Const(constant.MakeInt64(0), x.Type())
				}
			}
			return Nil(x.Type())
		}
		return Const(x.Value, x.Type())
	case *ssa.Function:
		return Val{K: KFunc, Fn: x, T: x.Type()}
	case *ssa.Global:
		return Obj("global:"+x.Name(), x.Type())
	case *ssa.Builtin:
		return Sym("builtin:"+x.Name(), x.Type())
	}
	if it.Unbound != nil {
		if r, ok := it.Unbound(v); ok {
			fr.env[v] = r
			return r
		}
	}
	it.fail("unbound value %s (%T) in %s", v.Name(), v, fr.fn)
	return Val{}
}

func (it *Interp) store(fr *frame, addr ssa.Value, val Val) {
	if al, ok := addr.(*ssa.Alloc); ok {
		fr.cells[al] = val
		return
	}
	a := it.eval(fr, addr)
	if a.K == KSym || a.K == KObj {
		it.heap[a.Sym] = val
	}
}

func (it *Interp) load(fr *frame, addr ssa.Value, t types.Type) Val {
	if al, ok := addr.(*ssa.Alloc); ok {
		if v, ok := fr.cells[al]; ok {
			return v
		}
		if it.Unbound != nil {
			if _, executed := fr.env[al]; !executed {
				// a cell allocated outside the executed region: for an *ssa.Alloc
				// Unbound answers with the content of the cell
				if r, ok := it.Unbound(al); ok {
					fr.cells[al] = r
					return r
				}
			}
		}
		return it.zero(t)
	}
	a := it.eval(fr, addr)
	switch a.K {
	case KSym, KObj:
		if v, ok := it.heap[a.Sym]; ok {
			return v
		}
		return it.loadField(a.Sym, t)
	case KNil:
		it.fail("nil dereference in %s", fr.fn)
	}
	return it.opaque("*"+a.String(), t)
}

func (it *Interp) zero(t types.Type) Val {
	switch u := t.Underlying().(type) {
	case *types.Basic:
		switch {
		case u.Info()&types.IsBoolean != 0:
			return Const(constant.MakeBool(false), t)
		case u.Info()&types.IsString != 0:
			return Const(constant.MakeString(""), t)
		case u.Info()&types.IsNumeric != 0:
			return Const(constant.MakeInt64(0), t)
		}
	case *types.Struct:
		return Obj(fmt.Sprintf("zero#%d", it.W.Steps), t)
	}
	return Nil(t)
}

// opaque builds the abstract value for an unknown of type t named sym:
// enum-typed values are concretised immediately.
func (it *Interp) opaque(sym string, t types.Type) Val {
	if it.EnumConsts != nil {
		if cs := it.EnumConsts(t); len(cs) > 0 {
			i := it.W.Choose(it.key("enum:"+sym), len(cs))
			return Const(cs[i].Val(), t)
		}
	}
	switch u := t.Underlying().(type) {
	case *types.Pointer:
		if _, isStruct := u.Elem().Underlying().(*types.Struct); isStruct {
			return Obj(sym, t)
		}
	case *types.Struct:
		return Obj(sym, t)
	}
	return Sym(sym, t)
}

func (it *Interp) instr(fr *frame, v ssa.Value) Val {
	switch x := v.(type) {
	case *ssa.Alloc:
		return Obj(fmt.Sprintf("alloc:%s#%d", x.Name(), it.W.Steps), x.Type())
	case *ssa.UnOp:
		switch x.Op {
		case token.MUL:
			return it.load(fr, x.X, x.Type())
		case token.NOT:
			a := it.eval(fr, x.X)
			if b, ok := a.BoolVal(); ok {
				return Bool(!b)
			}
			if a.K == KSym {
				a.Neg = !a.Neg
				return a
			}
		case token.SUB:
			a := it.eval(fr, x.X)
			if a.K == KConst {
				return Const(constant.UnaryOp(token.SUB, a.C, 0), x.Type())
			}
			return Sym("-"+a.String(), x.Type())
		}
		return Sym(x.Op.String()+it.eval(fr, x.X).String(), x.Type())
	case *ssa.BinOp:
		return it.binop(x.Op, it.eval(fr, x.X), it.eval(fr, x.Y), x.Type(), x.X.Type())
	case *ssa.FieldAddr:
		base := it.eval(fr, x.X)
		name := fieldName(x.X.Type(), x.Field)
		if al, ok := x.X.(*ssa.Alloc); ok {
			// field of a local struct cell that holds a (copied) opaque struct:
			// read through to the struct's own symbol
			if cv, ok := fr.cells[al]; ok && cv.K == KObj {
				base = cv
			}
		}
		if base.K == KNil {
			it.fail("field of nil in %s", fr.fn)
			return Val{}
		}
		return Obj(base.Sym+"."+name, x.Type())
	case *ssa.Field:
		base := it.eval(fr, x.X)
		name := fieldName(x.X.Type(), x.Field)
		sym := base.Sym + "." + name
		if v, ok := it.heap[sym]; ok {
			return v
		}
		return it.fieldValue(base.Sym, name, x.Type())
	case *ssa.IndexAddr:
		base := it.eval(fr, x.X)
		idx := it.eval(fr, x.Index)
		if base.K == KSlice {
			if i, ok := idx.IntVal(); ok && int(i) < len(base.Elems) && i >= 0 {
				// address of a concrete element: represent as a cell symbol holding it
				sym := fmt.Sprintf("elem:%p:%d", &base.Elems[0], i)
				if base.Sym != "" {
					// slice created by make/append under ConcreteSlices: own identity
					sym = elemKey(base.Sym, int(i))
				}
				if _, ok := it.heap[sym]; !ok {
					it.heap[sym] = base.Elems[i]
				}
				return Obj(sym, x.Type())
			}
			it.fail("index %s out of the concrete slice in %s", idx, fr.fn)
			return Val{}
		}
		return Obj(base.String()+"["+idx.String()+"]", x.Type())
	case *ssa.Index:
		base := it.eval(fr, x.X)
		idx := it.eval(fr, x.Index)
		if base.K == KSlice {
			if i, ok := idx.IntVal(); ok && int(i) < len(base.Elems) && i >= 0 {
				return base.Elems[i]
			}
		}
		return it.opaque(base.String()+"["+idx.String()+"]", x.Type())
	case *ssa.Lookup:
		base := it.eval(fr, x.X)
		idx := it.eval(fr, x.Index)
		s := it.opaque(base.String()+"["+idx.String()+"]", x.Type())
		if x.CommaOk {
			return Val{K: KTuple, Elems: []Val{s, Sym("has:"+base.String()+"["+idx.String()+"]", types.Typ[types.Bool])}}
		}
		return s
	case *ssa.Extract:
		t := it.eval(fr, x.Tuple)
		if t.K == KTuple && x.Index < len(t.Elems) {
			return t.Elems[x.Index]
		}
		return it.opaque(fmt.Sprintf("%s#%d", t.String(), x.Index), x.Type())
	case *ssa.Phi:
		return fr.env[x]
	case *ssa.MakeInterface:
		r := it.eval(fr, x.X)
		return r
	case *ssa.ChangeInterface:
		return it.eval(fr, x.X)
	case *ssa.ChangeType:
		r := it.eval(fr, x.X)
		r.T = x.Type()
		return r
	case *ssa.Convert:
		r := it.eval(fr, x.X)
		if r.K == KConst {
			if bt, ok := x.Type().Underlying().(*types.Basic); ok && bt.Info()&types.IsInteger != 0 && r.C.Kind() == constant.Int {
				return Const(r.C, x.Type())
			}
			// string(r) of a constant rune / byte
			if bt, ok := x.Type().Underlying().(*types.Basic); ok && bt.Info()&types.IsString != 0 && r.C.Kind() == constant.Int {
				if i, exact := constant.Int64Val(r.C); exact {
					return Const(constant.MakeString(string(rune(i))), x.Type())
				}
			}
		}
		if r.K == KSym {
			return Sym("conv("+r.Sym+")", x.Type())
		}
		r.T = x.Type()
		return r
	case *ssa.TypeAssert:
		a := it.eval(fr, x.X)
		if x.CommaOk {
			ok := Sym("is:"+types.TypeString(x.AssertedType, nil)+":"+a.String(), types.Typ[types.Bool])
			if a.K == KNil {
				ok = Bool(false)
			}
			r := a
			r.T = x.AssertedType
			return Val{K: KTuple, Elems: []Val{r, ok}}
		}
		a.T = x.AssertedType
		return a
	case *ssa.Slice:
		base := it.eval(fr, x.X)
		if it.ConcreteSlices {
			if r, ok := it.sliceOfArray(fr, x, base); ok {
				return r
			}
		}
		return Sym("slice("+base.String()+")", x.Type())
	case *ssa.MakeSlice, *ssa.MakeMap, *ssa.MakeChan:
		if ms, ok := v.(*ssa.MakeSlice); ok && it.ConcreteSlices {
			if n, ok := it.eval(fr, ms.Len).IntVal(); ok && n >= 0 && n <= 64 {
				if st, ok := ms.Type().Underlying().(*types.Slice); ok {
					el := make([]Val, n)
					for i := range el {
						el[i] = it.zero(st.Elem())
					}
					return it.newSlice(el, ms.Type())
				}
			}
		}
		return Obj(fmt.Sprintf("make:%s#%d", v.Name(), it.W.Steps), v.Type())
	case *ssa.MakeClosure:
		var b []Val
		for _, bv := range x.Bindings {
			if al, ok := bv.(*ssa.Alloc); ok {
				// captured cell: pass current content by reference is not modelled; bind the content
				if cv, ok := fr.cells[al]; ok {
					b = append(b, cv)
					continue
				}
			}
			b = append(b, it.eval(fr, bv))
		}
		return Val{K: KFunc, Fn: x.Fn.(*ssa.Function), Bind: b, T: x.Type()}
	case *ssa.Range:
		base := it.eval(fr, x.X)
		return Val{K: KObj, Sym: "range:" + base.String(), T: x.Type(), Elems: []Val{base}}
	case *ssa.Next:
		it.fail("map/string iteration is not modelled (%s)", fr.fn)
		return Val{}
	case *ssa.Call:
		return it.call(fr, x)
	}
	it.fail("unsupported instruction %T in %s", v, fr.fn)
	return Val{}
}

func elemKey(id string, i int) string { return fmt.Sprintf("elem:%s:%d", id, i) }

// newSlice: a concrete slice with its own identity (ConcreteSlices).
func (it *Interp) newSlice(elems []Val, t types.Type) Val {
	it.sliceSeq++
	return Val{K: KSlice, Sym: fmt.Sprintf("slice#%d.%d", it.W.Steps, it.sliceSeq), Elems: elems, T: t}
}

// CurElems returns the current elements of a concrete slice (stores through
// element addresses included); nil for a nil slice.
func (it *Interp) CurElems(v Val) []Val {
	if v.K != KSlice {
		return nil
	}
	out := make([]Val, len(v.Elems))
	for i := range v.Elems {
		k := ""
		if v.Sym != "" {
			k = elemKey(v.Sym, i)
		} else {
			k = fmt.Sprintf("elem:%p:%d", &v.Elems[0], i)
		}
		if hv, ok := it.heap[k]; ok {
			out[i] = hv
		} else {
			out[i] = v.Elems[i]
		}
	}
	return out
}

// sliceOfArray: a[:] (no bounds) of a pointer to an array of concrete length
// whose elements were stored one by one — the argument array go/ssa builds
// for a variadic call such as append(s, x).
func (it *Interp) sliceOfArray(fr *frame, x *ssa.Slice, base Val) (Val, bool) {
	if x.Low != nil || x.High != nil || x.Max != nil || base.K != KObj {
		return Val{}, false
	}
	pt, ok := x.X.Type().Underlying().(*types.Pointer)
	if !ok {
		return Val{}, false
	}
	at, ok := pt.Elem().Underlying().(*types.Array)
	if !ok || at.Len() > 64 {
		return Val{}, false
	}
	el := make([]Val, at.Len())
	for i := range el {
		k := Obj(base.String()+"["+Int(int64(i)).String()+"]", nil)
		if hv, ok := it.heap[k.Sym]; ok {
			el[i] = hv
		} else {
			el[i] = it.zero(at.Elem())
		}
	}
	return it.newSlice(el, x.Type()), true
}

func (it *Interp) fieldValue(obj, field string, t types.Type) Val {
	if it.FieldInit != nil {
		if v, ok := it.FieldInit(obj, field, t); ok {
			return v
		}
	}
	return it.opaque(obj+"."+field, t)
}

func fieldName(t types.Type, i int) string {
	if p, ok := t.Underlying().(*types.Pointer); ok {
		t = p.Elem()
	}
	if st, ok := t.Underlying().(*types.Struct); ok && i < st.NumFields() {
		return st.Field(i).Name()
	}
	return fmt.Sprintf("f%d", i)
}

// load of a field address: "<obj>.<field>" symbol → FieldInit / opaque
func (it *Interp) loadField(sym string, t types.Type) Val {
	if i := strings.LastIndex(sym, "."); i > 0 {
		return it.fieldValue(sym[:i], sym[i+1:], t)
	}
	return it.opaque(sym, t)
}

func isFloat(t types.Type) bool {
	b, ok := t.Underlying().(*types.Basic)
	return ok && b.Info()&types.IsFloat != 0
}

// IsNaN answers whether a float symbol is NaN in this world.
func (it *Interp) IsNaN(v Val) Val {
	if v.K == KConst {
		return Bool(false)
	}
	return Bool(it.W.Choose(it.key("nan:"+v.Sym), 2) == 1)
}

// Order returns -1/0/+1 for two opaque scalars (one decision per unordered pair).
func (it *Interp) Order(a, b Val) int {
	if a.Sym == b.Sym {
		return 0
	}
	x, y, flip := a.Sym, b.Sym, 1
	if x > y {
		x, y, flip = y, x, -1
	}
	k := it.key("ord:" + x + "|" + y)
	// the canonicaliser may itself have swapped the pair
	if strings.HasPrefix(k, "ord~:") {
		flip = -flip
		k = "ord:" + strings.TrimPrefix(k, "ord~:")
	}
	return (it.W.Choose(k, 3) - 1) * flip
}

func (it *Interp) binop(op token.Token, a, b Val, t types.Type, opT types.Type) Val {
	if a.K == KConst && b.K == KConst {
		switch op {
		case token.EQL, token.NEQ, token.LSS, token.LEQ, token.GTR, token.GEQ:
			return Bool(constant.Compare(a.C, op, b.C))
		case token.ADD, token.SUB, token.MUL, token.AND, token.OR, token.XOR, token.REM, token.QUO:
			if op == token.QUO && a.C.Kind() == constant.Int {
				op = token.QUO_ASSIGN
			}
			defer func() { recover() }()
			return Const(constant.BinaryOp(a.C, op, b.C), t)
		case token.SHL, token.SHR:
			if s, ok := constant.Uint64Val(b.C); ok {
				return Const(constant.Shift(a.C, op, uint(s)), t)
			}
		}
	}
	switch op {
	case token.EQL, token.NEQ, token.LSS, token.LEQ, token.GTR, token.GEQ:
		// nil comparisons
		if a.K == KNil || b.K == KNil {
			o := a
			if a.K == KNil {
				o = b
			}
			if o.K == KNil {
				return Bool(op == token.EQL)
			}
			if o.K == KSlice || o.K == KFunc {
				return Bool(op == token.NEQ)
			}
			atom := Sym("nil:"+o.Sym, types.Typ[types.Bool])
			if op == token.NEQ {
				atom.Neg = true
			}
			return atom
		}
		if (a.K == KSym || a.K == KObj) && (b.K == KSym || b.K == KObj) {
			if a.K == KObj || b.K == KObj {
				// pointer identity
				if a.Sym == b.Sym {
					return Bool(op == token.EQL)
				}
				atom := Sym("same:"+minmax(a.Sym, b.Sym), types.Typ[types.Bool])
				if op == token.NEQ {
					atom.Neg = true
				}
				return atom
			}
			if isFloat(opT) {
				na, _ := it.IsNaN(a).BoolVal()
				nb, _ := it.IsNaN(b).BoolVal()
				if na || nb {
					return Bool(op == token.NEQ)
				}
			}
			o := it.Order(a, b)
			switch op {
			case token.EQL:
				return Bool(o == 0)
			case token.NEQ:
				return Bool(o != 0)
			case token.LSS:
				return Bool(o < 0)
			case token.LEQ:
				return Bool(o <= 0)
			case token.GTR:
				return Bool(o > 0)
			case token.GEQ:
				return Bool(o >= 0)
			}
		}
		// opaque against constant: boolean atom (== / != share one atom)
		s, c := a, b
		sw := false
		if a.K == KConst {
			s, c, sw = b, a, true
		}
		if s.K == KSym && c.K == KConst {
			o := op
			if sw {
				o = mirror(op)
			}
			switch o {
			case token.EQL:
				return Sym(s.Sym+"=="+c.C.ExactString(), types.Typ[types.Bool])
			case token.NEQ:
				r := Sym(s.Sym+"=="+c.C.ExactString(), types.Typ[types.Bool])
				r.Neg = true
				return r
			case token.LSS:
				return Sym(s.Sym+"<"+c.C.ExactString(), types.Typ[types.Bool])
			case token.GEQ:
				r := Sym(s.Sym+"<"+c.C.ExactString(), types.Typ[types.Bool])
				r.Neg = true
				return r
			case token.GTR:
				return Sym(s.Sym+">"+c.C.ExactString(), types.Typ[types.Bool])
			case token.LEQ:
				r := Sym(s.Sym+">"+c.C.ExactString(), types.Typ[types.Bool])
				r.Neg = true
				return r
			}
		}
	}
	return Sym("("+a.String()+op.String()+b.String()+")", t)
}

func mirror(op token.Token) token.Token {
	switch op {
	case token.LSS:
		return token.GTR
	case token.GTR:
		return token.LSS
	case token.LEQ:
		return token.GEQ
	case token.GEQ:
		return token.LEQ
	}
	return op
}

func minmax(a, b string) string {
	if a > b {
		a, b = b, a
	}
	return a + "|" + b
}

func (it *Interp) call(fr *frame, c *ssa.Call) Val {
	com := c.Common()
	var args []Val
	if com.IsInvoke() {
		args = append(args, it.eval(fr, com.Value))
	}
	for _, a := range com.Args {
		args = append(args, it.eval(fr, a))
	}
	name := ""
	if it.Name != nil {
		name = it.Name(c)
	}
	if it.OnCall != nil {
		it.OnCall(name, c, args)
	}
	if m, ok := it.Models[name]; ok {
		if r, handled := m(it, c, args); handled {
			return r
		}
	}
	// builtins
	if b, ok := com.Value.(*ssa.Builtin); ok {
		switch b.Name() {
		case "len", "cap":
			if len(args) == 1 && args[0].K == KSlice {
				return Int(int64(len(args[0].Elems)))
			}
			if it.ConcreteSlices && len(args) == 1 && args[0].K == KNil && args[0].T != nil {
				if _, ok := args[0].T.Underlying().(*types.Slice); ok {
					return Int(0) // len / cap of the nil slice
				}
			}
			if len(args) == 1 && args[0].K == KConst && args[0].C.Kind() == constant.String {
				return Int(int64(len(constant.StringVal(args[0].C))))
			}
			return Sym(b.Name()+"("+args[0].String()+")", c.Type())
		case "append":
			if it.ConcreteSlices && len(args) == 2 && (args[0].K == KSlice || args[0].K == KNil) && (args[1].K == KSlice || args[1].K == KNil) {
				el := append(it.CurElems(args[0]), it.CurElems(args[1])...)
				return it.newSlice(el, c.Type())
			}
		}
		return it.opaque(b.Name()+"("+joinVals(args)+")", c.Type())
	}
	// closures and inlinable callees
	var callee *ssa.Function
	var bind []Val
	switch v := com.Value.(type) {
	case *ssa.Function:
		callee = v
	case *ssa.MakeClosure:
		callee = v.Fn.(*ssa.Function)
		fv := it.eval(fr, v)
		bind = fv.Bind
	default:
		if !com.IsInvoke() {
			fv := it.eval(fr, com.Value)
			if fv.K == KFunc {
				callee, bind = fv.Fn, fv.Bind
			}
		}
	}
	if callee != nil && callee.Blocks != nil && it.InlinePred != nil && it.InlinePred(callee) {
		return it.Call(callee, args, bind)
	}
	if name == "" {
		name = "dyn:" + com.Value.Name()
	}
	as := args
	if it.Symmetric[name] {
		as = append([]Val(nil), args...)
		sort.Slice(as, func(i, j int) bool { return as[i].String() < as[j].String() })
	}
	res := c.Type()
	if tup, ok := res.(*types.Tuple); ok {
		var el []Val
		for i := 0; i < tup.Len(); i++ {
			el = append(el, it.opaque(fmt.Sprintf("%s(%s)#%d", short(name), joinVals(as), i), tup.At(i).Type()))
		}
		return Val{K: KTuple, Elems: el}
	}
	return it.opaque(short(name)+"("+joinVals(as)+")", res)
}

func short(name string) string {
	if i := strings.LastIndex(name, "/"); i >= 0 {
		return name[i+1:]
	}
	return name
}

func joinVals(vs []Val) string {
	var p []string
	for _, v := range vs {
		p = append(p, v.String())
	}
	return strings.Join(p, ",")
}
