// csvqsa — static-analysis checker for the csvq properties C01..C20.
//
//	csvqsa check   --property Cnn [--tier quick|thorough] [--repo /repo] [--verif /verif]
//	csvqsa explain <replay.json>
//	csvqsa selftest [--property Cnn] [--only name]
//	csvqsa list
//
// Nothing here executes csvq, its tests, a fuzzer or a solver: every verdict is
// computed from the type-checked source of --repo, its SSA form and call graph.
package main

import (
	"embed"
	"encoding/json"
	"flag"
	"fmt"
	"os"
	"path/filepath"
	"runtime/debug"
	"sort"
	"strconv"
	"strings"
	"time"

	"verif/checker/core"
	"verif/checker/rules"
)

//go:embed positive/*.go.txt
var positiveFS embed.FS

func overlay(repo string) map[string][]byte {
	ov := map[string][]byte{}
	ents, _ := positiveFS.ReadDir("positive")
	for _, e := range ents {
		b, err := positiveFS.ReadFile("positive/" + e.Name())
		if err != nil {
			continue
		}
		name := strings.TrimSuffix(e.Name(), ".txt")
		ov[filepath.Join(repo, core.ControlPkg, name)] = b
	}
	return ov
}

type knownEntry struct {
	Property string `json:"property"`
	Rule     string `json:"rule"`
	Key      string `json:"key"`
	What     string `json:"what"`
}

type knownFile struct {
	Known []knownEntry `json:"known"`
	Fixed []string     `json:"fixed"`
}

func loadKnown(verif string) knownFile {
	var k knownFile
	b, err := os.ReadFile(filepath.Join(verif, "known_findings.json"))
	if err != nil {
		return k
	}
	if err := json.Unmarshal(b, &k); err != nil {
		fmt.Fprintf(os.Stderr, "known_findings.json: %v\n", err)
		os.Exit(2)
	}
	return k
}

type result struct {
	Obs        []rules.Obligation
	Violations []rules.Obligation // non-control violated/undecided, not known
	Known      []string
	Controls   map[string]bool
	Ctx        *rules.Ctx
	RuleIDs    []string
	RuleDocs   map[string]string
}

// runRules executes the rules of one property on a loaded program and applies
// the verdict policy (floors, controls, known findings).
func runRules(p *core.Prog, prop, tier string, known knownFile, only string) *result {
	ctx := rules.NewCtx(p, tier)
	res := &result{Ctx: ctx, Controls: map[string]bool{}, RuleDocs: map[string]string{}}
	var rs []*rules.Rule
	if prop == "all" {
		rs = rules.All()
	} else {
		rs = rules.ForProperty(prop)
	}
	for _, r := range rs {
		if only != "" && r.ID != only {
			continue
		}
		res.RuleIDs = append(res.RuleIDs, r.ID)
		res.RuleDocs[r.ID] = r.Doc
		ctx.SetRule(r)
		before := len(ctx.Obs)
		func() {
			defer func() {
				if e := recover(); e != nil {
					ctx.Unknown("analyser-panic", "-", fmt.Sprintf("rule %s panicked: %v\n%s", r.ID, e, debug.Stack()))
				}
			}()
			r.Run(ctx)
		}()
		n := 0
		for _, o := range ctx.Obs[before:] {
			if !o.Control {
				n++
			}
		}
		if n < r.Floor {
			ctx.Unknown("floor", "-", fmt.Sprintf("rule %s examined %d instance(s), fewer than the %d confirmed by hand: the rule no longer sees the code it is about", r.ID, n, r.Floor))
		}
		for _, want := range r.Controls {
			fired := false
			for _, o := range ctx.Obs[before:] {
				if o.Control && o.Status == rules.Violated && strings.Contains(o.Key, want) {
					fired = true
				}
			}
			res.Controls[r.ID+"/"+want] = fired
			if !fired {
				ctx.Unknown("control:"+want, "-", fmt.Sprintf("positive control %s did not trigger rule %s: the rule is blind", want, r.ID))
			}
		}
	}
	sort.SliceStable(ctx.Obs, func(i, j int) bool {
		a, b := ctx.Obs[i], ctx.Obs[j]
		if a.Rule != b.Rule {
			return a.Rule < b.Rule
		}
		return a.Key < b.Key
	})
	res.Obs = ctx.Obs
	seenKnown := map[string]bool{}
	for _, o := range ctx.Obs {
		if o.Control || o.Status == rules.Discharged {
			continue
		}
		isKnown := false
		if o.Status == rules.Violated {
			for _, k := range known.Known {
				if k.Rule == o.Rule && k.Key == o.Key {
					isKnown = true
					line := fmt.Sprintf("KNOWN-FINDING: property=%s %s [%s %s]", prop, k.What, o.Rule, o.Key)
					if !seenKnown[line] {
						seenKnown[line] = true
						res.Known = append(res.Known, line)
					}
				}
			}
		}
		if !isKnown {
			res.Violations = append(res.Violations, o)
		}
	}
	return res
}

func cmdCheck(args []string) int {
	fs := flag.NewFlagSet("check", flag.ExitOnError)
	prop := fs.String("property", "", "property id (C01..C20) or all")
	tier := fs.String("tier", os.Getenv("VERIF_TIER"), "quick|thorough")
	repo := fs.String("repo", "/repo", "repository to analyse")
	verif := fs.String("verif", "/verif", "verification directory")
	only := fs.String("rule", "", "run a single rule")
	verbose := fs.Bool("v", false, "print every obligation")
	noEvidence := fs.Bool("no-evidence", false, "do not write evidence (used by selftest)")
	fs.Parse(args)
	if *tier == "" {
		*tier = "quick"
	}
	if *prop == "" {
		fmt.Fprintln(os.Stderr, "--property required")
		return 2
	}
	seed := 0
	if s := os.Getenv("VERIF_SEED"); s != "" {
		seed, _ = strconv.Atoi(s)
	}
	start := time.Now()
	known := loadKnown(*verif)
	abs, _ := filepath.Abs(*repo)
	p, err := core.Load(abs, overlay(abs), "", "")
	var res *result
	if err != nil {
		// cannot-analyse is a failure of the check, never a pass
		ctx := rules.NewCtx(nil, *tier)
		ctx.SetRule(&rules.Rule{ID: "LOAD"})
		ctx.Unknown("load", "-", "cannot-analyse: "+err.Error())
		res = &result{Ctx: ctx, Obs: ctx.Obs, Violations: ctx.Obs, Controls: map[string]bool{}, RuleDocs: map[string]string{}}
	} else {
		res = runRules(p, *prop, *tier, known, *only)
		if len(res.RuleIDs) == 0 {
			fmt.Fprintf(os.Stderr, "no rules registered for %s\n", *prop)
			return 2
		}
	}
	var self *selfResult
	var configs []string
	if *tier == "thorough" && !*noEvidence && err == nil && *prop != "all" {
		// other build configurations: the same rules on the files selected by
		// GOOS=darwin and GOOS=windows (signal tables, terminal, init_windows.go)
		have := map[string]bool{}
		for _, o := range res.Obs {
			if o.Status != rules.Discharged && !o.Control {
				have[o.Rule+"|"+o.Key] = true
			}
		}
		for _, goos := range []string{"darwin", "windows"} {
			p2, err2 := core.Load(abs, overlay(abs), goos, "amd64")
			if err2 != nil {
				configs = append(configs, goos+"/amd64: cannot load: "+err2.Error())
				continue
			}
			res2 := runRules(p2, *prop, *tier, known, *only)
			extra := 0
			for _, o := range res2.Violations {
				if have[o.Rule+"|"+o.Key] {
					continue
				}
				o.Why = "[GOOS=" + goos + "] " + o.Why
				res.Violations = append(res.Violations, o)
				extra++
			}
			nObl := 0
			for _, o := range res2.Obs {
				if !o.Control {
					nObl++
				}
			}
			configs = append(configs, fmt.Sprintf("%s/amd64: %d obligations, %d additional violation(s)", goos, nObl, extra))
		}
		self = runSelftest(*verif, abs, *prop, "", false)
	}
	wall := time.Since(start).Seconds()

	if *verbose {
		for _, o := range res.Obs {
			c := ""
			if o.Control {
				c = " [control]"
			}
			fmt.Printf("%-10s %-10s %s  @%s%s\n    %s\n", o.Status, o.Rule, o.Key, o.Pos, c, o.Why)
		}
	}
	for _, k := range res.Known {
		fmt.Println(k)
	}
	vdir := filepath.Join(*verif, "evidence", "violations", *prop)
	if !*noEvidence {
		os.RemoveAll(vdir)
	}
	for i, o := range res.Violations {
		path := filepath.Join(vdir, fmt.Sprintf("%d.json", i+1))
		if *noEvidence {
			path = "-"
		} else {
			os.MkdirAll(vdir, 0o755)
			b, _ := json.MarshalIndent(map[string]any{
				"property": *prop, "rule": o.Rule, "rule_doc": res.RuleDocs[o.Rule], "key": o.Key,
				"pos": o.Pos, "status": o.Status, "why": o.Why, "repo": abs,
			}, "", " ")
			os.WriteFile(path, b, 0o644)
		}
		fmt.Printf("VIOLATION property=%s replay=%s\n", *prop, path)
		fmt.Printf("  %s %s %s @%s\n  %s\n", o.Status, o.Rule, o.Key, o.Pos, o.Why)
	}
	if !*noEvidence && *prop != "all" {
		writeEvidence(*verif, *prop, *tier, seed, wall, res, self, configs)
	}
	nObl, nDis := 0, 0
	for _, o := range res.Obs {
		if !o.Control {
			nObl++
			if o.Status == rules.Discharged {
				nDis++
			}
		}
	}
	fmt.Printf("property=%s tier=%s rules=%d obligations=%d discharged=%d known=%d violations=%d wall=%.1fs\n",
		*prop, *tier, len(res.RuleIDs), nObl, nDis, len(res.Known), len(res.Violations), wall)
	if len(res.Violations) > 0 {
		return 1
	}
	return 0
}

func writeEvidence(verif, prop, tier string, seed int, wall float64, res *result, self *selfResult, configs []string) {
	nObl, nDis, cells := 0, 0, 0
	distinct := map[string]bool{}
	perRule := map[string]int{}
	var samples []any
	sampleRule := map[string]int{}
	for _, o := range res.Obs {
		if o.Control {
			continue
		}
		nObl++
		cells += o.Cells
		perRule[o.Rule]++
		if o.Status == rules.Discharged {
			nDis++
		}
		distinct[o.Rule+"|"+o.Key] = true
		if sampleRule[o.Rule] < 3 && len(samples) < 60 {
			sampleRule[o.Rule]++
			samples = append(samples, map[string]any{"rule": o.Rule, "construct": o.Key, "pos": o.Pos, "status": o.Status, "why": o.Why})
		}
	}
	var docs []string
	for _, id := range res.RuleIDs {
		docs = append(docs, id+": "+res.RuleDocs[id])
	}
	anchors := keys(res.Ctx.Anchors)
	ctl := map[string]bool{}
	for k, v := range res.Controls {
		ctl[k] = v
	}
	cov := map[string]any{
		"explanation": "Static analysis of /repo's current working tree (go/types + go/ssa + VTA call graph; nothing is executed). " +
			"Each rule below decides one structural necessary condition of the property on every path / call site / table cell of the source; " +
			"it does not decide the behaviour as a whole (see level_note in MANIFEST.json and DESIGN.md). Rules: " + strings.Join(docs, " | "),
		"obligations":         nObl,
		"discharged":          nDis,
		"evaluations":         nObl + cells,
		"distinct_nontrivial": len(distinct),
		"rule": "one obligation per (rule, construct) pair found in the source — a call site, a path query, a store, a table cell group; " +
			"distinct = distinct (rule, construct) keys among non-control obligations; table cells enumerated by finite-domain rules are added to evaluations only",
		"samples":                 samples,
		"obligations_per_rule":    perRule,
		"table_cells_enumerated":  cells,
		"functions_analysed":      len(res.Ctx.Funcs),
		"anchors":                 anchors,
		"controls_fired":          ctl,
		"known_findings_reported": res.Known,
		"checker_cmd":             fmt.Sprintf("/verif/bin/csvqsa check --property %s --tier %s", prop, tier),
		"trusted_base":            []string{"go/types, go/ssa, go/callgraph/vta of golang.org/x/tools v0.29.0", "go1.23 front end", "documented behaviour of go-file, go-text, ternary (outside /repo)"},
	}
	cov["build_configurations"] = append([]string{"linux/amd64 (primary)"}, configs...)
	if self != nil {
		cov["mutants_total"] = self.Total
		cov["mutants_detected"] = self.Detected
		cov["mutants_skipped"] = self.Skipped
		cov["mutants_missed"] = self.Missed
		cov["mutants"] = self.Lines
	}
	ev := map[string]any{
		"property_id": prop, "tier": tier, "seed": seed, "level": "other",
		"coverage": cov,
		"assumptions": []string{
			"the analysed configuration is linux/amd64 without test files (what the build and the pinned suite use)",
			"VTA call graph over-approximates dynamic calls; reflection and cgo are not used by csvq",
			"dependencies outside /repo behave as documented",
		},
		"wall_s":     wall,
		"violations": len(res.Violations),
	}
	os.MkdirAll(filepath.Join(verif, "evidence"), 0o755)
	b, _ := json.MarshalIndent(ev, "", " ")
	os.WriteFile(filepath.Join(verif, "evidence", prop+".json"), b, 0o644)
}

func keys(m map[string]bool) []string {
	var out []string
	for k := range m {
		out = append(out, k)
	}
	sort.Strings(out)
	return out
}

func cmdExplain(args []string) int {
	if len(args) < 1 {
		fmt.Fprintln(os.Stderr, "usage: csvqsa explain <replay.json>")
		return 2
	}
	b, err := os.ReadFile(args[0])
	if err != nil {
		fmt.Fprintln(os.Stderr, err)
		return 2
	}
	var r struct{ Property, Rule, Rule_doc, Key, Pos, Status, Why, Repo string }
	if err := json.Unmarshal(b, &r); err != nil {
		fmt.Fprintln(os.Stderr, err)
		return 2
	}
	fmt.Printf("property %s, rule %s\n  %s\nconstruct: %s\nrecorded at %s: %s\n  %s\n\n", r.Property, r.Rule, r.Rule_doc, r.Key, r.Pos, r.Status, r.Why)
	repo := r.Repo
	if repo == "" {
		repo = "/repo"
	}
	// source excerpt
	if i := strings.LastIndex(r.Pos, ":"); i > 0 {
		file := r.Pos[:i]
		line, _ := strconv.Atoi(r.Pos[i+1:])
		if !filepath.IsAbs(file) {
			file = filepath.Join(repo, file)
		}
		if src, err := os.ReadFile(file); err == nil {
			lines := strings.Split(string(src), "\n")
			for l := line - 4; l <= line+3; l++ {
				if l >= 1 && l <= len(lines) {
					m := "  "
					if l == line {
						m = "=>"
					}
					fmt.Printf("%s %5d  %s\n", m, l, lines[l-1])
				}
			}
		}
	}
	fmt.Println("\nre-running the rule on the current tree:")
	p, err := core.Load(repo, overlay(repo), "", "")
	if err != nil {
		fmt.Println("cannot-analyse:", err)
		return 1
	}
	res := runRules(p, r.Property, "quick", knownFile{}, r.Rule)
	still := false
	for _, o := range res.Obs {
		if o.Key == r.Key && !o.Control {
			fmt.Printf("  %s %s @%s\n    %s\n", o.Status, o.Key, o.Pos, o.Why)
			if o.Status != rules.Discharged {
				still = true
			}
		}
	}
	if still {
		fmt.Printf("VIOLATION property=%s replay=%s\n", r.Property, args[0])
		return 1
	}
	fmt.Println("  not reproduced on the current tree")
	return 0
}

func cmdList() int {
	for _, r := range rules.All() {
		fmt.Printf("%-12s %-28s floor=%-3d %s\n", r.ID, strings.Join(r.Props, ","), r.Floor, r.Doc)
	}
	return 0
}

func main() {
	if len(os.Args) < 2 {
		fmt.Fprintln(os.Stderr, "usage: csvqsa check|explain|selftest|list ...")
		os.Exit(2)
	}
	switch os.Args[1] {
	case "check":
		os.Exit(cmdCheck(os.Args[2:]))
	case "explain":
		os.Exit(cmdExplain(os.Args[2:]))
	case "selftest":
		os.Exit(cmdSelftest(os.Args[2:]))
	case "list":
		os.Exit(cmdList())
	default:
		fmt.Fprintln(os.Stderr, "unknown command", os.Args[1])
		os.Exit(2)
	}
}
