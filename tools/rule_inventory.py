#!/usr/bin/env python3
"""Prints a markdown inventory of the registered rules with the obligation counts measured on the current tree
(used for DESIGN.md Appendix C)."""
import subprocess, json, re, collections
lst = subprocess.run(["/verif/bin/csvqsa", "list"], capture_output=True, text=True).stdout.splitlines()
out = subprocess.run(["/verif/bin/csvqsa", "check", "--property", "all", "--no-evidence", "-v"], capture_output=True, text=True).stdout.splitlines()
cnt = collections.Counter(); ctl = collections.Counter()
for l in out:
    m = re.match(r"^(discharged|violated|undecided)\s+(\S+)\s", l)
    if m:
        if l.rstrip().endswith("[control]"):
            ctl[m.group(2)] += 1
        else:
            cnt[m.group(2)] += 1
muts = collections.Counter()
import glob
for f in glob.glob("/verif/mutants/*.diff"):
    for l in open(f):
        if l.startswith("# rule:"):
            for r in re.split(r"[ ,]+", l[7:].strip()):
                if r and r != "-":
                    muts[r] += 1
            break
print("| rule | properties | obligations today | control obligations | mutants | decides |")
print("|---|---|---|---|---|---|")
seen = set()
for l in lst:
    m = re.match(r"^(\S+)\s+(\S+)\s+floor=(\d+)\s+(.*)$", l)
    if not m: continue
    rid, props, floor, doc = m.groups()
    key = (rid, props)
    if key in seen: continue
    seen.add(key)
    doc = doc.replace("|", "\\|")
    if len(doc) > 260: doc = doc[:257] + "…"
    print(f"| {rid} | {props} | {cnt[rid]} (floor {floor}) | {ctl[rid]} | {muts[rid]} | {doc} |")
