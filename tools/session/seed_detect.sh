#!/bin/bash
# usage: seed_detect.sh <id>  → prints "<id>: R-..,R-.." using the current binary, property of the id only
id="$1"; prop="${id%%-*}"; wt="/tmp/sd-$id"
flock /tmp/wt.lock git -C /repo worktree add --force --detach "$wt" HEAD >/dev/null 2>&1 || { echo "$id: worktree failed"; exit 2; }
trap 'flock /tmp/wt.lock git -C /repo worktree remove --force "$wt" >/dev/null 2>&1; rm -rf "$wt"' EXIT
cd "$wt" && git apply --whitespace=nowarn "/tmp/seed-out/$id/patch.diff" 2>/dev/null || { echo "$id: does not apply"; exit 0; }
det=$(/verif/bin/csvqsa check --property "$prop" --repo "$wt" --no-evidence 2>&1)
rules=$(printf '%s\n' "$det" | grep -A1 '^VIOLATION' | grep -o 'violated R-[A-Z]*-[0-9]*\|undecided R-[A-Z]*-[0-9]*' | awk '{print $2}' | sort -u | tr '\n' ',' | sed 's/,$//')
echo "$id: ${rules:-NONE}"
