#!/bin/bash
# usage: integrate.sh <wk-name> <base-commit>
# merges the source files an agent changed in /tmp/<wk>/checker (relative to /verif at <base-commit>) into /verif/checker
wk="$1"; base="$2"; src="${SRC:-/tmp/$wk/checker}"; dst="/verif/checker"
tmpb=$(mktemp -d); trap 'rm -rf "$tmpb"' EXIT
git -C /verif archive "$base" checker | tar -x -C "$tmpb"
cd "$src" || exit 2
find . -type f \( -name '*.go' -o -name '*.go.txt' -o -name 'go.mod' -o -name 'go.sum' \) | sort | while read f; do
  f="${f#./}"
  if [ -f "$tmpb/checker/$f" ]; then
    cmp -s "$tmpb/checker/$f" "$src/$f" && continue      # agent did not change it
    if [ ! -f "$dst/$f" ]; then echo "CHANGED-BUT-DELETED-UPSTREAM $f"; continue; fi
    if cmp -s "$tmpb/checker/$f" "$dst/$f"; then cp "$src/$f" "$dst/$f"; echo "updated $f"
    elif cmp -s "$src/$f" "$dst/$f"; then echo "same $f"
    else
      cp "$dst/$f" "$tmpb/cur"; 
      if git merge-file -q "$tmpb/cur" "$tmpb/checker/$f" "$src/$f"; then cp "$tmpb/cur" "$dst/$f"; echo "merged $f"; else cp "$tmpb/cur" "$dst/$f.CONFLICT"; echo "CONFLICT $f (see $f.CONFLICT)"; fi
    fi
  else
    if [ -f "$dst/$f" ] && ! cmp -s "$src/$f" "$dst/$f"; then echo "NEW-BOTH-DIFFER $f"; else cp "$src/$f" "$dst/$f"; echo "new $f"; fi
  fi
done
# mutants
if [ -d "/tmp/$wk/mutants" ]; then for m in /tmp/$wk/mutants/*.diff; do [ -f "$m" ] && { cp -n "$m" /verif/mutants/ && echo "mutant $(basename $m)"; }; done; fi
