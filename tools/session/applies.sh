#!/bin/bash
# counts how many refactoring patches apply to HEAD (git apply --check in /repo, read-only)
ok=0; no=0
for d in /verif/refactorings/*.diff; do
  if git -C /repo apply --check --whitespace=nowarn "$d" 2>/dev/null; then ok=$((ok+1)); else no=$((no+1)); echo -n "$(basename $d .diff) "; fi
done
echo; echo "apply=$ok not=$no"
