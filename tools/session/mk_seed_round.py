#!/usr/bin/env python3
# usage: mk_seed_round.py <round-dir> <k1> <k2>   e.g. /tmp/seed8 15 16
import json,glob,os,subprocess,sys
rd,k1,k2=sys.argv[1],sys.argv[2],sys.argv[3]
os.makedirs(rd,exist_ok=True); os.makedirs('/tmp/seed-out',exist_ok=True)
props={json.loads(l)['id']:json.loads(l) for l in open('/verif/properties.jsonl')}
taken={}
for d in sorted(glob.glob('/verif/seeded/*')):
    m=json.load(open(d+'/meta.json'))
    p=os.path.basename(d).split('-')[0]
    s=' '.join((m.get('summary') or '').split())[:230]
    taken.setdefault(p,[]).append(s)
for p,prop in props.items():
    wt=f'{rd}/{p}'
    if not os.path.isdir(wt):
        subprocess.run(['git','-C','/repo','worktree','add','--detach',wt,'HEAD'],check=True,capture_output=True)
    for k in (k1,k2): os.makedirs(f'/tmp/seed-out/{p}-{k}',exist_ok=True)
    head=f"""# Task: seed two breaking changes for one property of csvq

You are testing a verification effort for `mithrandie/csvq` (a Go CLI/library that runs an SQL-like language over CSV/TSV/LTSV/fixed-width/JSON files).
You get ONE property that csvq is supposed to satisfy, and your own scratch git worktree of the repository. Your job: produce
**two independent changes** to csvq's (non-test) source, each of which **breaks the property** while the code **still compiles and
the existing test suite still passes**, each with a **demonstration** that passes on the unchanged tree and fails with the change.

## The property ({p})

```json
{json.dumps(prop, indent=1)}
```

## Your workspace

* Your worktree: `{wt}` (a detached git worktree of the repository at the pinned commit). Work ONLY there and under `/tmp/seed-out/`.
  Never touch `/repo` (the main checkout) and never read or write anything under `/verif` (it is off limits: your changes must be independent of it).
* NEVER use `git stash` (the stash is shared by all worktrees of the repository and other agents work in parallel): to get back to the clean tree use
  `git diff > /tmp/seed-out/{p}-work.diff; git checkout -- .; git clean -fdq`, to re-apply `git apply /tmp/seed-out/{p}-work.diff`.
* Every shell call needs: `export GOFLAGS=-mod=mod GOPROXY=off GOSUMDB=off GOTOOLCHAIN=local` (the sandbox is offline; `go` is 1.23).
  Use a private temp dir for tests: `export TMPDIR=$(mktemp -d)` (csvq's tests use fixed directory names under $TMPDIR; other agents run in parallel).
* Full suite: `cd {wt} && go test -vet=off -count=1 ./...` (all packages must report ok; takes about a minute; `lib/file` TestHandler is timing-sensitive under load — rerun it alone before concluding). Build: `go build ./...`.
* Do not edit, add or delete any `*_test.go` file or testdata as part of a change (the demonstration may add ONE new test file or be a shell script
  that builds the binary and drives it; demo files are not part of the patch).

## What makes a good change

* It looks like something a maintainer could plausibly commit: a refactoring gone subtly wrong, an "optimisation", a fast path, a clean-up, a reordering,
  a helper extraction that changes one detail, a well-meant robustness fix. No sabotage comments, no dead giveaway names. Small (typically 3–40 changed lines).
* It must need **something specific to manifest** — a particular interleaving or `--cpu` value and table size, a crash/fault/cancellation at one particular point,
  a multi-step sequence of statements, an unusual input, or two cooperating sites that each look fine alone. NOT something ordinary use would expose at once,
  and of course nothing the existing tests catch.
* The two changes must be different in kind and location from each other and from the changes ALREADY TAKEN for this property in earlier rounds
  (listed below — find other files, functions and mechanisms; the anchors in the property list where to look, but code reachable from them counts too;
  prefer code paths and mechanisms that do not appear in the list at all):

{chr(10).join('  - '+t for t in taken.get(p,[]))}

## Deliverables — for change k ∈ {{1,2}}, directory `/tmp/seed-out/{p}-{{{k1} for k=1, {k2} for k=2}}/` containing

1. `patch.diff` — `git diff` of the worktree (source changes only; must apply to a clean checkout with `git apply`).
2. `demo.sh` — run from the root of a csvq checkout; exits 0 iff the demonstration PASSES (i.e. exit 0 on the clean tree, non-zero with the patch applied).
   It must set the GO… variables above and a private TMPDIR itself, reference its own files via `HERE="$(cd "$(dirname "$0")" && pwd)"`,
   copy any test file it needs into the tree and remove it again on exit (trap), be deterministic (if the failure is a race or timing issue, make the demo
   deterministic with a loop, `-race`, a countdown context, fault injection in the *test*, etc.) and finish within 5 minutes.
3. `meta.json` — {{"property": "{p}", "summary": "what was changed, where (file, function), in the words of a commit message reviewer", "mechanism": "why it breaks the property",
   "needs": "what is needed for it to manifest", "files": [...], "verified": "exactly what you ran and observed: demo exit code on the clean tree, build + full suite result with the patch, demo exit code with the patch"}}

You MUST verify all of this yourself before delivering: clean tree → demo exits 0; patch applied → `go build ./...` ok, full suite ok, demo exits non-zero.
Leave the worktree clean at the end.

If, while reading the code, you come across behaviour of the UNCHANGED tree that already violates the property (a crash, a wrong result, a leak), do not
use it as your change; instead describe it at the end of your final message under "Observed on the unchanged tree" with the exact reproduction.

Your final message: for each change the id, one paragraph on what/why/needs, and the verification results; then any "Observed on the unchanged tree" notes.
"""
    open(f'{rd}/{p}.brief.md','w').write(head)
print('ok')
