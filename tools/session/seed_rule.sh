#!/bin/bash
# usage: seed_rule.sh <patch> <prop> [rule]
d="$1"; n=$(echo "$d" | tr '/' '_'); wt="/tmp/sr-$$"
flock /tmp/wt.lock git -C /repo worktree add --force --detach "$wt" HEAD >/dev/null 2>&1 || { echo "worktree failed"; exit 2; }
trap 'flock /tmp/wt.lock git -C /repo worktree remove --force "$wt" >/dev/null 2>&1; rm -rf "$wt"' EXIT
cd "$wt" && git apply --whitespace=nowarn "$d" 2>/dev/null || { echo "does not apply"; exit 0; }
if [ -n "$3" ]; then r="--rule $3"; fi
/verif/bin/csvqsa check --property "$2" $r --repo "$wt" --no-evidence -v 2>&1 | grep '^violated\|^undecided' | grep -v '\[control\]' | cut -c1-260
