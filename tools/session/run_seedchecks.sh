#!/bin/bash
# usage: run_seedchecks.sh id...   (2 at a time)
printf '%s\n' "$@" | xargs -P 2 -I{} sh -c '/verif/tools/seedcheck.sh {} > /tmp/seed-out/{}.verdict 2>&1'
