#!/bin/bash
# usage: refac_rule.sh <diff> <prop> <rule>
d="$1"; n=$(basename "$d" .diff); wt="/tmp/rr-$n"
flock /tmp/wt.lock git -C /repo worktree add --force --detach "$wt" HEAD >/dev/null 2>&1 || { echo "$n: worktree failed"; exit 2; }
trap 'flock /tmp/wt.lock git -C /repo worktree remove --force "$wt" >/dev/null 2>&1; rm -rf "$wt"' EXIT
cd "$wt" && git apply --whitespace=nowarn "$d" 2>/dev/null || { echo "$n: does not apply"; exit 0; }
out=$(/verif/bin/csvqsa check --property "$2" --rule "$3" --repo "$wt" --no-evidence -v 2>&1)
v=$(printf '%s\n' "$out" | grep '^violated\|^undecided' | grep -v '\[control\]' | cut -c1-230)
if [ -z "$v" ]; then echo "$n: silent"; else echo "$n: FALSE ALARM(S):"; printf '%s\n' "$v" | sed 's/^/    /'; fi
