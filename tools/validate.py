#!/usr/bin/env python3
import json, jsonschema, glob, sys
jsonschema.validate(json.load(open('/verif/MANIFEST.json')), json.load(open('/root/.vp/MANIFEST.schema.json')))
es = json.load(open('/root/.vp/EVIDENCE.schema.json'))
m = json.load(open('/verif/MANIFEST.json'))
for c in m['checks']:
    jsonschema.validate(json.load(open(c['evidence_file'])), es)
print("manifest + %d evidence files valid" % len(m['checks']))
