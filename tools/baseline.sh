#!/bin/bash
# Runs the pinned suite of /repo (or $1) with the BASELINE.json flags and prints pass/fail counts.
export GOFLAGS=-mod=mod GOPROXY=off GOSUMDB=off GOTOOLCHAIN=local
cd "${1:-/repo}" || exit 2
# csvq's tests share fixed directories under $TMPDIR; use a private one so concurrent runs do not disturb each other
export TMPDIR=$(mktemp -d /tmp/csvq-baseline.XXXXXX)
trap 'rm -rf "$TMPDIR"' EXIT
out=$(go test -mod=mod -json -vet=off -count=1 -timeout 25m ./... 2>&1)
pass=$(printf '%s\n' "$out" | grep -c '"Action":"pass","Package":"[^"]*","Test":"[^"/]*"')
fail=$(printf '%s\n' "$out" | grep -c '"Action":"fail","Package":"[^"]*","Test":"[^"/]*"')
pkgfail=$(printf '%s\n' "$out" | grep '"Action":"fail"' | grep -vc '"Test"')
echo "top-level tests passed=$pass failed=$fail package-failures=$pkgfail"
if [ "$fail" != 0 ] || [ "$pkgfail" != 0 ]; then
  printf '%s\n' "$out" | grep '"Action":"fail"' | head -20
  printf '%s\n' "$out" | grep '"Output"' | grep -i 'fail\|panic\|error' | head -30
  exit 1
fi
