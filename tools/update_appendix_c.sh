#!/bin/bash
# Regenerates the table of DESIGN.md Appendix C from the current checker binary and tree.
python3 /verif/tools/rule_inventory.py > /tmp/_inv.md || exit 1
python3 - <<'PY'
p='/verif/DESIGN.md'
s=open(p).read()
h='## Appendix C'
a=s.index(h)
t=s.index('| rule | properties |', a)
# table ends at first blank line after t
e=s.find('\n\n', t)
if e < 0: e=len(s)
s=s[:t]+open('/tmp/_inv.md').read().rstrip('\n')+s[e:]
open(p,'w').write(s)
PY
rm -f /tmp/_inv.md
