#!/bin/bash
# usage: seedcheck.sh <id>   (id like C06-1; input in /tmp/seed-out/<id>/)
# Confirms an independently produced breaking change in a scratch worktree of /repo (demo passes without it;
# with it: builds, the pinned suite passes, the demo fails), runs the property's checks against it, and prints a verdict.
export GOFLAGS=-mod=mod GOPROXY=off GOSUMDB=off GOTOOLCHAIN=local
id="$1"; src="${SEEDDIR:-/tmp/seed-out}/$id"; prop="${id%%-*}"
wt="/tmp/sc-$id"
[ -f "$src/patch.diff" ] || { echo "$id: no patch"; exit 2; }
git -C /repo worktree remove --force "$wt" >/dev/null 2>&1
git -C /repo worktree add --detach "$wt" HEAD >/dev/null 2>&1 || { echo "$id: cannot create worktree"; exit 2; }
cleanup() { git -C /repo worktree remove --force "$wt" >/dev/null 2>&1; rm -rf "$wt"; }
trap cleanup EXIT
cd "$wt"
cp -r "$src" "$wt/.seed"   # demo.sh may reference its own dir
run_demo() { ( cd "$wt" && timeout 600 bash "$src/demo.sh" >/tmp/sc-$id.demo.log 2>&1 ); }
run_demo; base=$?
git apply --whitespace=nowarn "$src/patch.diff" || { echo "$id: patch does not apply"; exit 2; }
go build ./... >/tmp/sc-$id.build.log 2>&1; build=$?
/verif/tools/baseline.sh "$wt" >/tmp/sc-$id.test.log 2>&1; tests=$?
run_demo; withp=$?
# remove demo files the script may have copied into the tree before analysing
git -C "$wt" clean -fdq -e .seed >/dev/null 2>&1
det=$(/verif/bin/csvqsa check --property "$prop" --repo "$wt" --no-evidence 2>&1)
rules=$(printf '%s\n' "$det" | grep -A1 '^VIOLATION' | grep -o 'violated R-[A-Z]*-[0-9]*\|undecided R-[A-Z]*-[0-9]*' | awk '{print $2}' | sort -u | tr '\n' ',' | sed 's/,$//')
first=$(printf '%s\n' "$det" | grep -A1 '^VIOLATION' | grep 'violated\|undecided' | head -1 | cut -c1-260)
all=$(/verif/bin/csvqsa check --property all --repo "$wt" --no-evidence 2>&1 | grep -A1 '^VIOLATION' | grep -o 'violated R-[A-Z]*-[0-9]*\|undecided R-[A-Z]*-[0-9]*' | awk '{print $2}' | sort -u | tr '\n' ',' | sed 's/,$//')
echo "$id: demo_without=$base build=$build tests=$tests demo_with=$withp detected_by[$prop]=${rules:-NONE} detected_by[all]=${all:-NONE}"
echo "   $first"
