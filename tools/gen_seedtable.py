#!/usr/bin/env python3
"""Regenerates the table of DESIGN.md §8 (between the markers <!-- SEEDTABLE:BEGIN --> / <!-- SEEDTABLE:END -->)
from /verif/seeded/*/meta.json."""
import json, glob, os, re
rows = []
caught = missed = 0
for d in sorted(glob.glob('/verif/seeded/*'), key=lambda p: (os.path.basename(p).split('-')[0], int(os.path.basename(p).split('-')[1]))):
    sid = os.path.basename(d)
    m = json.load(open(d + '/meta.json'))
    def clip(s, n):
        s = re.sub(r'\s+', ' ', str(s or '')).replace('|', '/')
        return s if len(s) <= n else s[:n - 1] + '…'
    det = m.get('detected_by') or []
    note = m.get('confirmed', '')
    tail = note.split('exits non-zero. ', 1)[1] if 'exits non-zero. ' in note else ''
    if det:
        caught += 1
        by = ', '.join(det) + (' — ' + clip(tail, 170) if tail else '')
    else:
        missed += 1
        by = '**missed** — ' + clip(tail, 220)
    rnd = str((int(sid.split('-')[1]) + 1) // 2)
    rows.append(f"| {sid} | {rnd} | {clip(m.get('summary'), 230)} | {clip(m.get('needs'), 120)} | {by} |")
table = ["| id | round | change | needs, to manifest | caught by |", "|---|---|---|---|---|"] + rows
table.append("")
table.append(f"Totals: {caught + missed} changes, {caught} caught, {missed} missed.")
p = '/verif/DESIGN.md'
s = open(p).read()
b, e = '<!-- SEEDTABLE:BEGIN -->', '<!-- SEEDTABLE:END -->'
assert b in s and e in s
s = s[:s.index(b) + len(b)] + "\n" + "\n".join(table) + "\n" + s[s.index(e):]
open(p, 'w').write(s)
print(caught, missed)
