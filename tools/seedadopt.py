#!/usr/bin/env python3
"""seedadopt.py <id> <detected_by rules, comma separated or -> <expect substring or -> <validation line>
Copies a confirmed seeded change from /tmp/seed-out/<id> to /verif/seeded/<id>/ and records what was run."""
import sys, os, json, shutil, glob
sid, rules, expect, validation = sys.argv[1:5]
src = sys.argv[5] if len(sys.argv) > 5 else f"/tmp/seed-out/{sid}"; dst = f"/verif/seeded/{sid}"
os.makedirs(dst, exist_ok=True)
for f in glob.glob(src + "/*"):
    b = os.path.basename(f)
    if b.endswith(".log"):
        continue
    if os.path.isdir(f):
        shutil.copytree(f, os.path.join(dst, b), dirs_exist_ok=True)  # helper programs of a demo (e.g. crashat/)
        continue
    shutil.copy(f, dst)
meta = json.load(open(src + "/meta.json"))
meta["property"] = sid.split("-")[0]
meta["detected_by"] = [] if rules == "-" else rules.split(",")
meta["expect"] = "" if expect == "-" else expect
meta["confirmed"] = ("confirmed by tools/seedcheck.sh in a scratch worktree of /repo (removed afterwards): demo.sh exits 0 without the patch; "
                     "with the patch `go build ./...` succeeds, the pinned suite passes (581 tests) and demo.sh exits non-zero. " + validation)
json.dump(meta, open(dst + "/meta.json", "w"), indent=1)
print("adopted", sid, meta["detected_by"])
