#!/usr/bin/env python3
"""Regenerates /verif/MANIFEST.json from the table below (kept in one place so that the
manifest always validates). Run after adding or dropping a property claim."""
import json, subprocess, sys

ENV = "GOFLAGS=-mod=mod GOPROXY=off GOSUMDB=off GOTOOLCHAIN=local GOWORK=off"
SETUP = f"cd /verif/checker && {ENV} go build -o /verif/bin/csvqsa ."
BASELINE = ("cd /repo && GOFLAGS=-mod=mod GOPROXY=off GOSUMDB=off go test -mod=mod -json -vet=off -count=1 -timeout 25m ./...")

TRUSTED = ("Trusted base: go/types, go/ssa and the VTA call graph of golang.org/x/tools v0.29.0; "
           "linux/amd64 build configuration without test files; dependencies outside /repo behave as documented. ")

# id -> (claim text, note (what is NOT decided / assumed), technique, design section)
CLAIMS = {}
NA = {}

def claim(pid, text, note, technique, ref):
    CLAIMS[pid] = (text, note, technique, ref)

def na(pid, reason):
    NA[pid] = reason

exec(open("/verif/tools/claims.py").read())

checks = []
for pid in sorted(CLAIMS):
    text, note, tech, ref = CLAIMS[pid]
    checks.append({
        "property_id": pid,
        "quick_cmd": f"./bin/csvqsa check --property {pid} --tier quick",
        "thorough_cmd": f"./bin/csvqsa check --property {pid} --tier thorough",
        "evidence_file": f"/verif/evidence/{pid}.json",
        "replay_cmd_template": "./bin/csvqsa explain {path}",
        "engine": "csvqsa",
        "level_claimed": {"category": "other", "text": text, "design_ref": ref},
        "level_note": TRUSTED + note,
        "technique": tech,
    })

all_ids = [json.loads(l)["id"] for l in open("/verif/properties.jsonl")]
missing = [i for i in all_ids if i not in CLAIMS and i not in NA]
if missing:
    sys.exit(f"properties neither claimed nor not_applicable: {missing}")

m = {
    "version": 1,
    "setup_cmd": SETUP,
    "hooks": {
        "guard": "verif",
        "enable": "none needed: the checks read /repo's source (go/packages) and never build or run it; no hook or instrumentation exists in /repo",
        "baseline_off_cmd": BASELINE,
        "source_commits": [],
        "add_only": True,
    },
    "engines": [{
        "name": "csvqsa",
        "path": "/verif/checker",
        "serves_properties": sorted(CLAIMS),
        "kind_free_text": "repository-specific static analyser (go/packages + go/ssa + VTA call graph): path rules, value-origin/escape rules, who-may-call tables, goroutine-sharing analysis, finite-domain table evaluation; positive controls in an overlay package; mutant self-test in the thorough tier",
    }],
    "checks": checks,
    "not_applicable": [{"property_id": k, "reason": NA[k]} for k in sorted(NA) if k not in CLAIMS],
    "notes": "All claims are level 'other': each check decides named structural necessary conditions of its property on the current source of /repo and says in level_note what it does not decide. See DESIGN.md. Genuine defects found are either repaired by 'fix:' commits in /repo or listed in /verif/known_findings.json.",
}
json.dump(m, open("/verif/MANIFEST.json", "w"), indent=1)
print("MANIFEST.json:", len(checks), "checks,", len(m["not_applicable"]), "not applicable")
