#!/bin/bash
# usage: refaccheck.sh <diff>  — applies a behaviour-preserving refactoring to a scratch worktree of /repo and runs every check; any VIOLATION is a false alarm.
d="$1"; n=$(basename "$d" .diff); wt="/tmp/rc-$n"
git -C /repo worktree remove --force "$wt" >/dev/null 2>&1
git -C /repo worktree add --detach "$wt" HEAD >/dev/null 2>&1 || exit 2
trap 'git -C /repo worktree remove --force "$wt" >/dev/null 2>&1; rm -rf "$wt"' EXIT
cd "$wt" && git apply --whitespace=nowarn "$d" 2>/dev/null || { echo "$n: does not apply"; exit 0; }
out=$(/verif/bin/csvqsa check --property all --repo "$wt" --no-evidence 2>&1)
v=$(printf '%s\n' "$out" | grep -A1 '^VIOLATION' | grep 'violated\|undecided' | cut -c1-230)
if [ -z "$v" ]; then echo "$n: silent"; else echo "$n: FALSE ALARM(S):"; printf '%s\n' "$v" | sed 's/^/    /'; fi
