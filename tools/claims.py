# Claims and not-applicable reasons; executed by genmanifest.py.
PENDING = "no static rule is built for this property yet (checker under construction; see DESIGN.md §7) — to be replaced by a claim or a final reason"
for _p in ["C%02d" % i for i in range(1, 21)]:
    na(_p, PENDING)

claim("C14",
      "Decides the ownership discipline that makes evaluation read-only: (R-POOL-1) every exported value conversion returns a fresh pool object or a singleton on every return; "
      "(R-POOL-2) each of the ~125 value.Discard call sites releases only a temporary created in the same function, which has not escaped on any path reaching the release and is not used afterwards; "
      "(R-POOL-3) pooled value fields are written only by their pool constructors and Null/Boolean/Ternary stay singletons; "
      "(R-AST-1) no store, append, copy or sort reaches a slice of a lib/parser syntax-tree node, directly or through a callee. "
      "These hold for every path of every function, which repetition-based tests cannot show; they are necessary conditions, not the whole property.",
      "Not decided: mutation through structures of the external go-text JSON package; aliasing through maps and channels is treated as an escape (conservative). Table cells / cached views are covered under C08.",
      "SSA value-origin, escape and use-after-release analysis; who-may-write table; taint of syntax-tree slices with callee summaries",
      "DESIGN.md §3 C14")
