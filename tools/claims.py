# Claims and not-applicable reasons; executed by genmanifest.py.
PENDING = "no static rule is built for this property yet (checker under construction; see DESIGN.md §7) — to be replaced by a claim or a final reason"
for _p in ["C%02d" % i for i in range(1, 21)]:
    na(_p, PENDING)

claim("C14",
      "Decides the ownership discipline that makes evaluation read-only: (R-POOL-1) every exported value conversion returns a fresh pool object or a singleton on every return; "
      "(R-POOL-2) each of the ~125 value.Discard call sites releases only a temporary created in the same function, which has not escaped on any path reaching the release and is not used afterwards; "
      "(R-POOL-3) pooled value fields are written only by their pool constructors and Null/Boolean/Ternary stay singletons; "
      "(R-AST-1) no store, append, copy or sort reaches a slice of a lib/parser syntax-tree node, directly or through a callee. "
      "These hold for every path of every function, which repetition-based tests cannot show; they are necessary conditions, not the whole property.",
      "Not decided: mutation through structures of the external go-text JSON package; aliasing through maps and channels is treated as an escape (conservative). Table cells / cached views are covered under C08.",
      "SSA value-origin, escape and use-after-release analysis; who-may-write table; taint of syntax-tree slices with callee summaries",
      "DESIGN.md §3 C14")

claim("C06",
      "Decides every finite table the property rests on, each enumerated completely by abstract interpretation of the SSA (engine E6): "
      "(R-CMP-1) the three-way kernels over all orderings × NaN flags; (R-CMP-2) the six comparison operators as functions of the 6-valued comparison class, cell by cell against the documented table, plus the algebraic laws a<b⇔b>a, a<>b⇔NOT(a=b), symmetry of =, a<=b⇔(a<b OR a=b), and Compare's operator→function dispatch; "
      "(R-CMP-3) the coercion ladder of CompareCombinedly in every abstract world (null-ness × convertibility × orderings), including rung order and 'same conversion on both operands'; "
      "(R-CMP-4) Calculate's integer→float→NULL rungs, the zero-divisor error, and agreement of the integer and float operator tables (% is the truncated remainder). "
      "A test samples value pairs; these tables are total.",
      "Not decided: the numeric content of conversions (strconv parsing/formatting, datetime formats), overflow behaviour, the BETWEEN/IN/ANY/ALL/CASE expansions and Kleene short-circuits (planned R-CMP-5/6). Abstraction: scalars are compared only through ==,<,> (one consistent ordering per pair) and math.IsNaN.",
      "finite-domain abstract interpretation of go/ssa with exhaustive world enumeration; specification tables and algebraic laws checked cell by cell",
      "DESIGN.md §3 C06")

claim("C07",
      "Decides that the sort comparator is a consistent order on its finite abstraction and that sorting moves whole rows: "
      "(R-SRT-1) SortValue.Less/EquivalentTo over all type × type × field-ordering × NaN × strict-mode worlds — each pair is (T,F), (F,T) or a symmetric tie, EquivalentTo symmetric and implies a tie; "
      "(R-SRT-2) one key of SortValues.Less over direction × null position × null-ness × element result, against the specified decision table (tie ⇒ next key); "
      "(R-SRT-3) View.Swap exchanges every per-record parallel slice that sorting fills; (R-LIM-1) stage order OrderBy ≺ Offset ≺ Limit ≺ Fix on every path; (R-LIM-2) the PERCENT base derives from record count + stored offset. "
      "One genuine defect of R-SRT-1 was repaired (Integer vs Float ties), one is recorded as a known finding (strict-mode strings).",
      "Not decided: that sort.Sort is given a transitive relation on value level (only pairwise laws on the abstraction), the LIMIT/OFFSET clamping arithmetic and the extent of WITH TIES (boundary panics of LIMIT are under C19: R-ERR-9/10). Two feasibility invariants of NewSortValue are assumed and stated in the evidence (only FloatType holds NaN; a StringType text never equals a numeric value's text).",
      "finite-domain abstract interpretation (exhaustive), structural field-coverage check, CFG must-precede",
      "DESIGN.md §3 C07")

claim("C13",
      "Decides lockset consistency of every concurrent region of lib/query (engine E5): the operands of all `go` statements and all callbacks handed to the task runners (found by role: a function that passes its func parameter to a `go` operand which calls it). "
      "Every memory access of a region through a shared root (captured variable, shared parameter, global), including accesses inside methods it calls on shared objects (depth ≤ 3), is reduced to an access path; "
      "R-PAR-1 requires every write to be index-partitioned by the task index, or every conflicting access of a concurrently running region to hold a common mutex (sync, sync/atomic, channels exempt). "
      "This quantifies over all schedules, which neither tests nor a race detector run can; three genuine races it reported were repaired in /repo.",
      "Not decided: accesses made by callees reached only through Evaluate/Select on objects that pre-exist the region (needs points-to analysis, unavailable here; see DESIGN §3 C13), confinement of the per-record scope objects (R-PAR-4, planned), parent-goroutine accesses between spawn and join. Assumes index expressions derived from the task index are injective across tasks (instances listed in the evidence) and that accesses at different path lengths do not alias.",
      "goroutine-sharing analysis over SSA: concurrent-region discovery by role, access paths, task-index dependence, dominator-based locksets, callee summaries",
      "DESIGN.md §3 C13, Appendix B.5")

claim("C12",
      "Decides the three structural sources of nondeterminism in lib/query: (R-PAR-1) result slots written by workers are addressed by the task index, never shared; "
      "(R-PAR-3) no multi-instance region appends to a shared slice, even under a mutex (arrival order); (R-ORD-1) no iteration over a Go map or sync.Map decides the order of data — loop bodies contain only key-addressed writes, deletes, integer counters, constant flags and pure or key-addressed calls, and every slice accumulated in map order is sorted before use, followed through function results to all callers, or is one of 16 listed constructs that feed log lines / clean-up only (one reason each). "
      "Three genuine defects (GROUP BY order, REPLACE append order, analytic-function order) were repaired in /repo.",
      "Not decided: that the task ranges tile the input (R-PAR-5, planned), floating-point reassociation (aggregates run on one goroutine), determinism of the dependencies. Log-line order on stdout is outside the property's wording and is exempted explicitly.",
      "goroutine-sharing analysis (E5) + map-iteration-order taint with purity/keyed-writer summaries (E7)",
      "DESIGN.md §3 C12")

claim("C19",
      "Decides two of the panic classes this code base actually has, on every call site: (R-ERR-1) every err.Error() guarded by a non-nil test is guarded by a test of the same error value (address-keyed facts for named results / captured variables) — the wrong-error-variable nil dereference; "
      "(R-ERR-2) every unchecked type assertion to a lib/value or go-text/json type (224 sites) is discharged by a dominating type test, by interprocedural result/field/slot type-sets with NULL/nil exclusion, by paired producer/consumer tables, or by pool New/Put agreement; two exceptions with a mechanically checked side condition. "
      "Five genuine Fatal-Error defects found by these rules were repaired in /repo.",
      "Not decided: absence of all panics and hangs (undecidable); general index/slice bounds (needs interval analysis), rectangularity of loaded tables, the remaining panic classes R-ERR-3..10 (being built). AST-typed assertions are fixed by the grammar and out of scope.",
      "SSA branch-fact analysis; interprocedural type-set fixpoint with hypothesis pruning",
      "DESIGN.md §3 C19")
