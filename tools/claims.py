# Claims and not-applicable reasons; executed by genmanifest.py.
PENDING = "no static rule is built for this property yet (checker under construction; see DESIGN.md §7) — to be replaced by a claim or a final reason"
for _p in ["C%02d" % i for i in range(1, 21)]:
    na(_p, PENDING)

claim("C14",
      "Decides the ownership discipline that makes evaluation read-only: (R-POOL-1) every exported value conversion returns a fresh pool object or a singleton on every return; "
      "(R-POOL-2) each of the ~125 value.Discard call sites releases only a temporary created in the same function, which has not escaped on any path reaching the release and is not used afterwards; "
      "(R-POOL-3) pooled value fields are written only by their pool constructors and Null/Boolean/Ternary stay singletons; "
      "(R-AST-1) no store, append, copy or sort reaches a slice of a lib/parser syntax-tree node, directly or through a callee. "
      "These hold for every path of every function, which repetition-based tests cannot show; they are necessary conditions, not the whole property.",
      "Not decided: mutation through structures of the external go-text JSON package; aliasing through maps and channels is treated as an escape (conservative). Table cells / cached views are covered under C08.",
      "SSA value-origin, escape and use-after-release analysis; who-may-write table; taint of syntax-tree slices with callee summaries",
      "DESIGN.md §3 C14")

claim("C06",
      "Decides every finite table the property rests on, each enumerated completely by abstract interpretation of the SSA (engine E6): "
      "(R-CMP-1) the three-way kernels over all orderings × NaN flags; (R-CMP-2) the six comparison operators as functions of the 6-valued comparison class, cell by cell against the documented table, plus the algebraic laws a<b⇔b>a, a<>b⇔NOT(a=b), symmetry of =, a<=b⇔(a<b OR a=b), and Compare's operator→function dispatch; "
      "(R-CMP-3) the coercion ladder of CompareCombinedly in every abstract world (null-ness × convertibility × orderings), including rung order and 'same conversion on both operands'; "
      "(R-CMP-4) Calculate's integer→float→NULL rungs, the zero-divisor error, and agreement of the integer and float operator tables (% is the truncated remainder). "
      "(R-CMP-5) AND / OR / NOT of evalLogic and evalUnaryLogic over all ternary combinations; (R-CMP-6) BETWEEN = (a>=lo) AND (a<=hi) with the right operands, NOT BETWEEN, NULL operand, IN = ANY '=', NOT IN = ALL '<>'; (R-REL-1) every ternary truth test separates the documented classes. "
      "A test samples value pairs; these tables are total.",
      "Not decided: the numeric content of conversions (strconv parsing/formatting, datetime formats), overflow behaviour, the CASE expansion beyond its truth test (R-REL-1), LIKE and IS. Abstraction: scalars are compared only through ==,<,> (one consistent ordering per pair) and math.IsNaN.",
      "finite-domain abstract interpretation of go/ssa with exhaustive world enumeration; specification tables and algebraic laws checked cell by cell",
      "DESIGN.md §3 C06")

claim("C07",
      "Decides that the sort comparator is a consistent order on its finite abstraction and that sorting moves whole rows: "
      "(R-SRT-1) SortValue.Less/EquivalentTo over all type × type × field-ordering × NaN × strict-mode worlds — each pair is (T,F), (F,T) or a symmetric tie, EquivalentTo symmetric and implies a tie; "
      "(R-SRT-2) one key of SortValues.Less over direction × null position × null-ness × element result, against the specified decision table (tie ⇒ next key); "
      "(R-SRT-3) View.Swap exchanges every per-record parallel slice that sorting fills; (R-LIM-1) stage order OrderBy ≺ Offset ≺ Limit ≺ Fix on every path; (R-LIM-2) the PERCENT base derives from record count + stored offset. "
      "One genuine defect of R-SRT-1 was repaired (Integer vs Float ties), one is recorded as a known finding (strict-mode strings).",
      "Not decided: that sort.Sort is given a transitive relation on value level (only pairwise laws on the abstraction), the LIMIT/OFFSET clamping arithmetic and the extent of WITH TIES (boundary panics of LIMIT are under C19: R-ERR-9/10). Two feasibility invariants of NewSortValue are assumed and stated in the evidence (only FloatType holds NaN; a StringType text never equals a numeric value's text).",
      "finite-domain abstract interpretation (exhaustive), structural field-coverage check, CFG must-precede",
      "DESIGN.md §3 C07")

claim("C13",
      "Decides lockset consistency of every concurrent region of lib/query (engine E5): the operands of all `go` statements and all callbacks handed to the task runners (found by role: a function that passes its func parameter to a `go` operand which calls it). "
      "Every memory access of a region through a shared root (captured variable, shared parameter, global), including accesses inside methods it calls on shared objects (depth ≤ 3), is reduced to an access path; "
      "R-PAR-1 requires every write to be index-partitioned by the task index, or every conflicting access of a concurrently running region to hold a common mutex (sync, sync/atomic, channels exempt). "
      "This quantifies over all schedules, which neither tests nor a race detector run can; three genuine races it reported were repaired in /repo.",
      "Not decided: accesses made by callees reached only through Evaluate/Select on objects that pre-exist the region (needs points-to analysis, unavailable here; see DESIGN §3 C13), confinement of the per-record scope objects (R-PAR-4, planned), parent-goroutine accesses between spawn and join. Assumes index expressions derived from the task index are injective across tasks (instances listed in the evidence) and that accesses at different path lengths do not alias.",
      "goroutine-sharing analysis over SSA: concurrent-region discovery by role, access paths, task-index dependence, dominator-based locksets, callee summaries",
      "DESIGN.md §3 C13, Appendix B.5")

claim("C12",
      "Decides the three structural sources of nondeterminism in lib/query: (R-PAR-1) result slots written by workers are addressed by the task index, never shared; "
      "(R-PAR-3) no multi-instance region appends to a shared slice, even under a mutex (arrival order); (R-ORD-1) no iteration over a Go map or sync.Map decides the order of data — loop bodies contain only key-addressed writes, deletes, integer counters, constant flags and pure or key-addressed calls, and every slice accumulated in map order is sorted before use, followed through function results to all callers, or is one of 16 listed constructs that feed log lines / clean-up only (one reason each). "
      "Three genuine defects (GROUP BY order, REPLACE append order, analytic-function order) were repaired in /repo.",
      "Not decided: that the task ranges tile the input (R-PAR-5, planned), floating-point reassociation (aggregates run on one goroutine), determinism of the dependencies. Log-line order on stdout is outside the property's wording and is exempted explicitly.",
      "goroutine-sharing analysis (E5) + map-iteration-order taint with purity/keyed-writer summaries (E7)",
      "DESIGN.md §3 C12")

claim("C19",
      "Decides two of the panic classes this code base actually has, on every call site: (R-ERR-1) every err.Error() guarded by a non-nil test is guarded by a test of the same error value (address-keyed facts for named results / captured variables) — the wrong-error-variable nil dereference; "
      "(R-ERR-2) every unchecked type assertion to a lib/value or go-text/json type (224 sites) is discharged by a dominating type test, by interprocedural result/field/slot type-sets with NULL/nil exclusion, by paired producer/consumer tables, or by pool New/Put agreement; two exceptions with a mechanically checked side condition. "
      "Five genuine Fatal-Error defects found by these rules were repaired in /repo.",
      "Not decided: absence of all panics and hangs (undecidable); general index/slice bounds (needs interval analysis), rectangularity of loaded tables, the remaining panic classes R-ERR-3..10 (being built). AST-typed assertions are fixed by the grammar and out of scope.",
      "SSA branch-fact analysis; interprocedural type-set fixpoint with hypothesis pruning",
      "DESIGN.md §3 C19")

claim("C01",
      "Decides the control skeleton that makes commit/rollback happen for every way a procedure can end (not the bytes written): "
      "(R-TXN-1) every call site reaching Tx.Commit is the COMMIT arm or lies behind err==nil ∧ flow==Terminate; AutoCommit is set on every path to Execute; "
      "(R-TXN-2) a deferred Rollback + forced release dominates every use of the processor, and SIGINT/SIGTERM/SIGQUIT are routed to the cancel of the action's context; "
      "(R-TXN-3) in Commit no path leads from a file swap back to an encode or file write, and a failed write can reach neither a swap nor a success return; "
      "(R-TXN-4) the set of functions that publish views equals a frozen table and every statement arm of ExecuteStatement marks its FileInfo as uncommitted on each success path with a positive count; "
      "(R-TXN-5) Commit/Rollback/ReleaseResources pass their terminal steps; (R-TXN-6) a cancelled encode always returns an error; (R-TXN-7) nothing reachable from Execute exits the process; "
      "(R-TXN-8) what is encoded is what is swapped and then unset. All are universally quantified over paths and call sites.",
      "Not decided: that the encoded bytes equal the in-memory state; byte-identity of untouched files beyond who-may-write (C11 R-CLEAN-4). 'Reaches X' excludes paths through the statement interpreter (a user function body may itself contain COMMIT). Signal table checked for linux (quick) and darwin/windows (thorough).",
      "CFG must-pass / must-precede path rules with edge pruning, who-may-call tables over the VTA call graph, value-origin rules",
      "DESIGN.md §3 C01")

claim("C02",
      "Decides the clause 'an updated file keeps its delimiter, encoding, line break and header convention' and 'an encoding error is reported': "
      "(R-FMT-1) each EncodeView at commit gets ExportOptions of the FileInfo being written; (R-FMT-2) ExportOptions copies each of the 10 dialect fields from the receiver; "
      "(R-FMT-3) every loader stores each dialect property it detects into the FileInfo; (R-FMT-4) the commit path reads no dialect field of the session flags (one genuine defect repaired: trailing line break); "
      "(R-FMT-5) every writer error in the encoders reaches a return; (R-FMT-6) the format→encoder and format→loader dispatch tables agree per format constant.",
      "Not decided: the byte-level round trip itself (quoting decisions, NULL/empty coincidence, fixed-length padding live in the go-text dependency and are value-level), 'nothing is written' for --out. Known but outside static reach: a cell containing a line break is written unquoted by go-text (D16).",
      "value-origin and table-extraction rules over SSA, error-propagation path rule",
      "DESIGN.md §3 C02")

claim("C05",
      "Decides two ordering/accounting clauses only: (R-ORD-1) no map iteration decides the order in which INSERT/REPLACE rows are appended (one genuine defect repaired: REPLACE); "
      "(R-CNT-1) every count shown in a 'N record(s)' log line and stored in AffectedRows is the very count returned by the statement function of that arm. Copy-on-write isolation of the statements is decided under C08.",
      "Not decided (value-level): that the table equals the old table with exactly the specified edit, that the statement's own count is right.",
      "map-iteration-order taint (E7), value-origin rule",
      "DESIGN.md §3 C05")

claim("C08",
      "Decides copy-on-read + publish-last, the mechanism behind statement atomicity: (R-ISO-1) values read raw from a view container are never stored through, appended to, sorted, handed to a mutating callee or leaked, and every write of a FileInfo field hits a provably private object (one genuine defect repaired: subquery arm of loadView); "
      "(R-ISO-2) the accessors hand out View.Copy results only; (R-ISO-3) copy depth of View/Header/RecordSet/Record.Copy; (R-ISO-4) no store into a Cell not allocated in the same function; "
      "(R-ISO-5) in each data-changing statement function no return with a possibly non-nil error is reachable after a publication (exemptions mechanically justified); (R-ISO-6) CREATE TABLE closes its new handler on every error return; (R-POOL-2) pooled temporaries are not released while referenced.",
      "Not decided: failures inside go-text; HeaderField.Aliases stays shared after Header.Copy (harmless while cached headers carry nil aliases); errors raised in ExecuteStatement after the statement function returned.",
      "forward taint with bottom-up parameter summaries, provenance analysis, edge-sensitive error-value path rule",
      "DESIGN.md §3 C08")

claim("C09",
      "Does NOT decide mutual exclusion under interleavings (that is model checking). Decides that the protocol steps the argument relies on are present and ordered in the real code, on every path: "
      "(R-LOCK-1) control files only via O_EXCL create; (R-LOCK-2) writer: existence checks before the create and an rlock re-check after it whose positive edge backs off; (R-LOCK-3) reader: lock check, transient lock, deferred release; "
      "(R-LOCK-4) acquire before access in each NewHandler*; (R-LOCK-5) every retry cycle crosses ctx.Done() and maps to the timeout error; (R-LOCK-6) update handlers live in FileInfo.Handler until commit/rollback, frozen who-may-close table; (R-CLEAN-1/6) failed acquisition cleans up and only the creator removes a data file (one genuine defect repaired).",
      "Not decided: the interleaving argument itself, fairness, stdin locking. Idioms: direct / negated / && || / switch existence tests; a test laundered through a bool variable is reported.",
      "CFG path rules with success/failure edge pruning, who-may-call tables",
      "DESIGN.md §3 C09")

claim("C10",
      "Crash points are positions between two file-system calls, so 'for every crash point' is decided as call order on every path: (R-SWAP-1) the rename target is never unlinked before os.Rename (genuine defect repaired); "
      "(R-SWAP-2) temp descriptor closed ≺ rename(temp→path) ≺ lock release; (R-SWAP-3) FileForUpdate hands out the temp descriptor per OpenType, and no read descriptor is ever written; "
      "(R-TXN-3) all encodes precede all swaps and a failed write reaches no swap; (R-TXN-6) a cancelled encode aborts the commit.",
      "Not decided: durability against power loss (no fsync is claimed by the property), atomicity of rename on non-POSIX file systems.",
      "CFG must-precede rules, per-constant abstract evaluation, who-may-write rule",
      "DESIGN.md §3 C10")

claim("C11",
      "Decides on every path: (R-CLEAN-1) each failed acquisition releases what it took; (R-CLEAN-2) the resource tables of close / closeWithErrors / commit and ControlFile.Close agree; (R-CLEAN-3) every handler is tracked by the container and the release functions visit every entry; "
      "(R-CLEAN-4) FileForUpdate only in Commit, forUpdate=true only in data-changing statements; (R-CLEAN-5) the --out file is closed and removed when empty by a defer registered before use; (R-CLEAN-6) only the creator removes a data file (genuine defect repaired); "
      "(R-TXN-2) rollback + forced release deferred before any use, signals routed to cancel; (R-TXN-7) no process exit under a transaction; (R-LOCK-4, R-ISO-6, R-TXN-6) shared.",
      "Not decided: uncatchable kills (excluded by the property), errors returned by os.Remove itself (close stops at the first, closeWithErrors continues).",
      "CFG must-pass rules with edge pruning, sibling-table agreement, who-may-call tables",
      "DESIGN.md §3 C11")

claim("C15",
      "Decides: (R-SCP-1) every declaration indexes the innermost block and every lookup walks from index 0 upward and can stop at the visited element; (R-SCP-2) typestate over pooled block/node scopes: no use after release, at most one release per path, pools fed only by the putters; "
      "(R-SCP-3) loops clear the child block before each iteration; (R-SCP-4) UDF calls create a child scope, bind into it, release it on every path; (R-SCP-5) the control-transfer table of execute/While/WhileInCursor/IfStmt/Case over all StatementFlow values; (R-SCP-6) recycled scopes are cleared field by field.",
      "Not decided: handles released through method values or parked in struct fields; what deferred recover paths do to the flow; that RETURN always carries a value.",
      "typestate analysis over SSA, finite-domain evaluation over the StatementFlow enum, loop-shape analysis",
      "DESIGN.md §3 C15")

claim("C16",
      "Decides snapshot ownership and closed-cursor handling: (R-CUR-1) Cursor.view is written only by Open (from a Select result), Close (nil) and the constructor, and Fetch/Count/IsInRange cannot reach Select; (R-CUR-2) every dereference of the view is dominated by its nil test, Open refuses an open cursor; "
      "(R-CUR-4) WhileInCursor fetches NEXT and the six positions map to their index stores; (R-CUR-5) Open stores view/index=-1/fetched=false and Close stores nil on every success path; R-ISO-1/3/4 and R-POOL-2: the snapshot does not alias cache storage.",
      "Not decided: the pointer clamping arithmetic of FETCH (unbounded integers; mutant M50 is an expected miss), cross-goroutine use of one cursor.",
      "who-may-write table, dominance and must-store path rules",
      "DESIGN.md §3 C16")

claim("C17",
      "Decides only structural clauses: (R-ANA-1) ordering precedes analysing and the sort state is reset afterwards; (R-ANA-2) every analytic/aggregate function name of the scanner has a registry entry; (R-ANA-3) each registry name is bound to its own implementation; "
      "(R-AST-1) Analyze does not write the shared syntax tree (genuine defect repaired); (R-KEY-1) partition keys are framed injectively; (R-SRT-3) sorting moves the per-cell sort values with their rows.",
      "Not decided (value-level): the per-partition, per-frame values of each function, frame boundary arithmetic.",
      "CFG must-precede, table extraction against a frozen specification, shared taint rules",
      "DESIGN.md §3 C17")

claim("C18",
      "Decides only the table pair the print/parse round trip depends on: (R-ESC-1) the escape and unescape tables of strings and identifiers, extracted from the SSA, equal the documented sequences and are mutual inverses, the added quote is in the escape table; (R-ESC-2) literal String() methods print through the quoting helpers.",
      "Not decided (value-level, all byte strings): parser totality, tree equality after re-parsing, the quote-doubling state machine.",
      "table extraction from SSA (switch / if-chain / map literal) compared cell by cell",
      "DESIGN.md §3 C18")

claim("C20",
      "Decides: (R-CACHE-1) the reload guard of cacheViewFromFile over all 8 assignments of {isCached, forUpdate, cachedForUpdate}: reload iff ¬isCached ∨ (forUpdate ∧ ¬cachedForUpdate); (R-CACHE-2) only ReleaseResources* and the upgrade arm may evict from the view cache; "
      "(R-CACHE-3) views are filed under their own IdentifiedPath and no sanctioned writer changes the key fields; (R-ISO-1/2/3) readers get copies; (R-TXN-5) COMMIT and ROLLBACK end by clearing the cache.",
      "Not decided: what another process does to the file between loads (C09); reader-side key equality (needs string-value tracking).",
      "finite truth-table evaluation of branch conditions, who-may-call table, taint rules shared with C08",
      "DESIGN.md §3 C20")

claim("C04",
      "Decides injectivity of the key framing and agreement of the normalisation ladders: (R-KEY-1) everything written into a comparison-key buffer is a constant tag, a numeric rendering, an already serialised key, or text passed through an escaper that handles both the separator and its own escape character (genuine defect repaired); "
      "(R-KEY-2) both tuple serialisers write the same separator exactly for components i>0; (R-KEY-3) SerializeKey follows the documented ladder in every abstract world, the ladder CompareCombinedly is checked against (R-CMP-3); (R-KEY-4) strict-mode type tags are pairwise distinct; (R-KEY-5) every fill starts from an empty buffer and consumers use the buffer's whole String() as key.",
      "Not decided: per-aggregate arithmetic, 'exactly the rows of its bucket', Escaper recognition covers strings.NewReplacer/ReplaceAll with constant pairs and byte-comparison loops.",
      "taint analysis of key-buffer writes with callee/caller resolution; finite-domain abstract interpretation for the ladder",
      "DESIGN.md §3 C04")

na("C03", "relational semantics of SELECT over all tables and query shapes is value-level and no sound static argument in reach bounds it; the structural clauses that exist (stage order R-LIM-1, order-preserving result slots R-PAR-1) are run under C07/C12; the remaining planned clauses (truth-test table, join/set dispatch) are not built yet")

claim("C19",
      "Absence of all panics and hangs is undecidable; decided are the panic sources this code base actually has, each on every call site: "
      "(R-ERR-1) wrong-error-variable nil dereference; (R-ERR-2) all 224 unchecked type assertions to value/json types discharged by dominating tests, interprocedural type-sets, paired tables or pool agreement; "
      "(R-ERR-3) every worker goroutine registers a defer that reaches recover() unconditionally; (R-ERR-4) no Header lookup result is used as an index while its error is discarded; (R-ERR-5) non-constant integer divisors exclude 0; "
      "(R-ERR-6) every error type carries a non-zero code and cli.Exit maps the rest; (R-ERR-7) sizes passed to make/strings.Repeat/Intn are size-derived or have a proven lower and finite upper bound (interval evaluation); "
      "(R-ERR-9) decremented indices are ≥ 0; (R-ERR-10) float→int conversions exclude NaN/±Inf; (R-LOCK-5) lock retries are bounded. "
      "Eighteen genuine Fatal-Error / crash defects found by these rules were repaired in /repo; one is a recorded known finding (unbounded LPAD length).",
      "Not decided: general index/slice upper bounds and overflow-corrupted bounds (needs relational interval analysis, e.g. SUBSTR with a huge length), hangs other than the lock retry, rectangularity of loaded tables (value-level), lib/terminal's completer indices, R-ERR-8 (nil in type-switch default: not built). AST-typed assertions are fixed by the grammar. Interval assumptions: lengths < 2^47, counters < 2^50.",
      "SSA branch facts, interprocedural type-set fixpoint, demand-driven interval evaluation, must-pass path rules",
      "DESIGN.md §3 C19")

NA.pop("C03", None)
claim("C03",
      "Relational semantics over all tables and query shapes is value-level and NOT decided. Decided are the finite or structural clauses it rests on: "
      "(R-REL-1) every ternary truth test of lib/query separates exactly the documented classes — row filters, join conditions, IF/CASE/WHILE act on TRUE only (a row is kept iff its condition is TRUE), AND/OR/BETWEEN/ANY/ALL short-circuit as documented; an unlisted test is reported; "
      "(R-REL-4) the join dispatch table over join type × direction, the LEFT default of OuterJoin and the cross-join fallback of InnerJoin; (R-REL-5) set operators dispatched under their own token with all = NOT set.All.IsEmpty() in both sibling switches; "
      "(R-REL-3) the recursive CTE call is guarded by the recursion limit and by the no-new-rows exit; (R-LIM-1) pipeline stage order load ≺ where ≺ group ≺ having ≺ select ≺ order ≺ offset ≺ limit; (R-PAR-1) parallel result slots are index-addressed, so a single source keeps its row order.",
      "Not decided (value-level): which rows a join matches, NULL padding of outer joins, the column merge of USING/NATURAL, projection and field resolution, the contents produced by a recursive CTE.",
      "branch-condition classification against a frozen table, finite-domain abstract interpretation of the dispatch, CFG path rules",
      "DESIGN.md §3 C03")

# Addenda: rules added or cross-registered after the independently seeded changes (DESIGN §8).
_EXTRA = {
 "C01": " Added after the seeded changes: (R-TXN-9) every EncodeView in Commit is preceded by Truncate(0)+Seek(0) on the same file; (R-TXN-10) the auto-committing entry point is not reachable from ExecuteStatement; (R-ORD-1) the per-table counts that gate 'uncommitted' marking are filled by the same loop as their tables. (R-SIG-1) signals stay routed to the cancel function until the deferred rollback and release have run. (R-PUB-1) the write-back covers every updatable view type. Third round: R-ISO-5 registered (no failing exit between two publications of a multi-table statement). Fourth round: (R-CNT-3) a record whose cells are stored is counted, so the table is registered as uncommitted.",
 "C02": " Added after the seeded changes: (R-FMT-7) a grow-and-replace of a loaded record list keeps every element; (R-TXN-9) the file is rewound before each encode. (R-FMT-8) a loader records the detected line break only when one was detected (sibling agreement). Third round: R-FMT-4 now follows the bytes of every trailing line-break write in the commit path to the LineBreak they come from (FileInfo: accepted; session flags, also through a local copy, or a constant: reported); R-PAR-1 registered (loader workers share no scratch row).",
 "C03": " Added after the seeded changes: (R-REL-6) every success return of OuterJoin lies behind the FULL test; (R-ISO-2) inline tables / CTEs are handed out as copies. Second round: (R-CMP-7) IN / ANY / ALL over the empty list and lists with UNKNOWN elements. Third round: (R-ALIAS-1) records are not carved out of one allocation with a two-index slice; (R-PAR-12) a per-item decision across per-worker result slots is folded before it is acted on (FULL OUTER JOIN unmatched rows); (R-SET-1) set operators.",
 "C04": " Also (R-PAR-1): the key-generation workers share no buffer. Added after the seeded changes: (R-KEY-6) the strict / loose key choice is made in one place under a test of StrictEqual; (R-SRT-4) a cached sort value is filed under the column it was computed from. Third round: (R-SET-1) UNION / EXCEPT / INTERSECT without ALL generate the receiver's comparison keys on every success path that keeps rows; (R-POOL-5) a key buffer returns to its pool once. Fourth round: R-SRT-5 registered (the per-cell cache read by PARTITION BY moves with the rows); (R-SRT-6) NewSortValue follows the conversion ladder.",
 "C05": " Also (R-ISO-4): no store into a cell shared with other views (UPDATE builds new cells); (R-CNT-2) the per-table counts of multi-table UPDATE / DELETE count distinct records (set size, or a counter guarded by a first-seen test). (R-PUB-1) the write-back of every data-changing statement covers every updatable view type (file, temporary table, stdin) — finite evaluation of the FileInfo predicates over the ViewType constants. Third round: R-POOL-2 and R-PAR-1 registered (DELETE releases no shared cell values; ADD COLUMN's workers share no scratch slice); (R-LOCK-7) source queries run after the target is locked. Fourth round: (R-CNT-3) stored means counted.",
 "C09": " Also (R-CACHE-1): the first update access to a table loaded by a plain SELECT re-reads it under the exclusive lock. Second round: (R-CACHE-4) after the upgrade reload the cached view remembers that it holds the update lock. Third round: (R-LOCK-7) in every data-changing entry function every table read is preceded by the target's update-load — genuine defect recorded as known finding (WITH queries are evaluated before the lock: lost update); (R-CLEAN-7) created control files are handed to the handler before any failing step. Fourth round: (R-LOCK-8) forUpdate is propagated from query.Select to every loader; R-TXN-10 / R-CACHE-2 registered (no implicit commit or eviction that releases an update lock mid-transaction).",
 "C10": " Added after the seeded changes: (R-SWAP-4) the original descriptor Handler.fp is never written or truncated; (R-TXN-9) rewind before encode. (R-SWAP-5) a taint analysis of the table path: an existing table is never opened for writing, truncated, written or renamed away — it is only the target of os.Rename; (R-SWAP-2, new clause) a ForUpdate commit succeeds only through that rename. Fourth round: R-TXN-8 registered (what is encoded is what is swapped).",
 "C07": " Also (R-SRT-4): cached sort values are filed under the row and column they were computed from. Added after the second round of seeded changes: (R-SRT-5) a typestate analysis follows the view through the SELECT pipeline and proves that the per-row sort-value caches are nil or aligned with the rows wherever they are read (two genuine defects found: OFFSET did not shift the keys that LIMIT … WITH TIES reads — repaired; more than 100 PERCENT kept 100 rows — R-LIM-4, repaired); (R-LIM-4) no literal other than 0 reaches a row bound; (R-POOL-2) OFFSET / LIMIT release only their own temporaries. Third round: (R-FIX-1) Fix resets every transient pipeline field of View (incl. the OFFSET count) on every success path. Fourth round: (R-SRT-6) NewSortValue follows the documented conversion ladder in every abstract world; (R-SRT-7) the ORDER BY direction × NULLS table equals the documentation.",
 "C11": " Added after the seeded changes: (R-SIG-1) signal.Stop is deferred so that it runs after the deferred rollback / forced release; a second signal during clean-up cannot kill the process. Third round: (R-CLEAN-7) a created control file / descriptor is owned by the handler (or released, or returned) before any clean-up call or return. Fourth round: R-LOCK-6 registered; (R-ERR-16) Rollback's restore step tests nil-returning lookups.",
 "C14": " R-POOL-2 also covers deferred releases (double release through defer + explicit Discard). Third round: (R-ISO-7) a scratch view that is handed to in-place writers owns its records; (R-ANA-5) partitions are owned by one Execute. Fourth round: R-ISO-2 registered (inline tables are handed out as copies).",
 "C06": " Second round: (R-CMP-7) InRowValueList equals the Kleene fold for both match types, lists of 0–3 elements and every assignment of element results (finite evaluation with the element comparison as an oracle). Third round: (R-CMP-8) the IS truth table over operand classes, expected values from the documentation; (R-CONV-1) no NULL shortcut before strconv for any spelling strconv accepts (Inf / NaN / exponents / hex floats). Fourth round: R-POOL-1 / R-POOL-2 registered (a conversion never returns its operand, so comparing does not release a live value).",
 "C08": " Second round: R-ISO-5 no longer exempts cancellation returns after a publication (per-statement contexts do not end the transaction) — genuine defect in DELETE repaired. Fourth round: R-CACHE-2 registered (no unlisted eviction of a cached view with uncommitted changes).",
 "C12": " Added after the seeded changes: (R-PAR-7) no aggregate / analytic implementation starts goroutines (sequential reductions, no float reassociation). Second round: (R-PAR-8) no unsynchronised stateful library object shared by the workers; (R-PAR-10) no piecewise unstable sort inside a concurrent region. Third round: (R-POOL-5) no object sits in a pool twice; (R-PAR-12) no per-worker-slot effects in a per-item decision; (R-ALIAS-1) no shared spare capacity. Fourth round: (R-PAR-13) the number of workers only decides how the work is split.",
 "C13": " Added later: (R-PAR-4) scope constructors called in regions give each goroutine fresh lock-free helpers (field-index caches; genuine defect repaired); (R-PAR-6) the plain-map fields shared by all scopes are accessed only under viewLoadingMutex. Second round: (R-PAR-8) library objects in package-level variables (math/rand.Rand …) are used under a lock or outside concurrent code — two genuine races repaired; (R-PAR-9) objects handed down through a context value are read-only for the workers. Third round: (R-ALIAS-1) spare capacity of in-place-grown slices is never shared between a new object and its donor — genuine race repaired (per-group views shared the grouped view's header capacity); (R-PAR-11) a library object captured by concurrent goroutines is used by one of them at a time. Fourth round: (R-MTX-1) every Lock is paired with an Unlock on every path; R-SCP-2 registered.",
 "C15": " Added after the seeded changes: (R-SCP-7) a '… is redeclared' error is guarded only by tests on the current block (genuine defect in DeclareView repaired). (R-PAR-1) concurrent invocations of a user-defined aggregate share no argument buffer. Second round: (R-SCP-8) every block body (IF/CASE arms, WHILE bodies, function bodies) runs on a freshly created child scope that is released on every exit; (R-CUR-7) lookup loops fall through only on 'not declared here'. Fourth round: (R-SCP-9) the StatementFlow of every executed statement list is propagated.",
 "C16": " Added after the seeded changes: (R-CUR-6) every no-row exit of Fetch parks the pointer on −1 or the record count. Second round: (R-CUR-7) the block-lookup loops fall through to the enclosing block only on 'not declared here' — a closed cursor in the innermost block is an error, not the outer cursor's data. Third round: (R-CUR-8) the flag IsInRange reads is set on every exit of Fetch that moved the pointer; (R-ERR-14) a failed OPEN does not leave a view behind.",
 "C17": " Also (R-PAR-1): the partition workers of Analyze share no scratch buffer. (R-SRT-4) cached sort values are filed under their own column. (R-SRT-5) the per-cell sort-value cache shared by analytic functions, DISTINCT and ORDER BY is dropped whenever the rows are replaced. Second round: (R-ANA-4) LAG and LEAD are mirror images of one helper (a mirrored start position implies a mirrored step). Third round: (R-ANA-5) the partitions handed to Execute are not retained while implementations reverse them in place.",
 "C18": " Added after the seeded changes: (R-SCAN-1) every read of Scanner.src is bounds-guarded; (R-ESC-3) no printer of a syntax-tree node uses a child's raw Identifier.Literal. Second round: (R-ESC-4) a shortcut of the escape functions is unreachable for strings containing a key of the escape table; (R-ESC-5) printers never glue an operator token to a text that combines with it into another token (genuine defect repaired: '- -1' printed '--1'); (R-ERR-13) Split-result indices in the generated parser actions are guarded. Third round: (R-ESC-6) every quoted literal is un-escaped exactly once between scanString and the token. Fourth round: (R-SCAN-2) the scanner's loops end at EOF.",
 "C19": " Added later: (R-ERR-8) no method call on a possibly-nil interface in a type-switch default (genuine defect repaired); (R-SCAN-1) scanner reads are bounds-guarded; (R-FMT-7) grow-and-replace keeps every element. Second round: (R-ERR-11) user-controlled integers reaching an index or slice bound are shown ≥ 0 and within len of the same base (taint + interval engine + a small relational prover, across call boundaries); (R-ERR-12) the nil-able FileInfo.Handler is dereferenced only under a non-nil test or documented implication; (R-ERR-13) indices into strings.Split/Fields results are < len; (R-ERR-14) a value returned together with an error is published only where the error is known nil; (R-ERR-15) worker closures store their result slot on every non-error path. Four more genuine Fatal-Error defects found and repaired (FORMAT precision, SUBSTR overflow, inline table over a cached read-only file, LIMIT PERCENT after a huge OFFSET). Third round: R-PAR-1 registered (a map shared by worker goroutines is a fatal error that recover cannot catch). Fourth round: (R-MTX-1) lock pairing; (R-ERR-16) nil-returning lookups are tested; R-ERR-7 covers differences of sizes; (R-ERR-17) user-supplied position lists are not empty; (R-ERR-18) run-time statement lists run behind a depth guard — three more defects repaired, one recorded (self-sourcing script).",
 "C20": " Added after the seeded changes: (R-TXN-10) statements that run statements do not re-enter the auto-committing entry point. (R-POOL-2) built-in functions release only their own temporaries, never a cell of the cached table. Second round: (R-CACHE-4) the memory of the reload guard (FileInfo.ForUpdate of the published view) is written on every (re)load path, so the documented exception fires at most once — genuine defect repaired for STDIN. Third round: (R-ISO-7) scratch views own their records. Fourth round: (R-LOCK-8) forUpdate reaches the loaders of every operand of a FOR UPDATE query.",
}
for _p, _t in _EXTRA.items():
    if _p in CLAIMS:
        t, n, te, r = CLAIMS[_p]
        CLAIMS[_p] = (t + _t, n, te, r)

# Fifth round of seeded changes (DESIGN §8 round 5).
_EXTRA5 = {
 "C01": " Fifth round: (R-CTX-1) the context handed to every call is the function's own or a cancellation-keeping derivation of it, and no csvq type implements context.Context — an interrupt reaches the commit; (R-DROP-1) no error result is dropped (expression statement, defer, go; `_ =` for output primitives); (R-PAR-15) fork-join is unconditional. (R-TXN-11) point of no return: in Commit no file-phase call and no failing exit is reachable after the restore points of temporary tables have advanced; Rollback restores them on every exit.",
 "C02": " Fifth round: (R-DROP-1) no error of a writer / flush / close is dropped on the output path (a deferred Flush loses the report that the last buffer could not be encoded). (R-FMT-9) under Format = TSV the delimiter that reaches the CSV writer / reader is the constant tab on every path (abstract execution of EncodeView and of the loader).",
 "C03": " Fifth round: (R-PAR-14) the fold of the per-worker record lists equals the concatenation for every shape up to 4 lists × 2 records (abstract execution); (R-NODE-1) the query-level memos of ReferenceScope (resolved paths, frozen NOW) are born in CreateNode only, never with the statement-level scope; (R-VIEW-1) no evaluation sees a view between the replacement of its Header and of its RecordSet.",
 "C04": " Fifth round: R-SRT-5 now also tracks the column layout: a per-cell cache is stale once the Header is replaced (not merely extended), and carrying old entries over into a rebuilt cache does not cure it; (R-CONV-2) zone-less datetime texts are parsed in the session location.",
 "C05": " Fifth round: (R-VIEW-1) Header and RecordSet change back to back (ALTER TABLE ADD evaluates defaults before either); (R-UPD-1) the row index into a target view selected by key is not carried over from the iteration of another key (multi-table UPDATE).",
 "C06": " Fifth round: (R-CMP-9) the arithmetic evaluators return Integer / Float / Null only (unary plus converts its operand); (R-CONV-2) time.Parse only with zone-carrying constant layouts, everything else through ParseInLocation with the session location.",
 "C08": " Fifth round: (R-VIEW-1) registered (a failing default expression cannot observe a half-replaced view). (R-TXN-11) registered.",
 "C09": " Fifth round: (R-OWN-1) a loading function releases only handlers it created itself; handlers stored in cached views are released by the transaction end only. (R-CLEAN-8) a handler leaves the container's map only on the success edge of its release; (R-PATH-1) table paths are canonical (filepath.Abs / Clean) before they become cache keys and lock paths.",
 "C10": " Fifth round: R-DROP-1 registered (errors of write / sync / rename primitives are never discarded).",
 "C11": " Fifth round: (R-CTX-1) cancellation is never detached; (R-OWN-1) reading a held table as an inline table does not remove its control files. Genuine defect repaired: SIGPIPE / SIGHUP ended csvq without clean-up (R-TXN-2's signal table now requires them). (R-CLEAN-8) a handler whose close / commit failed stays registered, so the clean-up at the end of the transaction still finds its control files.",
 "C12": " Fifth round: (R-DET-2) package-level variables are written at run time only where listed as result-neutral (a 'last matched format' hint in an atomic.Value is race-free but history-dependent); (R-PAR-14) the worker-list fold keeps every record in list order; (R-PAR-15) fork-join is unconditional.",
 "C13": " Fifth round: (R-PAR-15) every go statement is followed, on every path to a return of the starting function, by a synchronous WaitGroup.Wait (directly or through a csvq function that waits on all its paths) — a join raced against ctx.Done() lets workers outlive the call.",
 "C14": " Fifth round: R-DET-2 registered (no hidden state survives from one evaluation to the next).",
 "C17": " Fifth round: (R-IDENT-1) the printed text of an expression is never compared case-insensitively (two analytic functions that differ in the case of a literal are two columns) — genuine defect repaired.",
 "C18": " Fifth round: (R-POS-1) the Line / Char of a token are loads of the scanner's position made after the rune that starts the token was consumed, with no arithmetic — the EOF token (every 'unexpected termination' error) lies inside the input; (R-ESC-7) a sigil kind accepts a quoted name in the scanner iff its printer quotes (only environment variables).",
 "C19": " Fifth round: (R-DROP-1) no error is dropped. Three genuine defects reported by seeding agents and repaired: COUNT(*) over a table without columns (empty file), an aggregate nested in an analytic function over grouped records, `csvq calc` on an expression that makes the query a set operation. New rules written for these reports: (R-ERR-19) a constant index into a data-shaped slice (Record, RecordSet, Header, Cell, RowValue) needs len > c shown; (R-ERR-20) an index that ranges over slice A and indexes a data-shaped slice B needs len(B) ≥ len(A); (R-ERR-21) the value of a comma-ok assertion whose ok is dropped does not flow into an unchecked assertion / interface call / dereference; (R-ERR-22) a parser field that is nil-tested anywhere (optional clause) is tested before every unchecked assertion on it. They fire on the parents of the three repairs and surfaced five more crashes on the pinned tree (subqueries, UPDATE / DELETE over a table without columns; `csvq fields` on a non-table argument), all repaired.",
 "C20": " Fifth round: (R-OWN-1) the update handler of a cached table is never closed by a loader; (R-NODE-1) the resolved-path memo does not outlive the query. (R-PATH-1) every success return of the path resolvers yields a cleaned absolute path, so two spellings of one file share one cache entry.",
}
for _p, _t in _EXTRA5.items():
    if _p in CLAIMS:
        t, n, te, r = CLAIMS[_p]
        CLAIMS[_p] = (t + _t, n, te, r)

# Sixth round of seeded changes (DESIGN §8 round 6).
_EXTRA6 = {
 "C01": " Sixth round: (R-CAN-5) a parallel stage that stops early on cancellation turns it into an error; R-CACHE-3 registered.",
 "C02": " Sixth round: (R-MEMO-1) a process-lifetime memo is keyed by everything its value is computed from (the JSON path cache filed ParsePath(name) under ToUpper(name)); (R-EXT-1) every comparison with a file-extension constant sees a lower-cased value (CREATE TABLE and the loaders pick the format by the same rule). Genuine defect repaired: every JSON Lines file csvq wrote ended in an empty line that its own loader rejects.",
 "C03": " Sixth round: R-REL-3 clause (c): the empty step is the only way a recursive CTE stops with success; (R-SCP-10) a pooled scope is fully reset on every path of Clear; (R-MEMO-2) a per-scope memo is inherited only together with the fields its entries were computed from.",
 "C05": " Sixth round: R-CACHE-4 registered (the reload guard remembers the update lock, so a second data-changing statement does not re-read the file and drop the first one's edits).",
 "C06": " Sixth round: (R-CONV-3) the configured datetime formats are tried before any return of StrToTime, and a configured format that parses wins.",
 "C07": " Sixth round: R-PAR-10 / R-PAR-13 registered (ORDER BY sorts with one stable call; the worker count only splits work).",
 "C09": " Sixth round: (R-SET-2) both operands of a set operation are evaluated on every success path, so `… EXCEPT SELECT … FROM b FOR UPDATE` locks b even when the left side is empty.",
 "C10": " Sixth round: (R-CAN-5) a cancelled parallel conversion cannot hand COMMIT a half-filled result with a nil error.",
 "C11": " Sixth round: R-LOCK-2 registered (a lock file created and then given up is removed); R-CAN-5 registered.",
 "C12": " Sixth round: (R-PAR-16) a goroutine never registers itself with the WaitGroup its spawner waits on; (R-MEMO-1) process-lifetime memos are functions of their keys; (R-CAN-5).",
 "C13": " Sixth round: (R-PAR-16) Add happens in the spawner.",
 "C14": " Sixth round: (R-MEMO-1) the compiled-regexp cache and the other package-level memos cannot hand one caller what another caller's arguments produced; (R-SCP-10) pooled scopes come back empty.",
 "C15": " Sixth round: (R-MEMO-2) a scope with its own block chain does not share a memo computed from the parent's chain (a function declared in a function body shadows the outer one); (R-SCP-10).",
 "C17": " Sixth round: R-SRT-1 registered (the order laws of SortValue.Less are what the ORDER BY of an analytic clause relies on).",
 "C20": " Sixth round: R-LOCK-4 (the table is opened after its lock is held, so a waiter never reads the pre-commit inode) and R-SET-2 registered.",
}
for _p, _t in _EXTRA6.items():
    if _p in CLAIMS:
        t, n, te, r = CLAIMS[_p]
        CLAIMS[_p] = (t + _t, n, te, r)

# Seventh round (DESIGN §8 round 7).
_EXTRA7 = {
 "C01": " (R-TXN-12) the uncommitted views are partitioned over the ViewType enum: every updatable view type is taken by exactly one selector of the Updated map, so COMMIT either writes a changed table or stores its restore point (STDIN is in memory but not a temporary table).",
 "C02": " Seventh round: R-TXN-6 registered (a cancelled encode never reports success). (R-FMT-10) under ENCLOSE_ALL the quote flag of a cell is a function of the option and the kind of the value, never of its text; (R-FMT-12) bytes written next to EncodeView's output are encoded like the file — genuine defect repaired (UTF-16 files ended in a raw 0x0A); (R-FMT-11) files are never coloured — genuine defect repaired (the reader tells \"\" from an unquoted empty field = NULL).",
 "C03": " Seventh round: (R-PAR-5) the parallel paths of WHERE / JOIN hand every row to exactly one worker; R-CMP-6 registered (the BETWEEN / IN expansions decide which rows WHERE keeps); (R-REC-1) the recursion marker of a scope is written by its creator only, (R-ITER-1) a result assigned inside a per-row callback holds a value when it is read, (R-IDENT-2) names are compared case-insensitively everywhere — three genuine defects repaired (a UNION nested in a recursive CTE, LATERAL over an empty table, `T1.*`); R-CMP-10, R-KEY-7 registered.",
 "C04": " Seventh round: (R-PAR-5) the parallel key computation of GROUP BY hands every row to exactly one worker; (R-DST-1) every success return of an aggregate evaluation honours DISTINCT — genuine defect repaired (COUNT(DISTINCT literal)); (R-KEY-7) a byte buffer whose content becomes a map key is written only by the framed key serialisers (a memo keyed by raw texts joined with ':' hands one bucket key to two tuples); (R-CONV-4) lib/query reads a text as a number only through the lib/value conversions, apart from three listed built-ins — an aggregate with its own parser sums other rows than its bucket holds. (R-SRT-8) comparison keys of datetimes are exact.",
 "C05": " Seventh round: (R-ORD-2) a map-ordered loop that publishes its values is keyed by the container key — genuine defect repaired: UPDATE / DELETE of one table under two aliases lost one alias's changes; (R-TXN-12); R-SCP-1 registered.",
 "C06": " Seventh round: (R-UTF-1) no unicode predicate on a single byte — genuine defect repaired (TrimSpace and leading multi-byte spaces); (R-CMP-10) no three-to-two collapse: the argument of ternary.ConvertFromBool never compares a ternary value with a ternary constant (negation is ternary.Not); R-CONV-4 registered.",
 "C07": " Seventh round: (R-LIM-5) LIMIT and OFFSET have one interpreter: LimitClause.Value / OffsetClause.Value are read only by View.Limit / View.Offset and the three error constructors. (R-LIM-6, engine E12) the clamping arithmetic of LIMIT / OFFSET by symbolic path evaluation: kept = min(max(n,0), L), dropped = min(max(n,0), L), view.offset = dropped; (R-SRT-8) no ordering decision on time.Time.UnixNano (undefined outside 1678–2262) and (R-SRT-9) EquivalentTo is the tie relation of Less — three genuine defects repaired (datetime sort keys, MEDIAN of datetimes, WITH TIES for 1 / 1.0).",
 "C08": " Seventh round: (R-CACHE-6) nothing fails after an eviction until the entry is re-published — genuine defect repaired (a failed lock upgrade dropped the loaded table); R-LOCK-6 / R-OWN-1 registered (a failing CREATE TABLE releases the handler it created).",
 "C09": " Seventh round: (R-LOCK-9) forUpdate is never invented: it comes from the user's FOR UPDATE or from being the target of a data-changing statement; (R-LOCK-10) the control files of a table are found by literal comparison, never by a pattern built from its name — genuine defect repaired (read locks of `a[1].csv`).",
 "C11": " Seventh round: (R-PATH-2) a path used by a clean-up after user statements ran (the removal of an empty --out file) is absolute, because CHDIR changes the working directory. (R-MTX-2) registered: a self-deadlocked run can only be killed, which leaves the lock files.",
 "C12": " Seventh round: (R-PAR-5, engine E11) the task ranges tile the input: RecordRange read path by path as polynomials over (task index, recordLen, Number, recordLen/Number) gives start(0) = 0, end(i) = start(i+1), end(last) = recordLen, empty ranges only beyond the last row; every consumer walks exactly [start, end); every task function is started for each index 0 … Number−1 — the rows the workers handle are a partition of the input for every --cpu. (R-CACHE-5) a cache hit compares the requested import options (known finding, two keys: the first loader wins and the order of first loads depends on the schedule); (R-PAR-17) a transaction file handle is used inside the critical section that took it; (R-ORD-2).",
 "C13": " Seventh round: (R-PAR-5) the workers' row ranges are disjoint (premise of R-PAR-1's index-partitioned writes). (R-PAR-17); (R-PAR-18) only the statement-level processor stores results in the Transaction; (R-PAR-20) between a go statement and the join the spawner only spawns; (R-LKS-1) every field a struct's methods write under its mutex is accessed under it (known finding, seven keys on Cursor); R-ALIAS-1 extended to slabs reached through closures / helpers and to slice fields grown in place.",
 "C14": " Seventh round: R-ALIAS-1 extended (rows of a scratch view are never carved out of one block; derived caches do not share backing arrays); R-POOL-3 identifies pool constructors by role.",
 "C15": " Seventh round: (R-SCP-11) a variable is born with its initial value — no name of a declaration exists (as NULL) while its own initial value is evaluated.",
 "C16": " Seventh round: (R-CUR-10) the range / open status of a cursor is consulted only by the CURSOR … IS … expressions — loops and fetches are driven by what Fetch returns; (R-CMP-10) IS NOT IN RANGE / IS NOT OPEN negate with ternary.Not. (R-CUR-9) FETCH RELATIVE computes index + number only on paths whose branch conditions bound the sum on both sides (it cannot wrap around) — genuine defect repaired (be64c59); R-CUR-4 accepts a saturated move only where the branch condition proves that index + number lies on or beyond the boundary that is stored instead. (R-INTO-1) every variable of an INTO list is assigned on every successful return — genuine defect repaired: an out-of-range FETCH left the previous row in the variables; (R-LKS-1).",
 "C17": " Seventh round: (R-ERR-23 / R-ERR-24) window-frame arithmetic on user offsets cannot wrap or walk unboundedly — genuine defect repaired; (R-ANA-6) no frames over a reordered partition (known finding: LAST_VALUE); (R-PAR-5) every partition is handed to exactly one worker of Analyze; R-PAR-3 registered (partitions are built in row order); R-KEY-7 / R-CONV-4 registered. R-SRT-8 / R-SRT-9 registered.",
 "C18": " Seventh round: (R-ESC-8) a printer never inspects the text of a child, Parentheses / Subquery always wrap; (R-ESC-9) every field of a node is consulted on every path of its printer; (R-SCAN-3 / R-SCAN-4) the parser driver is handed EOF or a positive number, and no character stands for a named token — two genuine defects repaired (unknown operators and NUL silently dropped; private-use runes taken for grammar tokens).",
 "C19": " Seventh round: (R-MTX-2) no call made while a transaction-wide mutex is held reaches a second Lock of it — known finding, eight keys: a data-changing statement whose expressions call a user-defined function that runs a data-changing statement waits for itself for ever; (R-NEST-1) stored code on a call-graph cycle needs a depth guard (three keys known: unbounded recursion of functions and prepared statements; the placeholder self-reference repaired); (R-BKT-1) no branching self-recursion over the same input (LIKE repaired); (R-ERR-23/24/25) user-controlled sums, loop bounds and running-position fills; R-ERR-7 covers formatting precisions (NUMBER_FORMAT repaired); R-DROP-1 (c) encode errors are never blanked (JSON_OBJECT repaired).",
 "C20": " Seventh round: (R-CACHE-6) evict last; (R-LOCK-9) no function sets FOR UPDATE on a query it evaluates; R-PAR-17 registered.",
}
for _p, _t in _EXTRA7.items():
    if _p in CLAIMS:
        t, n, te, r = CLAIMS[_p]
        CLAIMS[_p] = (t + _t, n, te, r)

_EXTRA8 = {
 "C01": " Eighth round: (R-TXN-13) a restore point is total: header and records are saved together and put back together, no condition decides about one half; (R-TXN-14) only Commit / Rollback remove the mark of an uncommitted change; R-CLEAN-2 / R-CLEAN-6 registered (a failed COMMIT leaves no created table behind).",
 "C04": " Eighth round: R-KEY-3 now requires that a float without a fractional part is written with the key of the integer it equals (test f == math.Trunc(f) or a verified helper) — genuine defect repaired: 1.0 and 1 (0.0, -0.0, 0) fell into different GROUP BY / DISTINCT / UNION buckets; the rule had frozen the defective float rung.",
 "C05": " Eighth round: (R-TXN-13); R-ISO-1 / R-ISO-2 registered (UPDATE / DELETE never shift the records of the cached table in place).",
 "C08": " Eighth round: R-ERR-14 / R-TXN-4 registered (a result published before its check stays behind when the check fails).",
 "C10": " Eighth round: R-LOCK-1 / R-LOCK-4 registered (the temp file COMMIT encodes into is created exclusively and only under the lock of its table).",
 "C14": " Eighth round: (R-CUR-11) a fetched row is storage of its own; R-SRT-5 registered (a per-cell cache carried over a re-projection makes a later clause read another cell's value).",
 "C15": " Eighth round: (R-TXN-14) closing a block never erases the uncommitted mark of the outer view it shadowed.",
 "C16": " Eighth round: (R-CUR-11) every field of Cursor that a method other than Open writes is stored by Open before each successful return, and every slice a method of Cursor returns is nil or allocated by that call.",
 "C18": " Eighth round: R-DET-2 / R-MEMO-1 registered (the parser keeps no lazily built package-level table).",
 "C19": " Eighth round: (R-REF-1) every RecordSet[…recordIndex] is dominated by IsInRange on the same reference record, through parameters to the callers — two genuine defects repaired (LISTAGG / JSON_AGG and JSON_OBJECT evaluated without a current record indexed with -1).",
}
for _p, _t in _EXTRA8.items():
    if _p in CLAIMS:
        t, n, te, r = CLAIMS[_p]
        CLAIMS[_p] = (t + _t, n, te, r)
_EXTRA9 = {
 "C01": " Ninth round: (R-TMPKIND-1) a temporary-table existence test takes the name as written, never a path that came out of the alias map — genuine defect repaired (UPDATE / DELETE of a file wrote into a temporary table declared under the file's path).",
 "C02": " Ninth round: (R-FMT-15) every loader records each dialect field that the encoder of its format writes back (genuine defect repaired: the JSON loaders forgot the line break); (R-FMT-16) EncodeView writes into a table file or a buffer of the caller, never straight into a session stream (genuine defect repaired: a refused result left its first rows in the --out file); (R-FMT-17) a created table takes every dialect attribute that ExportOptions feeds back from the export options; R-TXN-3 registered (a table the encoder refuses reaches no swap and no success return). Also repaired, without a rule yet: fixed-length output with fewer delimiter positions than fields dropped the others silently.",
 "C03": " Ninth round: (R-SET-3) every success return of a set-combining function passes the operator dispatch (genuine defect repaired: recursive UNION with an empty first step); (R-GRP-1) the implicit group of a query without GROUP BY is formed whatever the input and has a record; R-CMP-3 registered (a shortcut in front of the coercion ladder changes the rows WHERE / ON keep).",
 "C04": " Ninth round: (R-GRP-1) the implicit group exists for every input, also the empty one — genuine defect repaired (HAVING was not applied to the empty group); (R-SET-3); (R-SRT-12) every row-indexed field of a view built over RecordSet[lo:hi] is unset or cut from the same lower bound; (R-KEY-8) SortValues.Serialize agrees with EquivalentTo on every pair of sort-value types — guards the repair of PARTITION BY over 1 / 1.0.",
 "C05": " Ninth round: R-ISO-5 registered (a multi-table UPDATE / DELETE has no failing exit between two of its publications).",
 "C06": " Ninth round: R-ERR-10 registered (a float is turned into an integer only where its class was tested).",
 "C07": " Ninth round: (R-SRT-10) SortValue.Less over NewSortValue(a), NewSortValue(b) agrees with CompareCombinedly(a, b) wherever the operators order two texts — genuine defect repaired (a text column holding words that read as booleans or datetimes was left unsorted); (R-SRT-11) the arrays the comparator reads at one index are filled in lock-step; (R-SRT-12); (R-SRT-13) ties are decided by the comparator, never by a serialized key.",
 "C08": " Ninth round: (R-ISO-8) a statement that was applied returns no error: in ExecuteStatement nothing can fail after a statement function has returned without error; (R-INPL-1) no in-place write of a value list the writer's call chain did not allocate; (R-PATH-3) a resolved file path is not case-folded into an identity — known finding K10 (t.csv / T.csv share one cache entry; the pinned tests spell the folded key).",
 "C09": " Ninth round: (R-LOCK-11) the reader check answers 'no reader' only after the whole directory listing was examined; (R-LOCK-12) every failure of an exclusive create is answered with the error kind the wait loop retries on, independent of a later file-system probe.",
 "C10": " Ninth round: (R-PATH-3) known finding K10 (an UPDATE of T.csv commits into t.csv).",
 "C11": " Ninth round: (R-CLEAN-9) a control file that was created is returned, stored into the handler or released on every path — never lost; R-TXN-1 registered (EXIT ends a procedure without commit).",
 "C14": " Ninth round: (R-BIND-1) an expression slot that enters a context holds literals bound once by an evaluating binder — genuine defect repaired (USING values were evaluated again at every placeholder occurrence and row); (R-INPL-1); (R-PROG-1) the fields of a stored program (UserDefinedFunction, PreparedStatement, the declaration of a Cursor) and the maps / slices read out of them are written only while the object is under construction.",
 "C15": " Ninth round: R-SCP-9 corrected — a function body hands the Exit flow on as an error (the rule had frozen the defect; EXIT through EXECUTE / SOURCE inside a function only ended the call: repaired); (R-SCP-12) a file is looked up only under the 'not declared' branch of the temporary-table lookup of the same name; (R-PROG-1).",
 "C16": " Ninth round: (R-CUR-12) cursor status table by abstract execution over closed / just opened / fetched: just opened answers UNKNOWN whatever the length; (R-BIND-1) OPEN … USING evaluates its values once; R-SCP-8 registered (a cursor declared in an IF / CASE arm ends with the arm).",
 "C17": " Ninth round: (R-SRT-13) peer groups of the rank functions are decided by the comparator; (R-SRT-10/11/12), (R-KEY-8), (R-INPL-1); R-FIX-1 registered (a derived table does not hand the sort keys of other rows to the analytic functions of the outer query).",
 "C18": " Ninth round: (R-SCAN-5) no function reachable from the scanner lies on a call cycle — genuine defect repaired (a run of comments overflowed the stack); (R-ESC-10) a grammar action that copies the spelling of an identifier into a node copies its Quoted flag with it — repaired; (R-ESC-11) a name the scanner classifies never passes through a Unicode case mapping in a printer — repaired. Also repaired without a rule: '! :a' printed as '!:a'.",
 "C19": " Ninth round: (R-ERR-26, engine E16: goyacc grammar reader + dynamic-type flow through the syntax tree) every unchecked assertion to a syntax-tree type is applied to an operand whose dynamic type was tested or that every grammar action, literal and store of the program fills with that type — four genuine defects repaired ((SELECT 1, 2) = 3; `json_object`(1); SELECT 1 UNION (SELECT 1, 2); DELETE FROM (t)); R-ERR-7 enumerates all callers of a helper (SHOW CURSORS padding repaired); (R-TMPKIND-1); R-PAR-6 registered.",
 "C20": " Ninth round: (R-PATH-3) known finding K10; (R-CACHE-7) every removal of a control file tolerates a file that is already gone, so a release cannot fail and leave the cache behind COMMIT / ROLLBACK.",
}
for _p, _t in _EXTRA9.items():
    if _p in CLAIMS:
        t, n, te, r = CLAIMS[_p]
        CLAIMS[_p] = (t + _t, n, te, r)
_EXTRA9B = {
 "C01": " Second wave: (R-RELEASE-1) every exit of COMMIT after the first swap, and every exit of ROLLBACK, releases everything — genuine defect repaired.",
 "C02": " Second wave: (R-IMP-1) every FileInfo field a loader reads is written back by ExportOptions or tested by the guard that makes a view updatable — genuine defect repaired (UPDATE through --json-query replaced the document by the selected part); (R-FIXW-1) given delimiter positions are counted against the fields before a fixed-length writer is built.",
 "C03": " Second wave: (R-POOLSET-1) an index pool that is enumerated is a set — genuine defect repaired (USING (c1, c1) emitted the column twice).",
 "C05": " Second wave: (R-TBLNAME-1) the reference name a statement writes into a header comes from FormatTableName — genuine defect repaired (a dotted temporary-table name changed its qualifier after the first INSERT); (R-POOLSET-1); REPLACE with two given rows of one existing key repaired (value-level, no rule).",
 "C06": " Second wave: R-ERR-10 extended to the range of the target type — genuine defect repaired (INTEGER(1e19) = MinInt64); (R-ARITH-1) an integer +, −, * of two user values is preceded or followed by an overflow test — known finding K13 (wrap-around at the int64 bounds; falling back to float or raising an error is a product decision); DATETIME(-1.5) repaired (value-level).",
 "C09": " Second wave: known finding K3 REPAIRED — data-changing statements lock the files they name first; R-LOCK-7 counts a lock-only pass; (R-LOCK-13) the files of a FROM clause are locked before LoadView evaluates its members; (R-LOCK-14) the wait loop never gives up with ContextDone — genuine defect repaired (--wait-timeout 0).",
 "C11": " Second wave: (R-RELEASE-1/2) the release is total; (R-RELEASE-3) a descriptor that was closed is forgotten, so a failed release can be repeated — genuine defects repaired.",
 "C13": " Second wave: R-PAR-1's partition test demands a one-to-one image of the task index; R-LKS-1 extended to the object behind a pointer field of a mutex-carrying struct — two genuine defects repaired (SOURCE / CREATE TABLE in a function called from a parallel query used the file container without its mutex), known finding K11 (Transaction.Flags is read without the mutex its writers hold); (R-GOVAR-1) a variable shared with a go literal outside lib/query is synchronised — repaired; (R-PAR-25) a sent buffer is not recycled by the sender.",
 "C12": " Second wave: (R-PAR-24) no work stealing under worker-ordered results; (R-PAR-25) ownership transfer on send.",
 "C14": " Second wave: (R-ONCE-1) two call sites that hand the same syntax-tree path to Evaluate do not lie on one path — genuine defect repaired (a table function argument was evaluated twice by loadView); known finding K12 (UPDATE / DELETE evaluate it again).",
 "C16": " Second wave: known finding K11 (R-LKS-1).",
 "C19": " Second wave: R-ERR-10 (range), R-LKS-1 (the unsynchronised file-container map is a fatal error), R-ERR-7 second key for LPAD / RPAD (K1).",
 "C20": " Second wave: (R-RELEASE-1/2/3) a failing release no longer leaves the table cache behind COMMIT / ROLLBACK — genuine defect repaired.",
}
for _p, _t in _EXTRA9B.items():
    if _p in CLAIMS:
        t, n, te, r = CLAIMS[_p]
        CLAIMS[_p] = (t + _t, n, te, r)
_EXTRA10 = {
 "C01": " Tenth round: (R-TXN-15) the swap phase of COMMIT is not interruptible: no instruction between the first and the last file swap consults the context.",
 "C02": " Tenth round: (R-FMT-18) every import encoding the go-text detector can refine (derived from its source: AUTO, UTF8, UTF16) is refined before the file is decoded.",
 "C03": " Tenth round: (R-QUANT-1) ANY / ALL / IN / NOT IN are the Kleene folds of the element comparisons, also over the empty list; (R-MEMBER-1) a membership scan answers 'absent' only after the whole collection was examined; (R-UTF-2).",
 "C05": " Tenth round: (R-MEMBER-1); (R-TMPKIND-2) the kind an alias is registered with agrees with the container its view came from — a regression of an earlier repair found and repaired (UPDATE / DELETE of STDIN).",
 "C06": " Tenth round: (R-UTF-2) the small-code-point fast path of a hand-written character-class predicate agrees with the standard predicate it bypasses; (R-QUANT-1).",
 "C07": " Tenth round: R-IDENT-1 registered (the computed column an ORDER BY item sorts by is found by the exact identifier of the expression).",
 "C09": " Tenth round: (R-LOCK-21) the lock pass of a data-changing statement locks every table of its list on every path; (R-LOCK-22) the matcher of control-file names agrees with the names the creators build. After it: (R-LOCK-23) every form of operand of a set operation receives the FOR UPDATE flag of the query (flag parameters by fixpoint from LoadView) — genuine defect repaired: a parenthesized operand stayed unlocked.",
 "C10": " Tenth round: R-FMT-12 / R-FMT-4 registered (the bytes that close a committed file are encoded with the file's own encoding).",
 "C11": " Tenth round: (R-CLEAN-12) the reference to a control file is cleared only after the file was removed or renamed successfully.",
 "C12": " Tenth round: (R-CPL-1); R-SRT-12 registered.",
 "C13": " Tenth round: (R-CPL-1) a value that holds a sync / atomic type by value is never copied (value receivers, by-value parameters, whole-value loads of shared storage).",
 "C14": " Tenth round: R-SCP-2 registered (a scope is released once: a node scope pooled twice is handed to two nested queries).",
 "C15": " Tenth round: (R-SCP-13) every invocation binds every declared name of the function in its own block. After it: (R-SCP-14) a scope that opens a new block (function invocation, IF / WHILE block) carries nothing of the calling query — nodes, Records and the recursive table of a running WITH RECURSIVE stay behind; genuine defect repaired (a function called from a recursive CTE could not see a view it declares under the CTE's name).",
 "C16": " Tenth round: (R-CUR-13) OPEN evaluates the cursor's query in the scope of the OPEN statement; (R-SCP-13); (R-CPL-1); R-SCP-1 registered.",
 "C17": " Tenth round: (R-ROW-1) a per-row evaluation stands on the row that receives its result (position, evaluate, store for the same record).",
 "C19": " Tenth round: (R-IDX-1) an index advanced inside a scanning loop is proven < len before it is used; (R-RECT-1) rows built before the header is final are padded unconditionally: every loaded JSON table is rectangular.",
 "C20": " Tenth round: (R-CACHE-8) the read-through caches of the transaction are filled on every success path under the key they were looked up with; R-ISO-5 registered.",
}
for _p, _t in _EXTRA10.items():
    if _p in CLAIMS:
        t, n, te, r = CLAIMS[_p]
        CLAIMS[_p] = (t + _t, n, te, r)
# Substrate rules (rules/zz_substrate.go): run with every property whose observable behaviour they protect.
_SUBSTRATE = " Substrate (run with every value-level property, DESIGN §2.11): R-POOL-1/2/3/5 (no value object is returned to its pool while something still refers to it, none twice), R-PAR-1 (no unsynchronised conflicting access between worker goroutines), R-ALIAS-1 (no shared spare capacity), R-ISO-4 / R-AST-1 (no in-place write to cells or syntax trees that another holder shares)."
for _p in ["C01","C02","C03","C04","C05","C06","C07","C08","C12","C13","C14","C15","C16","C17","C19","C20"]:
    if _p in CLAIMS:
        t, n, te, r = CLAIMS[_p]
        CLAIMS[_p] = (t + _SUBSTRATE, n, te, r)
