#!/usr/bin/env python3
"""Create /verif/mutants/<name>.diff from textual edits of /repo files.

usage: mkmutant.py NAME PROPS RULES EXPECT NOTE <<'EOT'
@@ lib/query/foo.go
old text
=====
new text
@@ lib/query/bar.go
...
EOT
PROPS/RULES comma separated ("-" for an expected miss). The old text must occur exactly once.
"""
import sys, difflib, os
name, props, rules, expect, note = sys.argv[1:6]
repo = os.environ.get("REPO", "/repo")
outdir = os.environ.get("OUT", "/verif/mutants")
blocks = sys.stdin.read().split("\n@@ ")
edits = {}
for b in blocks:
    b = b.lstrip("@ ").rstrip("\n")
    if not b.strip():
        continue
    path, body = b.split("\n", 1)
    old, new = body.split("\n=====\n")
    edits.setdefault(path.strip(), []).append((old, new))
out = [f"# property: {props}", f"# rule: {rules}", f"# expect: {expect}", f"# note: {note}"]
for path, es in edits.items():
    src = open(os.path.join(repo, path)).read()
    dst = src
    for old, new in es:
        if dst.count(old) != 1:
            sys.exit(f"{name}: old text occurs {dst.count(old)} times in {path}:\n{old}")
        dst = dst.replace(old, new)
    d = difflib.unified_diff(src.splitlines(True), dst.splitlines(True), "a/" + path, "b/" + path, n=3)
    out.append("".join(d).rstrip("\n"))
open(os.path.join(outdir, name + ".diff"), "w").write("\n".join(out) + "\n")
print("wrote", name)
